"""C19 - Stored identity data survives a crash at any point (the application's half of durability)."""
from __future__ import annotations

import ast
import re

from ..core import Ctx
from ..match import Fact, _atoms_with_polarity, arg, call_name, calls, expr_context_facts, fact_of, facts_at, local_defs, rchain, resolve, single_def, stores
from ..model import AnalysisError, ClassInfo, FuncInfo, chain, const_value, enclosing_stmt, norm, parent, strip_cast, walk_no_nested

LEVEL = "other"
EXPLANATION = (
    "The application's half of durability: in every insert_* of IdentityDatabase and AttestationsDB each normal path from "
    "the INSERT to the return passes self.commit() (the statement, its bindings and the commit are followed into the helpers of "
    "the same object, with the helper's parameters bound to the call's arguments and class/module level tables folded), and a "
    "failing commit is never turned into a normal return (neither by an insert nor by Database.commit); no `with <database>:` "
    "block (which defers commits) exists anywhere, "
    "so commit() reaches connection.commit(); _pending_commits is touched only by the deferral mechanism, __exit__ always "
    "resets it and __enter__ never lowers it (a nested block keeps the commits its enclosing block deferred); the journal "
    "settings are tracked through _initial_statements path by path (every normal path of a file database ends in WAL and "
    "synchronous NORMAL, the temporary DELETE mode is always followed by WAL) and no other code issues journal/synchronous "
    "pragmas; the database layer never deletes, renames, truncates or overwrites files (the -wal / -journal side files hold "
    "what a reopen after a kill needs); schemas are "
    "CREATE TABLE IF NOT EXISTS, keyed inserts are INSERT OR IGNORE, check_database commits, and the column order of "
    "INSERT / SELECT agrees with to_database_tuple / from_database_tuple (each column is bound to the field / key of "
    "the same name, whatever the locals are called) so a reopened database rebuilds the same objects, and the pseudonym "
    "reload places every token it reads back into tree.elements (not through the bounded gather_token intake); the connection is opened and "
    "kept in the sqlite3 module's implicit-transaction mode (no isolation_level=None / autocommit=True anywhere in the database layer), so that "
    "Connection.commit() is what ends a transaction.  Where a decision (commit now or defer, row written or not) is carried by a flag, an Enum "
    "tag, a result record or a callee instead of a dominating test, the same questions are decided by walking every path with the values that "
    "decide its branches.  Every normal path through an insert_* executes its INSERT (a path that skips statement and commit because something "
    "kept in memory says the row was written before is reported); the wrappers that the decorators of Database.execute / executemany / "
    "executescript / commit put around them run the wrapped method on every normal path unless the database is closed (a lock taken without "
    "blocking, a time-out or a rate limit would drop a commit silently); check_database runs the schema script on every open, or - where it may "
    "skip it - the database_version record is the last thing the script writes (executescript commits statement by statement); on the open path "
    "(Database.open and the _connect / _initial_statements / _prepare_version / check_database / get_schema it reaches, on both subclasses) a "
    "next() over the rows of a query without default is under a handler for StopIteration, and a fetchone() row is tested for None before it is "
    "taken apart, unless the statement folds to one that always yields a row (aggregate SELECT without grouping, PRAGMA read): a kill between "
    "the DELETE and the INSERT of the version record must not make every later open fail. "
    "SQLite's atomic commit and behaviour at each kill point are trusted, not explored."
)

DB = "ipv8/database.py"
IDB = "ipv8/attestation/identity/database.py"
WDB = "ipv8/attestation/wallet/database.py"


def _stored_values(fi: FuncInfo, attr_chain: str) -> list[tuple[ast.stmt, ast.AST | None]]:
    """(statement, stored value) for every store into `attr_chain`; the value of a tuple assignment is the paired
    element (`a.x, y = 0, a.x` stores 0 into a.x); None when the value is not syntactically known (augmented, unpacking)."""
    out: list[tuple[ast.stmt, ast.AST | None]] = []
    for n in walk_no_nested(fi.node):
        if isinstance(n, ast.Assign):
            for t in n.targets:
                if chain(t) == attr_chain:
                    out.append((n, n.value))
                elif isinstance(t, (ast.Tuple, ast.List)):
                    for i, e in enumerate(t.elts):
                        if chain(e) == attr_chain:
                            v = n.value
                            out.append((n, v.elts[i] if isinstance(v, (ast.Tuple, ast.List)) and len(v.elts) == len(t.elts)
                                        and not any(isinstance(x, ast.Starred) for x in v.elts) else None))
        elif isinstance(n, ast.AnnAssign) and n.value is not None and chain(n.target) == attr_chain:
            out.append((n, n.value))
        elif isinstance(n, ast.AugAssign) and chain(n.target) == attr_chain:
            out.append((n, None))
        elif isinstance(n, ast.NamedExpr) and chain(n.target) == attr_chain:
            out.append((enclosing_stmt(n), n.value))
    return out


def _is_int(e: ast.AST | None, fi: FuncInfo | None = None):
    """int value of a literal (through a single-assignment local), else None"""
    if e is None:
        return None
    if fi is not None:
        e = resolve(fi, e)
    v = const_value(e)
    if not isinstance(v, (int, str, bytes, tuple, type(None))) and fi is not None and _G["repo"] is not None:
        v = _ev(_Frame(_G["repo"], fi), e)          # a class / module level constant
    return v if isinstance(v, int) and not isinstance(v, bool) else None


_G: dict = {"repo": None}          # the repository of the running check, for the helpers that keep their reviewed (fi, ...) signature


# ------------------------------------------------------------------------------------------------------------------
# Frames: a function analysed with (some of) its parameters bound to the argument expressions of one call site, so that
# a statement / bindings / guard that moved into a helper is read exactly as if it still stood in the caller.

class _Unknown:
    def __repr__(self) -> str:
        return "<unknown>"


_UNK = _Unknown()
_FALL = _Unknown()          # a statement block that ends without returning
_MAX_FRAMES = 4


class _Frame:
    __slots__ = ("repo", "fi", "module", "cls", "binds", "vals", "caller", "call", "ctx", "live", "cond", "alts")

    def __init__(self, repo, fi: FuncInfo | None = None, *, module=None, cls=None, binds=None, vals=None, caller=None, call=None, ctx=None) -> None:
        self.repo = repo
        self.ctx = ctx if ctx is not None else (caller.ctx if caller is not None else None)
        self.live = None                      # CFG nodes that the bindings of this frame do not rule out (computed on demand)
        self.cond: tuple = ()                 # (test, outcome, frame of the test): holds when this frame's function was the one picked by its call
        self.alts: dict = {}                  # (call, target) -> cond, for calls of this frame whose callee is picked by a condition
        self.fi = fi
        self.module = module if module is not None else (fi.module if fi is not None else None)
        self.cls = cls if cls is not None else (fi.cls if fi is not None else None)
        self.binds: dict[str, tuple[ast.AST, _Frame]] = binds if binds is not None else {}
        self.vals: dict[str, object] = vals if vals is not None else {}
        self.caller = caller
        self.call = call

    def with_vals(self, extra: dict) -> "_Frame":
        return _Frame(self.repo, self.fi, module=self.module, cls=self.cls, binds=self.binds, vals={**self.vals, **extra},
                      caller=self.caller, call=self.call, ctx=self.ctx)

    def depth(self) -> int:
        n, f = 0, self
        while f.caller is not None:
            n, f = n + 1, f.caller
        return n

    def outermost(self) -> "_Frame":
        f = self
        while f.caller is not None:
            f = f.caller
        return f

    def chain_calls(self) -> list[tuple["_Frame", ast.Call]]:
        """[(frame, call made in that frame)] from the outermost function down to this frame"""
        out, f = [], self
        while f.caller is not None:
            out.append((f.caller, f.call))
            f = f.caller
        return list(reversed(out))


def _top(ctx: Ctx, fi: FuncInfo) -> _Frame:
    return _Frame(ctx.repo, fi, ctx=ctx)


def _bind_call(frame: _Frame, call: ast.Call, target: FuncInfo) -> _Frame:
    """frame of `target` for this call: positional / keyword / *rest / default parameters bound to the caller's expressions"""
    a = target.node.args
    pos = [p.arg for p in a.posonlyargs + a.args]
    binds: dict[str, tuple[ast.AST, _Frame]] = {}
    decs = target.decorator_names()
    cls = target.cls
    if target.cls is not None and "staticmethod" not in decs and pos and isinstance(call.func, ast.Attribute):
        binds[pos[0]] = (call.func.value, frame)
        rb, _ = _deref(frame, call.func.value)
        if isinstance(rb, ast.Name) and rb.id in ("self", "cls") and frame.cls is not None:
            cls = frame.cls                        # the dynamic class of `self` stays the one the analysis started from
        pos = pos[1:]
    args = list(call.args)
    i = 0
    while i < len(args) and i < len(pos) and not isinstance(args[i], ast.Starred):
        binds[pos[i]] = (args[i], frame)
        i += 1
    rest = args[i:]
    if a.vararg is not None and (not rest or i >= len(pos)):
        binds[a.vararg.arg] = (ast.Tuple(elts=rest, ctx=ast.Load()), frame)
    names = set(pos) | {p.arg for p in a.kwonlyargs}
    for k in call.keywords:
        if k.arg is not None and k.arg in names:
            binds[k.arg] = (k.value, frame)
    dframe = _Frame(frame.repo, module=target.module, cls=target.cls)
    allpos = a.posonlyargs + a.args
    for p, d in zip(allpos[len(allpos) - len(a.defaults):], a.defaults):
        if p.arg not in binds and not any(isinstance(x, ast.Starred) for x in args) and not any(k.arg is None for k in call.keywords):
            binds[p.arg] = (d, dframe)
    for p, d in zip(a.kwonlyargs, a.kw_defaults):
        if d is not None and p.arg not in binds and not any(k.arg is None for k in call.keywords):
            binds[p.arg] = (d, dframe)
    sub = _Frame(frame.repo, target, cls=cls, binds=binds, caller=frame, call=call)
    sub.cond = frame.alts.get((id(call), target), ())
    return sub


def _def_of(frame: _Frame, name: ast.Name):
    """(value, tuple index) of the one assignment that gives the local its value at this use: the only assignment of the function, or
    - when branches of a merged function assign the same name - the only one that reaches the use (dead branches of the frame excluded)"""
    fi = frame.fi
    d = single_def(fi, name.id)
    if d is not None or frame.ctx is None or name.id in fi.params():
        return d
    defs = local_defs(fi, name.id)
    if len(defs) < 2:
        return None
    cfg = frame.ctx.cfg(fi)
    use = cfg.nodes_for(name)
    if not use:
        return None
    live = [x for x in defs if _live(frame, x[0])]
    reaching = []
    for st, v, idx in live:
        others = [n for st2, _, _ in live if st2 is not st for n in cfg.nodes_for(st2)]
        r = cfg.reach([x for n in cfg.nodes_for(st) for x, lab in n.succ if lab != "exc"], cut_nodes=others, follow_exc=False)
        if any(u in r for u in use):
            reaching.append((v, idx))
    if len(reaching) == 1 and reaching[0][0] is not None:
        return reaching[0]
    return None


def _deref(frame: _Frame, e: ast.AST, depth: int = 10) -> tuple[ast.AST, _Frame]:
    """follow single-assignment locals and bound parameters (into the caller) until something else than a name is reached"""
    e = strip_cast(e)
    while depth > 0 and isinstance(e, ast.Name) and frame.fi is not None and e.id not in frame.vals:
        depth -= 1
        fi = frame.fi
        if e.id in fi.params():
            if e.id in frame.binds and not local_defs(fi, e.id):
                e, frame = frame.binds[e.id]
                e = strip_cast(e)
                continue
            break
        d = _def_of(frame, e)
        if d is None:
            break
        if d[1] is not None:
            # `a, b = <tuple>`: element of a tuple literal / of the *rest arguments of the call this frame stands for / of the tuple a helper returns
            v, fr = _deref(frame, d[0], depth)
            if isinstance(v, ast.Call):
                r = _returned_expr(fr, v)
                if r is not None:
                    v, fr = _deref(r[1], r[0], depth)
            if isinstance(v, (ast.Tuple, ast.List)) and not any(isinstance(x, ast.Starred) for x in v.elts) and d[1] < len(v.elts) \
                    and not any(isinstance(t, ast.Starred) for t in _unpack_targets(fi, e.id)):
                e, frame = strip_cast(v.elts[d[1]]), fr
                continue
            break
        e = strip_cast(d[0])
    if depth > 0 and isinstance(e, ast.Call) and frame.fi is not None:
        r = _returned_expr(frame, e)              # `row = self._row_of(key, token)`: what the helper returns, in the helper's frame
        if r is not None:
            return _deref(r[1], r[0], depth - 1)
    return e, frame


def _returned_expr(frame: _Frame, call: ast.Call) -> tuple[ast.AST, _Frame] | None:
    """(expression, frame) a pure helper of the same object returns for this call: it has one return that the bindings do not rule out and
    nothing but plain local assignments (and logging) before it"""
    if frame.depth() >= _MAX_FRAMES or call_name(call) in _EXEC or call_name(call) == "commit":
        return None
    h = _self_target(frame, call)
    if h is None or h.is_async or any(isinstance(x, (ast.Yield, ast.YieldFrom)) for x in walk_no_nested(h.node)):
        return None
    sub = _bind_call(frame, call, h)
    rets = [r for r in walk_no_nested(h.node) if isinstance(r, ast.Return) and r.value is not None and _live(sub, r)]
    if len(rets) != 1:
        return None
    for st in walk_no_nested(h.node):
        if isinstance(st, ast.stmt) and st is not h.node and not isinstance(st, (ast.Return, ast.Assign, ast.AnnAssign, ast.If, ast.Pass)) \
                and not (isinstance(st, ast.Expr) and (isinstance(st.value, ast.Constant) or "logger" in (chain(getattr(st.value, "func", st.value)) or ""))):
            return None
    return rets[0].value, sub


def _unpack_targets(fi: FuncInfo, name: str) -> list:
    for st, _, idx in local_defs(fi, name):
        if idx is not None and isinstance(st, ast.Assign):
            for t in st.targets:
                if isinstance(t, (ast.Tuple, ast.List)):
                    return list(t.elts)
    return []


def _is_self(frame: _Frame, e: ast.AST | None) -> bool:
    """e denotes the object the outermost method was called on"""
    if e is None:
        return False
    b, fr = _deref(frame, e)
    return isinstance(b, ast.Name) and b.id == "self" and fr.fi is not None and fr.fi.cls is not None and "self" not in fr.binds


def _self_target(frame: _Frame, call: ast.Call) -> FuncInfo | None:
    """the method a call `self.m(...)` (or `m(self, ...)` of a module function that is handed self) runs"""
    f = call.func
    if isinstance(f, ast.Name) and frame.fi is not None and (local_defs(frame.fi, f.id) or f.id in frame.binds):
        f2, fr2 = _deref(frame, f)                 # `step = self._commit_now` ... `step()`
        if isinstance(f2, ast.Attribute) and _is_self(fr2, f2.value):
            c = frame.cls or (frame.fi.cls if frame.fi is not None else None)
            return c.lookup(f2.attr) if c is not None else None
    if isinstance(f, ast.Attribute) and _is_self(frame, f.value):
        c = frame.cls or (frame.fi.cls if frame.fi is not None else None)
        return c.lookup(f.attr) if c is not None else None
    if isinstance(f, ast.Name) and frame.module is not None and any(_is_self(frame, x) or _is_part_of_self(frame, x) for x in call.args if not isinstance(x, ast.Starred)):
        r = frame.repo.resolve_name(frame.module, f.id)
        return r if isinstance(r, FuncInfo) else None
    return None


def _is_part_of_self(frame: _Frame, e: ast.AST) -> bool:
    """e is an attribute of the object (its connection, its cursor): a module function handed it works on the object"""
    b, fr = _deref(frame, e)
    return isinstance(b, ast.Attribute) and _is_self(fr, b.value)


def _picked_targets(frame: _Frame, call: ast.Call) -> list[tuple[FuncInfo, tuple]]:
    """`(self.a if test else self.b)(...)` (also through a local): both methods, each with the outcome of the test under which it runs"""
    f, fr = _deref(frame, call.func)
    if not isinstance(f, ast.IfExp) or frame.fi is None:
        return []
    c = frame.cls or frame.fi.cls
    out = []
    for branch, pol in ((f.body, True), (f.orelse, False)):
        b, bfr = _deref(fr, branch)
        if not (isinstance(b, ast.Attribute) and _is_self(bfr, b.value)) or c is None or c.lookup(b.attr) is None:
            return []
        out.append((c.lookup(b.attr), ((f.test, pol, fr),)))
    return out


def _instance_overrides(c: ClassInfo, attr: str) -> bool:
    return any(stores(m, "self." + attr) for k in c.mro() for m in k.methods.values())


def _record_ctor(frame: _Frame, e: ast.AST):
    """(field names, [(value expression, frame)] per field or None) when e is a NamedTuple class of the repository (no values) or evaluates
    to an instance built by calling one - through locals and helper parameters; else None"""
    if frame.module is None:
        return None
    b, fr = _deref(frame, e) if frame.fi is not None else (strip_cast(e), frame)
    k = frame.repo.resolve_class_expr(fr.module, b) if isinstance(b, (ast.Name, ast.Attribute)) and fr.module is not None else None
    if k is not None:
        rec = _record_fields(k)
        return (rec[0], None) if rec is not None and rec[1] else None
    if not isinstance(b, ast.Call) or fr.module is None:
        return None
    k = frame.repo.resolve_class_expr(fr.module, b.func) if isinstance(b.func, (ast.Name, ast.Attribute)) else None
    rec = _record_fields(k) if k is not None else None
    if rec is None or not rec[1] or any(kw.arg is None for kw in b.keywords):
        return None
    names = rec[0]
    got: dict[str, tuple] = {}
    i = 0
    for a in b.args:
        if isinstance(a, ast.Starred):
            v, vfr = _deref(fr, a.value)
            if not isinstance(v, (ast.Tuple, ast.List)) or any(isinstance(x, ast.Starred) for x in v.elts):
                # `*obj.to_database_tuple()`: the remaining fields, in order, are the elements of that value
                rest = [n for n in names[i:] if n not in {kw.arg for kw in b.keywords}]
                if a is not b.args[-1]:
                    return None
                for j, n in enumerate(rest):
                    got[n] = (ast.Subscript(value=a.value, slice=ast.Constant(value=j), ctx=ast.Load()), fr)
                i = len(names)
                break
            for x in v.elts:
                if i >= len(names):
                    return None
                got[names[i]] = (x, vfr)
                i += 1
            continue
        if i >= len(names):
            return None
        got[names[i]] = (a, fr)
        i += 1
    for kw in b.keywords:
        if kw.arg not in names or kw.arg in got:
            return None
        got[kw.arg] = (kw.value, fr)
    if set(got) != set(names):
        return None
    return names, [got[n] for n in names]


def _evi(frame: _Frame, e: ast.AST | None, depth: int = 0):  # noqa: C901, PLR0911, PLR0912
    """Value of a constant-foldable expression (str / int / bool / None / tuple / dict of such), else _UNK.  Names are followed through
    single-assignment locals, bound parameters, module constants and class-level tables; tiny pure helpers are evaluated."""
    if e is None or depth > 14:
        return _UNK
    e = strip_cast(e)
    repo = frame.repo
    if isinstance(e, ast.Constant):
        return e.value if isinstance(e.value, (str, int, bytes, type(None))) else _UNK
    if isinstance(e, ast.Name):
        if e.id in frame.vals:
            return frame.vals[e.id]
        if frame.fi is not None:
            fi = frame.fi
            if e.id in fi.params():
                if e.id in frame.binds and not local_defs(fi, e.id):
                    x, fr = frame.binds[e.id]
                    return _evi(fr, x, depth + 1)
                return _UNK
            if local_defs(fi, e.id):
                d = _def_of(frame, e)
                if d is None:
                    return _UNK
                v = _evi(frame, d[0], depth + 1)
                if d[1] is None:
                    return v
                return v[d[1]] if isinstance(v, tuple) and 0 <= d[1] < len(v) else _UNK
        r = repo.resolve_name(frame.module, e.id) if frame.module is not None else None
        if isinstance(r, tuple) and r[0] == "const":
            return _evi(_Frame(repo, module=r[1]), r[2], depth + 1)
        if isinstance(r, ClassInfo):
            return ("<class>", r.name)             # a class used as the key of a dispatch table
        return _UNK
    if isinstance(e, ast.Attribute) and e.attr == "_fields":
        rec = _record_ctor(frame, e.value)
        return tuple(rec[0]) if rec is not None else _UNK
    if isinstance(e, ast.Attribute):
        c = None
        b = e.value
        if isinstance(b, ast.Attribute) and b.attr == "__class__":
            b = b.value
        elif isinstance(b, ast.Call) and chain(b.func) == "type" and len(b.args) == 1:
            b = b.args[0]
        if frame.fi is not None:
            rb, fr = _deref(frame, b)
            if isinstance(rb, ast.Name) and rb.id in ("self", "cls") and fr.fi is not None and fr.fi.cls is not None and rb.id not in fr.binds:
                c = frame.cls or fr.cls
        if c is None and frame.module is not None:
            c = repo.resolve_class_expr(frame.module, b)
        if c is not None:
            a = c.lookup_attr(e.attr)
            if a is not None and not _instance_overrides(c, e.attr):
                owner = next(k for k in c.mro() if e.attr in k.attrs)
                return _evi(_Frame(repo, module=owner.module, cls=owner), a, depth + 1)
        # an attribute / read-only property of a small record object built by a constructor call the analysis can read (a table
        # description kept in a module level constant, handed down as a parameter, ...)
        base = _evi(frame, e.value, depth + 1)
        return _obj_attr(base, e.attr, depth + 1) if isinstance(base, _ObjVal) else _UNK
    if isinstance(e, ast.JoinedStr):
        out = ""
        for p in e.values:
            if isinstance(p, ast.Constant):
                out += str(p.value)
                continue
            if p.format_spec is not None or p.conversion not in (-1, 115):
                return _UNK
            v = _evi(frame, p.value, depth + 1)
            if not isinstance(v, (str, int)) or isinstance(v, bool):
                return _UNK
            out += str(v)
        return out
    if isinstance(e, (ast.Tuple, ast.List)):
        out = []
        for x in e.elts:
            if isinstance(x, ast.Starred):
                v = _evi(frame, x.value, depth + 1)
                if not isinstance(v, tuple):
                    return _UNK
                out += list(v)
            else:
                v = _evi(frame, x, depth + 1)
                if v is _UNK:
                    return _UNK
                out.append(v)
        return tuple(out)
    if isinstance(e, ast.Dict):
        out = {}
        for k, v in zip(e.keys, e.values):
            kv = _evi(frame, k, depth + 1) if k is not None else _UNK
            if kv is _UNK or isinstance(kv, (dict, _ObjVal)) or not _hashable_key(kv):
                return _UNK
            out[kv] = _evi(frame, v, depth + 1)          # an unreadable member only matters when it is the one looked up
        return out
    if isinstance(e, ast.Subscript):
        base = _evi(frame, e.value, depth + 1)
        if isinstance(e.slice, ast.Slice) or base is _UNK:
            return _UNK
        k = _evi(frame, e.slice, depth + 1)
        try:
            return base[k] if isinstance(base, (dict, tuple, str)) and k is not _UNK else _UNK
        except (KeyError, IndexError, TypeError):
            return _UNK
    if isinstance(e, ast.BinOp):
        l, r = _evi(frame, e.left, depth + 1), _evi(frame, e.right, depth + 1)
        if l is _UNK or r is _UNK:
            return _UNK
        try:
            if isinstance(e.op, ast.Add) and type(l) is type(r) and isinstance(l, (str, tuple, int)):
                return l + r
            if isinstance(e.op, ast.Mult) and ((isinstance(l, (str, tuple)) and type(r) is int) or (type(l) is int and isinstance(r, (str, tuple, int)))):
                return l * r if abs(l if type(l) is int else r) < 200 else _UNK
            if isinstance(e.op, ast.Sub) and type(l) is int and type(r) is int:
                return l - r
            if isinstance(e.op, ast.Mod) and isinstance(l, str) and (isinstance(r, (str, int)) or (isinstance(r, tuple) and all(isinstance(x, (str, int)) for x in r))):
                return l % r
        except (TypeError, ValueError):
            return _UNK
        return _UNK
    if isinstance(e, ast.UnaryOp) and isinstance(e.op, ast.Not):
        v = _evi(frame, e.operand, depth + 1)
        return _UNK if v is _UNK else (not v)
    if isinstance(e, ast.BoolOp):
        v = _UNK
        for x in e.values:
            v = _evi(frame, x, depth + 1)
            if v is _UNK:
                return _UNK
            if bool(v) != isinstance(e.op, ast.And):
                return v
        return v
    if isinstance(e, ast.Compare) and len(e.ops) == 1:
        l, r = _evi(frame, e.left, depth + 1), _evi(frame, e.comparators[0], depth + 1)
        if l is _UNK or r is _UNK:
            return _UNK
        op = e.ops[0]
        try:
            if isinstance(op, (ast.Eq, ast.Is)):
                return l == r
            if isinstance(op, (ast.NotEq, ast.IsNot)):
                return l != r
            if isinstance(op, ast.In):
                return l in r
            if isinstance(op, ast.NotIn):
                return l not in r
        except TypeError:
            return _UNK
        return _UNK
    if isinstance(e, ast.IfExp):
        t = _evi(frame, e.test, depth + 1)
        return _UNK if t is _UNK else _evi(frame, e.body if t else e.orelse, depth + 1)
    if isinstance(e, (ast.GeneratorExp, ast.ListComp)) and len(e.generators) == 1 and not e.generators[0].is_async:
        g = e.generators[0]
        it = _evi(frame, g.iter, depth + 1)
        if it is _UNK and isinstance(g.target, ast.Name) and not any(isinstance(x, ast.Name) and x.id == g.target.id for y in [e.elt, *g.ifs] for x in ast.walk(y)):
            rec = _record_ctor(frame, g.iter)          # "?" for _ in row: only the number of fields matters
            if rec is not None and rec[1] is not None:
                it = (None,) * len(rec[0])
        if isinstance(it, dict):
            it = tuple(it)
        if not isinstance(it, (tuple, str)) or not isinstance(g.target, ast.Name):
            return _UNK
        out = []
        for item in it:
            sub = frame.with_vals({g.target.id: item})
            keep = [_evi(sub, c, depth + 1) for c in g.ifs]
            if any(k is _UNK for k in keep):
                return _UNK
            if all(keep):
                v = _evi(sub, e.elt, depth + 1)
                if v is _UNK:
                    return _UNK
                out.append(v)
        return tuple(out)
    if isinstance(e, ast.Call):
        return _ev_call(frame, e, depth)
    return _UNK


def _ev_call(frame: _Frame, e: ast.Call, depth: int):  # noqa: C901, PLR0911
    f = e.func
    plain = not e.keywords and not any(isinstance(a, ast.Starred) for a in e.args)
    if isinstance(f, ast.Name) and f.id in ("len", "tuple", "list", "str", "sorted", "reversed", "range") and plain and len(e.args) == 1:
        v = _evi(frame, e.args[0], depth + 1)
        if v is _UNK and f.id == "len":
            rec = _record_ctor(frame, e.args[0])
            return len(rec[0]) if rec is not None and rec[1] is not None else _UNK
        if v is _UNK:
            return _UNK
        if f.id == "len":
            return len(v) if isinstance(v, (tuple, str, dict)) else _UNK
        if f.id == "str":
            return str(v) if isinstance(v, (str, int)) and not isinstance(v, bool) else _UNK
        if f.id == "range":
            return tuple(range(v)) if type(v) is int and 0 <= v < 200 else _UNK
        if f.id == "reversed":
            return tuple(reversed(v)) if isinstance(v, (tuple, str)) else _UNK
        if f.id == "sorted":
            try:
                return tuple(sorted(v)) if isinstance(v, (tuple, dict)) else _UNK
            except TypeError:
                return _UNK
        return tuple(v) if isinstance(v, (tuple, str, dict)) else _UNK
    if isinstance(f, ast.Attribute) and f.attr == "join" and plain and len(e.args) == 1:
        sep, items = _evi(frame, f.value, depth + 1), _evi(frame, e.args[0], depth + 1)
        if isinstance(items, dict):
            items = tuple(items)
        if isinstance(sep, str) and isinstance(items, (tuple, str)) and all(isinstance(x, str) for x in items):
            return sep.join(items)
        return _UNK
    if isinstance(f, ast.Attribute) and f.attr == "format":
        base = _evi(frame, f.value, depth + 1)
        args = [_evi(frame, a, depth + 1) for a in e.args]
        kws = {k.arg: _evi(frame, k.value, depth + 1) for k in e.keywords}
        if isinstance(base, str) and None not in kws and not any(isinstance(a, ast.Starred) for a in e.args) \
                and all(isinstance(v, (str, int)) and not isinstance(v, bool) for v in [*args, *kws.values()]):
            try:
                return base.format(*args, **kws)
            except (IndexError, KeyError, ValueError):
                return _UNK
        return _UNK
    if isinstance(f, ast.Attribute) and f.attr in ("get", "keys", "values", "items") and plain:
        base = _evi(frame, f.value, depth + 1)
        if isinstance(base, dict):
            if f.attr == "get" and len(e.args) in (1, 2):
                k = _evi(frame, e.args[0], depth + 1)
                if k is _UNK or isinstance(k, (dict, _ObjVal)) or not _hashable_key(k):
                    return _UNK
                return base[k] if k in base else (_evi(frame, e.args[1], depth + 1) if len(e.args) == 2 else None)
            if f.attr == "keys" and not e.args:
                return tuple(base)
            if f.attr == "values" and not e.args:
                return tuple(base.values()) if all(v is not _UNK for v in base.values()) else _UNK
        return _UNK
    if isinstance(f, ast.Attribute) and f.attr in ("upper", "lower", "strip") and not e.args and not e.keywords:
        base = _evi(frame, f.value, depth + 1)
        return getattr(base, f.attr)() if isinstance(base, str) else _UNK
    if frame.depth() >= _MAX_FRAMES:
        return _UNK
    # the constructor call of a small record class of the repository: the object, described by its class and its arguments
    if isinstance(f, (ast.Name, ast.Attribute)) and frame.module is not None \
            and not (isinstance(f, ast.Name) and frame.fi is not None and f.id in _scope_names(frame.fi)):
        k = frame.repo.resolve_class_expr(frame.module, f)
        if k is not None:
            return _ObjVal(k, e, frame) if _readable_record_class(k) else _UNK
    # a plain method of such an object
    if isinstance(f, ast.Attribute):
        base = _evi(frame, f.value, depth + 1)
        if isinstance(base, _ObjVal):
            return _obj_method(base, frame, e, depth + 1)
    # a tiny pure helper: evaluate its body with the parameters bound to this call's arguments
    if frame.fi is None:
        return _UNK
    target = _self_target(frame, e)
    if target is None:
        ts = frame.repo.resolve_call(frame.fi, e)
        target = ts[0] if len(ts) == 1 else None
    if target is None or target.is_async or any(isinstance(x, (ast.Yield, ast.YieldFrom)) for x in walk_no_nested(target.node)):
        return _UNK
    sub = _bind_call(frame, e, target)
    sub.vals = {}
    r = _ev_block(sub, target.node.body, depth + 1)
    return _UNK if r is _FALL else r


def _ev(frame: _Frame, e: ast.AST | None, depth: int = 0):
    """Value of a constant-foldable expression (str / int / bool / None / tuple / dict of such), else _UNK (see _evi; the record objects
    that _evi carries between an object expression and the attribute read from it never leave the evaluator)"""
    return _no_objs(_evi(frame, e, depth))


def _no_objs(v):
    if isinstance(v, _ObjVal):
        return _UNK
    if isinstance(v, tuple):
        return _UNK if any(_no_objs(x) is _UNK and x is not _UNK for x in v) else v
    if isinstance(v, dict):
        return {k: _no_objs(x) for k, x in v.items()}
    return v


def _hashable_key(v) -> bool:
    return not isinstance(v, (_ObjVal, dict)) and (not isinstance(v, tuple) or all(_hashable_key(x) for x in v))


class _ObjVal:
    """an instance of a repository class: the class and the constructor call that built it (arguments read in `frame`)"""
    __slots__ = ("cls", "call", "frame")
    __hash__ = None          # type: ignore[assignment]

    def __init__(self, cls: ClassInfo, call: ast.Call, frame: _Frame) -> None:
        self.cls, self.call, self.frame = cls, call, frame

    def __eq__(self, other) -> bool:
        raise TypeError("identity of a record object is not modelled")


_DYNAMIC_ATTR_HOOKS = ("__getattr__", "__getattribute__", "__setattr__", "__delattr__", "__new__", "__init_subclass__", "__bool__", "__len__",
                       "__class_getitem__", "__set_name__", "__get__")


def _readable_record_class(k: ClassInfo) -> bool:
    """a class whose instances are fully described by their constructor call: a NamedTuple / dataclass without hand-written constructor,
    or a plain class whose whole hierarchy is in the repository, without metaclass, attribute hooks or a truth value of its own"""
    if k.node.keywords:
        return False
    if _record_fields(k) is not None:
        return not any(h in k.methods for h in _DYNAMIC_ATTR_HOOKS)
    if k.node.decorator_list:
        return False
    for c in k.mro():
        if c.node.keywords or (c is not k and c.node.decorator_list) or any(h in c.methods for h in _DYNAMIC_ATTR_HOOKS):
            return False
        if {b for b in c.base_names if b != "object"} - {b.name for b in c.bases}:
            return False
    return k.lookup("__init__") is not None


def _attr_stores(k: ClassInfo, attr: str) -> list[tuple[FuncInfo, ast.Attribute]]:
    """stores into <anything>.attr inside the methods of the class hierarchy"""
    return [(m, n) for c in k.mro() for m in c.methods.values() for n in ast.walk(m.node)
            if isinstance(n, ast.Attribute) and n.attr == attr and isinstance(n.ctx, (ast.Store, ast.Del))]


def _written_from_outside(repo, k: ClassInfo, attr: str) -> bool:
    """some code outside the class hierarchy may store into this attribute of an instance: any store `<x>.attr = ...` that is not a store
    into `self.attr` inside a method of an unrelated class, or a setattr / __dict__ access that names the attribute"""
    family = set(k.mro()) | set(k.all_subclasses())
    for m, g, n in repo.attribute_uses(attr):
        if not isinstance(n.ctx, (ast.Store, ast.Del)):
            continue
        if g is not None and g.cls is not None and g.cls in family:
            continue                                   # counted by _attr_stores
        own = g is not None and g.cls is not None and isinstance(n.value, ast.Name) and g.params()[:1] == [n.value.id] \
            and "staticmethod" not in g.decorator_names() and "classmethod" not in g.decorator_names() and not local_defs(g, n.value.id)
        if not own and not _param_of_other_class(repo, m, g, n.value, family):
            return True
    for m in repo.modules.values():
        for n in ast.walk(m.tree):
            if isinstance(n, ast.Call) and chain(n.func) in ("setattr", "object.__setattr__", "delattr") and len(n.args) >= 2 \
                    and const_value(n.args[1]) == attr:
                return True
    return False


_ABSTRACT_TYPE_MODULES = ("typing", "typing_extensions", "collections.abc", "abc", "builtins")


def _param_of_other_class(repo, m, g: FuncInfo | None, base: ast.AST, family: set) -> bool:
    """`base` is a parameter of g that is never rebound and whose annotation names one concrete class that no member of `family` is or
    derives from: a class of the repository outside the family, or a class imported from a module outside the repository (the family
    has no bases outside the repository)"""
    if g is None or not isinstance(base, ast.Name) or base.id not in g.params() or local_defs(g, base.id):
        return False
    a = g.node.args
    ann = next((p_.annotation for p_ in [*a.posonlyargs, *a.args, *a.kwonlyargs] if p_.arg == base.id), None)
    if isinstance(ann, ast.Constant) and isinstance(ann.value, str):
        try:
            ann = ast.parse(ann.value, mode="eval").body
        except SyntaxError:
            return False
    if not isinstance(ann, ast.Name):
        return False
    r = repo.resolve_name(m, ann.id)
    if isinstance(r, ClassInfo):
        return r not in family and not (set(r.mro()) & family) and not (set(r.all_subclasses()) & family)
    if r is None and ann.id in m.imports:
        mod, attr = m.imports[ann.id]
        return attr is not None and mod not in repo.modules and not mod.startswith("ipv8") and not mod.startswith(".") \
            and mod not in _ABSTRACT_TYPE_MODULES and attr[:1].isupper()
    return False


def _obj_attr(obj: _ObjVal, attr: str, depth: int):  # noqa: PLR0911
    """value of <obj>.attr: a read-only property (its getter evaluated on the object), a field of a record, an attribute that __init__
    stores exactly once and unconditionally (and that nothing else writes), a class level constant"""
    k, repo = obj.cls, obj.frame.repo
    if depth > 14 or obj.frame.depth() >= _MAX_FRAMES:
        return _UNK
    m = k.lookup(attr)
    if m is not None:
        decs = [d.split(".")[-1] for d in m.decorator_names()]
        if decs not in (["property"], ["cached_property"]) or m.is_async or any(isinstance(x, (ast.Yield, ast.YieldFrom)) for x in walk_no_nested(m.node)):
            return _UNK
        if k.lookup_attr(attr) is not None or _attr_stores(k, attr) or _written_from_outside(repo, k, attr):
            return _UNK                                # shadowed by a class level assignment / replaced on the instance or the class
        params = m.params()
        if len(params) != 1:
            return _UNK
        sub = _Frame(repo, m, cls=k, binds={params[0]: (obj.call, obj.frame)}, vals={params[0]: obj}, caller=obj.frame, call=obj.call)
        r = _ev_block(sub, m.node.body, depth + 1)
        return _UNK if r is _FALL else r
    rec = _record_fields(k)
    if rec is not None:
        got = _record_ctor(obj.frame, obj.call)
        if got is None or got[1] is None or attr not in got[0]:
            return _UNK
        if not rec[1] and (_attr_stores(k, attr) or _written_from_outside(repo, k, attr)):
            return _UNK                                # a dataclass field may be reassigned
        x, fr = got[1][got[0].index(attr)]
        return _evi(fr, x, depth + 1)
    sts = _attr_stores(k, attr)
    if _written_from_outside(repo, k, attr):
        return _UNK
    if not sts:
        a = k.lookup_attr(attr)
        if a is None:
            return _UNK
        owner = next(c for c in k.mro() if attr in c.attrs)
        return _evi(_Frame(repo, module=owner.module, cls=owner), a, depth + 1)
    init = k.lookup("__init__")
    if init is None or len(sts) != 1 or sts[0][0] is not init or init.is_async or init.node.decorator_list:
        return _UNK
    n = sts[0][1]
    st = parent(n)
    params = init.params()
    if not params or not (isinstance(n.value, ast.Name) and n.value.id == params[0]) or local_defs(init, params[0]) or st not in init.node.body:
        return _UNK
    if isinstance(st, ast.Assign) and len(st.targets) == 1 and st.targets[0] is n:
        value = st.value
    elif isinstance(st, ast.AnnAssign) and st.target is n and st.value is not None:
        value = st.value
    else:
        return _UNK
    if any(isinstance(x, ast.Return) for x in walk_no_nested(init.node)):
        return _UNK
    synth = ast.Call(func=ast.Attribute(value=obj.call, attr="__init__", ctx=ast.Load()), args=obj.call.args, keywords=obj.call.keywords)
    sub = _bind_call(obj.frame, synth, init)
    sub.cls = k
    sub.vals = {params[0]: obj}
    return _evi(sub, value, depth + 1)


def _obj_method(obj: _ObjVal, frame: _Frame, call: ast.Call, depth: int):
    """value a plain (undecorated, synchronous) method of a record object returns for this call"""
    m = obj.cls.lookup(call_name(call) or "")
    if m is None or m.node.decorator_list or m.is_async or any(isinstance(x, (ast.Yield, ast.YieldFrom)) for x in walk_no_nested(m.node)) \
            or not m.params() or frame.depth() >= _MAX_FRAMES or depth > 14:
        return _UNK
    if obj.cls.lookup_attr(m.name) is not None or _attr_stores(obj.cls, m.name) or _written_from_outside(frame.repo, obj.cls, m.name):
        return _UNK
    sub = _bind_call(frame, call, m)
    sub.cls = obj.cls
    sub.vals = {m.params()[0]: obj}
    r = _ev_block(sub, m.node.body, depth + 1)
    return _UNK if r is _FALL else r


def _ev_block(frame: _Frame, stmts: list, depth: int):
    """run a straight-line / if-else body on known values: the returned value, _FALL (no return reached) or _UNK"""
    for st in stmts:
        if isinstance(st, ast.Return):
            return _evi(frame, st.value, depth) if st.value is not None else None
        if isinstance(st, ast.If):
            t = _evi(frame, st.test, depth)
            if t is _UNK:
                return _UNK
            r = _ev_block(frame, st.body if t else st.orelse, depth)
            if r is not _FALL:
                return r
        elif isinstance(st, (ast.Assign, ast.AnnAssign)):
            targets = st.targets if isinstance(st, ast.Assign) else [st.target]
            if st.value is None:
                continue
            if len(targets) != 1 or not isinstance(targets[0], ast.Name):
                return _UNK
            frame.vals[targets[0].id] = _evi(frame, st.value, depth)
        elif isinstance(st, ast.Pass) or (isinstance(st, ast.Expr) and isinstance(st.value, ast.Constant)):
            continue
        elif isinstance(st, ast.Expr) and isinstance(st.value, ast.Call) and "logger" in (chain(st.value.func) or ""):
            continue
        else:
            return _UNK
    return _FALL


def _text(frame: _Frame, e: ast.AST | None, depth: int = 0) -> str | None:
    """Text of a statement expression with `{}` for the parts only known at run time (f-string holes, % / format arguments)."""
    if e is None or depth > 8:
        return None
    v = _ev(frame, e)
    if isinstance(v, str):
        return v
    e, fr = _deref(frame, e)
    if isinstance(e, ast.JoinedStr):
        out = ""
        for p in e.values:
            if isinstance(p, ast.Constant):
                out += str(p.value)
            else:
                v = _ev(fr, p.value)
                out += str(v) if isinstance(v, (str, int)) and not isinstance(v, bool) and p.format_spec is None else "{}"
        return out
    if isinstance(e, ast.BinOp) and isinstance(e.op, ast.Add):
        l, r = _text(fr, e.left, depth + 1), _text(fr, e.right, depth + 1)
        return None if l is None or r is None else l + r
    if isinstance(e, ast.BinOp) and isinstance(e.op, ast.Mod):
        return _text(fr, e.left, depth + 1)
    if isinstance(e, ast.Call) and isinstance(e.func, ast.Attribute) and e.func.attr == "format":
        return _text(fr, e.func.value, depth + 1)
    return None


# ------------------------------------------------------------------------------------------------------------------
# SQL call sites of a function, followed into the helpers of the same object (any depth up to _MAX_FRAMES)

_EXEC = ("execute", "executemany", "executescript")
_WRITE_SQL = re.compile(r"\s*(INSERT|REPLACE|UPDATE|DELETE)", re.I)


def _method_ref(frame: _Frame, e: ast.AST, names: tuple) -> str | None:
    """e evaluates to the bound method self.<one of names> (through locals and helper parameters)"""
    b, fr = _deref(frame, e)
    return b.attr if isinstance(b, ast.Attribute) and b.attr in names and _is_self(fr, b.value) else None


def _runs_own_method(frame: _Frame, c: ast.Call, names: tuple):
    """(method name, [(argument, frame)] and [(keyword, value, frame)] supplied before the call's own, does the call add its own arguments)
    when the call runs self.<one of names>(...) in any spelling: directly, through a bound-method alias, Class.method(self, ...),
    functools.partial(self.method, ...)(...), operator.methodcaller("method", ...)(self); else None"""
    f = c.func
    if isinstance(f, ast.Attribute) and f.attr in names:
        if _is_self(frame, f.value):
            return f.attr, [], [], True
        if frame.fi is not None and frame.cls is not None and c.args and not isinstance(c.args[0], ast.Starred) and _is_self(frame, c.args[0]) \
                and isinstance(f.value, ast.Name) and not local_defs(frame.fi, f.value.id) and f.value.id not in frame.fi.params():
            k = frame.repo.resolve_class_expr(frame.module, f.value)
            if k is not None and k in frame.cls.mro():
                return f.attr, [], [], "skip-first"
        return None
    if frame.fi is None:
        return None
    g, fr = f, frame
    if isinstance(f, ast.Name) and (local_defs(frame.fi, f.id) or f.id in frame.binds):
        g, fr = _deref(frame, f)
    if isinstance(g, ast.Attribute):
        return (g.attr, [], [], True) if g.attr in names and _is_self(fr, g.value) else None
    if isinstance(g, ast.Call) and g.args and not any(isinstance(a, ast.Starred) for a in g.args) and all(k.arg is not None for k in g.keywords):
        q = (chain(g.func) or "").split(".")[-1]
        pre = [(a, fr) for a in g.args[1:]]
        prekw = [(k.arg, k.value, fr) for k in g.keywords]
        if q == "partial":
            m = _method_ref(fr, g.args[0], names)
            return (m, pre, prekw, True) if m is not None else None
        if q == "methodcaller" and const_value(g.args[0]) in names and len(c.args) == 1 and not c.keywords and not isinstance(c.args[0], ast.Starred) \
                and _is_self(frame, c.args[0]):
            return const_value(g.args[0]), pre, prekw, False
    return None


def _exec_call(frame: _Frame, c: ast.Call):
    return _runs_own_method(frame, c, _EXEC)


def _is_own_commit(frame: _Frame, c: ast.Call) -> bool:
    """the call runs self.commit() (any spelling)"""
    return _runs_own_method(frame, c, ("commit",)) is not None


def _is_plain_commit(frame: _Frame, c: ast.Call) -> bool:
    """... and hands it no arguments"""
    how = _runs_own_method(frame, c, ("commit",))
    if how is None or how[1] or how[2]:
        return False
    return not c.keywords and len(c.args) == (0 if how[3] is True else 1)


def _unread_method_use(frame: _Frame, names: tuple) -> ast.AST | None:
    """a place where self.<one of names> is taken as a value (stored in a table, handed to another function) instead of being called in a
    way _runs_own_method reads: whether and with what it runs there cannot be told"""
    if frame.fi is None:
        return None
    read = set()
    for c in calls(frame.fi):
        if _runs_own_method(frame, c, names) is not None:
            read.update(id(x) for x in ast.walk(c))
            f = c.func
            if isinstance(f, ast.Name):
                for st, v, _ in local_defs(frame.fi, f.id):
                    if v is not None:
                        read.update(id(x) for x in ast.walk(v))
    for n in walk_no_nested(frame.fi.node):
        if id(n) in read:
            continue
        if isinstance(n, ast.Attribute) and n.attr in names and isinstance(n.ctx, ast.Load) and _is_self(frame, n.value):
            return n
        if isinstance(n, ast.Call) and (chain(n.func) or "").split(".")[-1] in ("methodcaller", "getattr") and any(const_value(a) in names for a in n.args):
            return n
    return None


class _Site:
    """one `self.execute*(...)` call reached from the analysed function, with the frame (parameter bindings) it runs in"""

    def __init__(self, frame: _Frame, call: ast.Call, how=None) -> None:
        self.frame, self.call = frame, call
        self.method, pre, prekw, own = how if how is not None else (call_name(call), [], [], True)
        # positional arguments with `*<tuple literal / tuple a helper returns>` spread out: (expression, frame it is read in)
        self.pos: list[tuple[ast.AST, _Frame]] | None = list(pre)
        self.kw = list(prekw) + ([(k.arg, k.value, frame) for k in call.keywords] if own else [])
        for a in (call.args[1:] if own == "skip-first" else call.args if own else []):
            if isinstance(a, ast.Starred):
                v, fr = _deref(frame, a.value)
                if isinstance(v, (ast.Tuple, ast.List)) and not any(isinstance(x, ast.Starred) for x in v.elts):
                    self.pos += [(x, fr) for x in v.elts]
                    continue
                if len(self.pos) < 2:
                    self.pos = None
                break
            self.pos.append((a, frame))
        st = self._stmt_arg()
        self.text = _text(st[1], st[0]) if st is not None else None

    def _nth(self, index: int, *names: str) -> tuple[ast.AST, _Frame] | None:
        if self.pos is not None and index < len(self.pos):
            return self.pos[index]
        for name, value, fr in self.kw:
            if name in names:
                return value, fr
        return None

    def _stmt_arg(self) -> tuple[ast.AST, _Frame] | None:
        return self._nth(0, "statement", "statements")

    def bindings_arg(self) -> tuple[ast.AST, _Frame] | None:
        return self._nth(1, "bindings", "sequenceofbindings")

    @property
    def sql(self) -> str:
        if self.text is not None:
            return self.text
        a = self._stmt_arg()
        return norm(a[0]) if a is not None else ""

    def levels(self) -> list[tuple[_Frame, ast.Call]]:
        """[(frame, call in that frame)] from the outermost function down to the execute call itself"""
        return [*self.frame.chain_calls(), (self.frame, self.call)]


def _runs_at_least_once(frame: _Frame, loop: ast.AST) -> bool:
    """a for loop over a literal (or *rest arguments) with at least one plain element"""
    if not isinstance(loop, (ast.For, ast.AsyncFor)):
        return False
    it, _ = _deref(frame, loop.iter)
    return isinstance(it, (ast.Tuple, ast.List)) and any(not isinstance(x, ast.Starred) for x in it.elts)


def _feasible(ctx: Ctx, frame: _Frame, starts=None, *, cut_nodes=(), follow_exc: bool = False) -> set:
    """Reachability in the frame's function that leaves out what the frame's bindings rule out: a branch whose test is decided by the
    bound constants (the flag / tag parameter of a merged helper) and the zero-iteration exit of a loop over a non-empty literal."""
    cfg = ctx.cfg(frame.fi)
    full = [n for n in cfg.nodes if n.kind == "loop" and _runs_at_least_once(frame, n.ast)]
    decided: dict[int, object] = {}

    def cut(u, v, lab) -> bool:
        if u in full and lab is False and u not in released:
            return True
        if u.kind == "cond" and lab in (True, False) and u.ast is not None and frame.binds:
            if u.id not in decided:
                decided[u.id] = _ev(frame, u.ast)
            val = decided[u.id]
            return val is not _UNK and bool(val) != lab
        return False
    released: set = set()
    seen: set = set()
    frontier = [cfg.entry] if starts is None else list(starts)
    while frontier:
        seen |= cfg.reach(frontier, cut_nodes=cut_nodes, cut_edge=cut, follow_exc=follow_exc)
        frontier = []
        for L in full:
            if L in seen and L not in released and any(p_ in seen and p_.ast is not L.ast.iter for p_, _ in L.pred):
                released.add(L)
                frontier.append(L)
        seen -= set(frontier)
    return seen


def _live(frame: _Frame, node: ast.AST) -> bool:
    """the bindings of the frame do not rule out that this node runs"""
    if not frame.binds or frame.ctx is None or frame.fi is None:
        return True
    ns = frame.ctx.cfg(frame.fi).nodes_for(node)
    if not ns:
        return True
    if frame.live is None:
        frame.live = ()                       # while it is being computed nothing is ruled out (the tests themselves use _live)
        frame.live = _feasible(frame.ctx, frame, follow_exc=True)
    return not frame.live or any(n in frame.live for n in ns)


def _helper_calls(frame: _Frame, generators: bool = False) -> list[tuple[ast.Call, FuncInfo]]:
    """calls in this frame's function that run another method of the same object / a module function handed the object
    (generator helpers only on request: their body runs when the result is iterated, not when they are called)"""
    out = []
    if frame.fi is None or frame.depth() >= _MAX_FRAMES:
        return out
    active = set()
    f = frame
    while f is not None:
        if f.fi is not None:
            active.add(f.fi)
        f = f.caller
    for c in calls(frame.fi):
        if call_name(c) in _EXEC or call_name(c) == "commit" or not _live(frame, c) or _exec_call(frame, c) is not None or _is_own_commit(frame, c):
            continue
        h = _self_target(frame, c)
        picked = [(h, ())] if h is not None else _picked_targets(frame, c)
        for h, cond in picked:
            if h not in active and (generators or not any(isinstance(x, (ast.Yield, ast.YieldFrom)) for x in walk_no_nested(h.node))):
                if cond:
                    frame.alts[(id(c), h)] = cond
                out.append((c, h))
    return out


def _sql_sites(frame: _Frame, generators: bool = False) -> list[_Site]:
    out = []
    if frame.fi is None:
        return out
    for c in calls(frame.fi):
        how = _exec_call(frame, c)
        if how is not None and _live(frame, c):
            out.append(_Site(frame, c, how))
    for c, h in _helper_calls(frame, generators):
        out += _sql_sites(_bind_call(frame, c, h), generators)
    return out


def _commit_calls(frame: _Frame) -> list[ast.Call]:
    return [c for c in calls(frame.fi) if _is_own_commit(frame, c)]


def _nodes_doing(ctx: Ctx, frame: _Frame, direct) -> list:
    """CFG nodes of the frame's function that do something: direct(frame) lists the syntax nodes that do it right here; a call of a helper
    of the same object counts as well when every normal path through that helper does it (recursively)."""
    cfg = ctx.cfg(frame.fi)
    out = [n for a in direct(frame) if _live(frame, a) for n in cfg.nodes_for(a)]
    verdict: dict[int, tuple[ast.Call, bool]] = {}
    for c, h in _helper_calls(frame):
        sub = _bind_call(frame, c, h)
        hn = [] if h.is_async else _nodes_doing(ctx, sub, direct)
        does = bool(hn) and ctx.cfg(h).exit not in _feasible(ctx, sub, cut_nodes=hn)
        verdict[id(c)] = (c, verdict.get(id(c), (c, True))[1] and does)        # a callee picked by a condition: every alternative
    for c, does in verdict.values():
        if does:
            out += cfg.nodes_for(c)
    return out


def _commit_nodes(ctx: Ctx, frame: _Frame) -> list:
    return _nodes_doing(ctx, frame, _commit_calls)


def _exc_escapes(cfg, node: ast.AST) -> bool:
    """an exception raised by this call leaves the function as an exception (no handler turns it into a normal return)"""
    starts = [v for n in cfg.nodes_for(node) for v, lab in n.succ if lab == "exc"]
    if cfg.exit in cfg.reach(starts):
        return False
    # `with contextlib.suppress(...):` around the call turns its exception into a normal continuation just like a handler does
    module = _G["repo"].module_of(node) if _G["repo"] is not None else None
    p_ = parent(node)
    while p_ is not None and p_ is not cfg.func:
        if isinstance(p_, (ast.With, ast.AsyncWith)) and any(_swallows(module, it.context_expr) for it in p_.items):
            return False
        p_ = parent(p_)
    return True


def _committed_before_return(ctx: Ctx, site: _Site) -> bool:
    """At some level of the call chain every normal path from the write (the call that leads to it) to that function's return passes a
    commit: whatever the deeper levels do after the write, control comes back to that level and commits before the insert returns."""
    for fr, c in site.levels():
        cfg = ctx.cfg(fr.fi)
        cn = _commit_nodes(ctx, fr)
        ns = cfg.nodes_for(c)
        if cn and ns and all(cfg.exit not in _feasible(ctx, fr, [v for v, lab in n.succ if lab != "exc"], cut_nodes=cn) for n in ns):
            return True
    return False


def insert_functions(ctx: Ctx) -> list[FuncInfo]:
    out = []
    for rel in (IDB, WDB):
        for fi in ctx.repo.module(rel).all_functions:
            if fi.cls is not None and fi.cls.is_subclass_of("Database") and fi.name.startswith("insert_"):
                out.append(fi)
    return out


def _frames_of(top: _Frame, sites: list[_Site]) -> list[_Frame]:
    """the distinct function frames on the call chains from the analysed function to these sites"""
    out: list[_Frame] = [top]
    for s_ in sites:
        for fr, _ in s_.levels():
            if not any(o.fi is fr.fi for o in out):
                out.append(fr)
    return out


def rule_commit_after_insert(ctx: Ctx) -> None:
    _G["repo"] = ctx.repo
    ins = insert_functions(ctx)
    ctx.floor("commit-after-insert", len(ins), 4)
    for fi in ins:
        top = _top(ctx, fi)
        sites = _sql_sites(top)
        writes = [s_ for s_ in sites if _WRITE_SQL.match(s_.sql)]
        if not writes and any(s_.text is None for s_ in sites):
            s_ = next(x for x in sites if x.text is None)
            raise AnalysisError(f"undecided: cannot read the statement that {fi.qualname} executes (`{norm(s_.call)[:100]}` in {s_.frame.fi.qualname})")
        if not writes:
            for fr in _all_frames(top):
                u = _unread_method_use(fr, _EXEC)
                if u is not None:
                    raise AnalysisError(f"undecided: {fr.fi.qualname} takes `{norm(u)[:80]}` as a value; cannot tell which statement {fi.qualname} executes through it")
        ctx.check(bool(writes), "commit-after-insert", fi, fi.node, f"{fi.qualname} issues its INSERT through self.execute", f"{fi.qualname} has no recognisable write statement")
        if writes:
            _writes_on_every_path(ctx, top, fi)
        walked: list = []

        def committed(s_: _Site) -> bool:
            if _committed_before_return(ctx, s_):
                return True
            # the commit may depend on a flag / tag / result object that says whether a row was written: decide it path by path
            if not walked:
                walked.append(_walk_clean_at_return(ctx, fi, lambda x: bool(_WRITE_SQL.match(x.sql))))
            return walked[0]
        for s_ in writes:
            here = s_.levels()[0][1]             # the call in the insert function itself: the execute or the helper that leads to it
            h = s_.frame.fi
            if h is fi:
                ctx.check(committed(s_), "commit-after-insert", fi, here,
                          f"{fi.qualname}: every normal path from the INSERT to the return passes self.commit()",
                          f"{fi.qualname} can return after its INSERT without committing: a record whose insert call returned is lost by a crash")
            else:
                ctx.check(committed(s_), "commit-after-insert", fi, here,
                          f"{fi.qualname}: the helper {h.name} (or the caller) commits on every normal path after the INSERT",
                          f"{fi.qualname} writes through {h.qualname}, which can return after the INSERT without committing (the commit is conditional): "
                          "a record whose insert call returned is lost by a crash")
        for fr in _frames_of(top, writes):
            g = fr.fi
            cfg = ctx.cfg(g)
            for c in _commit_calls(fr):
                ctx.check(_is_plain_commit(fr, c), "commit-after-insert", g, c, "plain commit()", "commit is called with arguments that change its meaning")
                ctx.check(_exc_escapes(cfg, c), "commit-after-insert", g, c, f"{g.qualname}: a failing commit() is not turned into a normal return",
                          f"{g.qualname} catches the exception of a failing commit() and returns normally: the insert call returns although its record was "
                          "not made durable, and a crash afterwards loses it")
            # a helper may carry the lock wrapper that execute() and commit() carry themselves (it runs the body synchronously under the lock)
            plain = not g.node.decorator_list or (g is not fi and all(chain(d) == "db_call" for d in g.node.decorator_list))
            ctx.check(not g.is_async and plain, "commit-after-insert", g, g.node, f"{g.qualname} is a plain synchronous method",
                      f"{g.qualname} is wrapped/async: the commit may not have happened when the call returns")


    for name in _EXEC:
        _wrapper_runs_body(ctx, ctx.repo.method("Database", name, DB), "commit-after-insert")


def _is_write_call(fr: _Frame, c: ast.Call) -> bool:
    how = _exec_call(fr, c)
    return how is not None and bool(_WRITE_SQL.match(_Site(fr, c, how).sql))


def _walk_always_writes(ctx: Ctx, fi: FuncInfo) -> bool | None:
    """decided path by path: every normal path through fi executes a write statement (None: the walk gives no answer)"""
    def event(fr: _Frame, c: ast.Call, st: _WState):
        how = _exec_call(fr, c)
        if how is not None:
            site = _Site(fr, c, how)
            if _WRITE_SQL.match(site.sql):
                return [st.flag("wrote")]
            if site.text is None:
                raise _Bail("unreadable statement")
            return [st]
        return None
    try:
        normal, _ = _PathWalk(ctx, event).function(fi, _UNK)
    except (_Bail, AnalysisError, RecursionError, AttributeError, TypeError, KeyError, IndexError, ValueError):
        return None
    return bool(normal) and all("wrote" in s_.flags for s_ in normal)


def _writes_on_every_path(ctx: Ctx, top: _Frame, fi: FuncInfo) -> None:
    """An insert that returns normally has executed its INSERT (and, by the clause above, committed it).  A normal path that skips the
    statement - because a cache, a flag or a set kept in memory says the row `was written before` - returns without execute and without
    commit: memory knows what was executed, not what was committed (a deferred, ignored or failed commit leaves the row in an open
    transaction), so a record whose insert call returned can be lost by a kill."""
    wn = _nodes_doing(ctx, top, lambda fr: [c for c in calls(fr.fi) if _is_write_call(fr, c)])
    ok: bool | None = bool(wn) and ctx.cfg(fi).exit not in _feasible(ctx, top, cut_nodes=wn)
    if not ok:
        ok = _walk_always_writes(ctx, fi)
    if ok is None:
        raise AnalysisError(f"undecided: cannot tell whether every normal path through {fi.qualname} executes its INSERT")
    skip = None
    if not ok:
        cfg = ctx.cfg(fi)
        live = _feasible(ctx, top, cut_nodes=wn)
        skip = next((r for r in walk_no_nested(fi.node) if isinstance(r, ast.Return) and any(n in live for n in cfg.nodes_for(r))), None)
    ctx.check(ok, "commit-after-insert", fi, skip if skip is not None else fi.node, f"{fi.qualname}: every normal path executes the INSERT",
              f"{fi.qualname} can return normally without executing its INSERT (and without commit): whether the record is durable is then decided by "
              "something the process remembers, not by the database - a row whose earlier commit was deferred, ignored or failed is still in an open "
              "transaction, the repeated insert call returns, and a kill loses a record whose insert call had returned")


PENDING = "self._pending_commits"


def _is_pending(fi: FuncInfo, e: ast.AST) -> bool:
    return rchain(fi, e) == PENDING


def _pending_now(fi: FuncInfo | None, cfg, e: ast.AST, site) -> bool:
    """e is, at `site`, the current value of self._pending_commits: the attribute itself, or a local snapshot of it such that no store
    into the attribute lies on a path from the snapshot to the site (otherwise the snapshot may be stale and is NOT the counter)."""
    e = strip_cast(e)
    if chain(e) == PENDING:
        return True
    hops = 0
    while fi is not None and cfg is not None and isinstance(e, ast.Name) and hops < 4 and e.id not in fi.params():
        hops += 1
        defs = local_defs(fi, e.id)
        if len(defs) != 1 or defs[0][1] is None or defs[0][2] is not None:
            return False
        stmt, v, _ = defs[0]
        v = strip_cast(v)
        if chain(v) == PENDING:
            stores_ = [st for st, _ in _stored_values(fi, PENDING)]
            if any(st is stmt for st in stores_):
                return False
            after = cfg.reach([x for n in cfg.nodes_for(stmt) for x, lab in n.succ if lab != "exc"])
            sn = [site] if not isinstance(site, ast.AST) else cfg.nodes_for(site)
            for st in stores_:
                for n in cfg.nodes_for(st):
                    if n in after and any(t in cfg.reach([x for x, lab in n.succ if lab != "exc"]) for t in sn):
                        return False
            return True
        e = v
    return False


def _pending_is_zero(f, fi: FuncInfo | None = None, cfg=None, site=None) -> bool:
    """does this dominating fact say that self._pending_commits is 0 (the counter is never negative)?  Either spelling of the test,
    on the attribute or on an up-to-date local snapshot of it."""
    def pend(x) -> bool:
        return x is not None and _pending_now(fi, cfg, x, site)
    if f.op == "truthy":
        return not f.pos and pend(f.left)
    lv, rv = _is_int(f.left, fi), _is_int(f.right, fi)
    if f.op in ("eq", "is") and f.pos:
        return (pend(f.left) and rv == 0) or (pend(f.right) and lv == 0)
    if f.op == "lt" and f.pos:          # pending < 1
        return pend(f.left) and rv is not None and rv <= 1
    if f.op == "lt" and not f.pos:      # not (0 < pending)  ==  pending <= 0
        return pend(f.right) and lv is not None and lv <= 0
    if f.op == "in" and f.pos:          # pending in (0,)
        m = _members(resolve(fi, f.right) if fi is not None else f.right)
        return pend(f.left) and m == {0}
    return False


def _pending_at_most(f, fi: FuncInfo | None = None, cfg=None, site=None) -> int | None:
    """the largest value the counter can have when this fact holds (None: the fact does not bound it from above)"""
    def pend(x) -> bool:
        return x is not None and _pending_now(fi, cfg, x, site)
    if _pending_is_zero(f, fi, cfg, site):
        return 0
    if f.op == "truthy":
        return None
    lv, rv = _is_int(f.left, fi), _is_int(f.right, fi)
    if f.op in ("eq", "is") and f.pos:
        return rv if pend(f.left) and rv is not None else lv if pend(f.right) and lv is not None else None
    if f.op == "lt" and f.pos and pend(f.left) and rv is not None:           # pending < k
        return rv - 1
    if f.op == "lt" and not f.pos and pend(f.right) and lv is not None:      # not (k < pending)
        return lv
    return None


def _pending_is_nonzero(f, fi: FuncInfo | None = None, cfg=None, site=None) -> bool:
    return _pending_is_zero(Fact(f.op, f.left, f.right, not f.pos, f.atom), fi, cfg, site)


def _decision_means_zero(ctx: Ctx, frame: _Frame, f) -> bool | None:
    """A fact `helper(...)` / `not helper(...)` about a boolean decision helper of the same object that could not be inlined: True when
    the fact holds exactly when the counter is 0 (every return of the helper that can make the fact true is dominated by `counter is 0`,
    every other return by `counter is not 0`), False when the fact is no call of such a helper, None when the helper cannot be read."""
    if f.op != "truthy" or not isinstance(strip_cast(f.left), ast.Call):
        return False
    call = strip_cast(f.left)
    h = _self_target(frame, call)
    if h is None or h.is_async or frame.depth() >= _MAX_FRAMES:
        return False
    hcfg = ctx.cfg(h)
    rets = [r for r in walk_no_nested(h.node) if isinstance(r, ast.Return)]
    falls = any(u.kind != "stmt" or not isinstance(u.ast, ast.Return) for u, lab in hcfg.exit.pred if u in hcfg.reach())
    if not rets or falls:
        return None
    for r in rets:
        v = const_value(r.value) if r.value is not None else None
        if r.value is not None and not isinstance(v, (bool, int, type(None))):
            return None
        fs = facts_at(hcfg, r)
        zero = any(_pending_is_zero(g, h, hcfg, r) for g in fs)
        nonzero = any(_pending_is_nonzero(g, h, hcfg, r) for g in fs)
        if bool(v) == f.pos and not zero:
            return False if nonzero else None
        if bool(v) != f.pos and not nonzero:
            return False if zero else None
    return True


def _keeps_pending(ctx: Ctx, fi: FuncInfo, cfg, v: ast.AST, depth: int = 0) -> bool | None:
    """Is the stored value >= the current counter (True), possibly smaller (False), or unreadable (None)?"""
    site = v                      # where the value is used: the guards that dominate the use decide about a constant
    v = resolve(fi, v)
    if depth > 4:
        return None
    if _is_pending(fi, v):
        return True
    if isinstance(v, ast.Call) and chain(v.func) == "max" and not v.keywords and not any(isinstance(a, ast.Starred) for a in v.args):
        return True if any(_is_pending(fi, resolve(fi, a)) for a in v.args) else False
    if isinstance(v, ast.BoolOp) and isinstance(v.op, ast.Or):
        # `pending or k`: pending when it is non-zero, k only when it is 0
        return True if _is_pending(fi, resolve(fi, v.values[0])) else False
    if isinstance(v, ast.IfExp):
        a, b = _keeps_pending(ctx, fi, cfg, v.body, depth + 1), _keeps_pending(ctx, fi, cfg, v.orelse, depth + 1)
        return None if a is None or b is None else a and b
    if isinstance(v, ast.BinOp) and isinstance(v.op, ast.Add):
        for x, y in ((v.left, v.right), (v.right, v.left)):
            k = _is_int(y, fi)
            if _is_pending(fi, resolve(fi, x)) and k is not None:
                return k >= 0
        return None
    k = _is_int(v)
    if k is not None:
        # a constant is fine only where the counter is known not to exceed it (`if pending < 1: pending = 1`, `1 if pending <= 1 else pending`)
        bounds = [b for b in (_pending_at_most(f, fi, cfg, site) for f in facts_at(cfg, site)) if b is not None]
        return k >= 0 and any(b <= k for b in bounds)
    return None


def _enter_keeps_pending(ctx: Ctx) -> None:
    """
    `with database:` blocks nest (a batching helper called from inside a batch).  commit() inside a block only counts
    (_pending_commits += 1) and the OUTERMOST __exit__ commits iff the count it finds is > 1.  So __enter__ may raise the
    counter to 1 but must never lower it: if a nested __enter__ forgets the commits already counted, the inner __exit__
    (which saw none of its own) and the outer __exit__ (which finds 0) both skip connection.commit(), and every insert of
    the finished batch stays in an open transaction - lost by a kill although its insert call and the whole batch returned.
    """
    repo = ctx.repo
    en0 = repo.method("Database", "__enter__", DB)
    # the store may live in a helper of the object that __enter__ calls
    sv = [(fr.fi, st, v) for fr in _all_frames(_top(ctx, en0)) for st, v in _stored_values(fr.fi, PENDING)]
    if not sv:
        ctx.instance("no-deferred-commit", en0.where(), "__enter__ does not write _pending_commits (nothing is deferred)", nontrivial=False)
    walked: list = []
    for en, st, v in sv:
        cfg = ctx.cfg(en)
        if v is None and isinstance(st, ast.AugAssign):
            k = _is_int(st.value, en)
            verdict = (k >= 0) if isinstance(st.op, ast.Add) and k is not None else None
        else:
            verdict = None if v is None else _keeps_pending(ctx, en, cfg, v)
        if verdict is not True:
            if not walked:
                walked.append(_walk_enter_keeps(ctx, en0))
            verdict = True if walked[0] else verdict
        if verdict is None:
            raise AnalysisError(f"undecided: cannot tell whether `{norm(st)}` in Database.__enter__ keeps the commits already deferred")
        ctx.check(verdict, "no-deferred-commit", en, st, "__enter__ never lowers _pending_commits (a nested with-block keeps the commits deferred by the enclosing one)",
                  "Database.__enter__ overwrites _pending_commits: entering a nested `with database:` block forgets the commits already deferred by the "
                  "enclosing block, so neither __exit__ calls connection.commit() and the inserts of a finished batch are lost by a kill")


def _level_facts(ctx: Ctx, fr: _Frame, c: ast.Call) -> list[tuple[_Frame, ast.Call, Fact]]:
    """(frame, call, fact) for every guard on the way to call c of frame fr: the dominating facts of each call of the chain in its own
    function, plus the test under which a conditionally picked callee is the one that runs"""
    levels = [*fr.chain_calls(), (fr, c)]
    out = []
    for i, (lf, lc) in enumerate(levels):
        out += [(lf, lc, f) for f in facts_at(ctx.cfg(lf.fi), lc)]
        callee = levels[i + 1][0] if i + 1 < len(levels) else None
        for test, pol, tfr in (callee.cond if callee is not None else ()):
            out += [(tfr if tfr.fi is lf.fi else lf, lc, f) for f in _atoms_with_polarity(test, pol)]
    return out


def _all_frames(top: _Frame) -> list[_Frame]:
    """the function and (transitively) the helpers of the same object it calls, each with the bindings of its call"""
    out = [top]
    for c, h in _helper_calls(top):
        out += _all_frames(_bind_call(top, c, h))
    return out


def _calls_through(frame: _Frame, pred) -> list[tuple[_Frame, ast.Call]]:
    """calls with pred(frame, call) in the frame's function or in the helpers of the same object that it calls (with their bindings)"""
    out = [(frame, c) for c in calls(frame.fi) if pred(frame, c) and _live(frame, c)]
    for c, h in _helper_calls(frame):
        out += _calls_through(_bind_call(frame, c, h), pred)
    return out


def _nodes_maybe(ctx: Ctx, frame: _Frame, pred) -> list:
    """CFG nodes of the frame's function that may run a call with pred(frame, call): directly or somewhere inside a helper"""
    cfg = ctx.cfg(frame.fi)
    out = [n for c in calls(frame.fi) if pred(frame, c) and _live(frame, c) for n in cfg.nodes_for(c)]
    for c, h in _helper_calls(frame):
        if _calls_through(_bind_call(frame, c, h), pred):
            out += cfg.nodes_for(c)
    return out


def _loop_row_values(frame: _Frame, name: ast.AST) -> list[ast.AST] | None:
    """`for a, b in ((x1, y1), (x2, y2)): ... b ...`: the expressions the loop variable `name` stands for, one per row of the literal table"""
    if not isinstance(name, ast.Name) or frame.fi is None:
        return None
    defs = local_defs(frame.fi, name.id)
    if len(defs) != 1 or not isinstance(defs[0][0], (ast.For, ast.AsyncFor)):
        return None
    loop = defs[0][0]
    it, _ = _deref(frame, loop.iter)
    if not isinstance(it, (ast.Tuple, ast.List)):
        return None
    if isinstance(loop.target, ast.Name):
        return list(it.elts)
    if isinstance(loop.target, (ast.Tuple, ast.List)) and all(isinstance(t, ast.Name) for t in loop.target.elts):
        pos = [t.id for t in loop.target.elts].index(name.id)
        if all(isinstance(r, (ast.Tuple, ast.List)) and len(r.elts) == len(loop.target.elts) and not any(isinstance(x, ast.Starred) for x in r.elts) for r in it.elts):
            return [r.elts[pos] for r in it.elts]
    return None


def _is_method_ref(frame: _Frame, e: ast.AST, meth: str) -> bool:
    e, fr = _deref(frame, e)
    return isinstance(e, ast.Attribute) and e.attr == meth and _is_self(fr, e.value)


def _runs_method(frame: _Frame, c: ast.Call, meth: str) -> bool:
    """the call runs self.<meth>: directly, through a local alias, or as the loop variable of a literal dispatch table that holds it"""
    if _is_method_ref(frame, c.func, meth):
        return True
    rows = _loop_row_values(frame, c.func)
    return rows is not None and any(_is_method_ref(frame, r, meth) for r in rows)


def _row_of_call(frame: _Frame, c: ast.Call, meth: str) -> list[int] | None:
    """indices of the dispatch-table rows in which the called loop variable is self.<meth> (None: not a table call)"""
    rows = _loop_row_values(frame, c.func)
    return None if rows is None else [i for i, r in enumerate(rows) if _is_method_ref(frame, r, meth)]


def _flag_fact(ctx: Ctx, frame: _Frame, f, name: str, rows: list[int] | None = None, *, exact: bool = True) -> bool:
    """The fact says that flag parameter `name` of the outermost function is true: it tests the parameter itself, or it is the result of
    a decision helper of the same object that could not be inlined and that answers true only where the parameter is true
    (exact: and false only where it is false)."""
    if f.op != "truthy" or not f.pos:
        return False
    if _is_param(frame, f.left, name, rows):
        return True
    call = strip_cast(f.left)
    h = _self_target(frame, call) if isinstance(call, ast.Call) else None
    if h is None or h.is_async or frame.depth() >= _MAX_FRAMES:
        return False
    sub = _bind_call(frame, call, h)
    hcfg = ctx.cfg(h)
    if any(u.kind != "stmt" or not isinstance(u.ast, ast.Return) for u, _ in hcfg.exit.pred if u in hcfg.reach()) and exact:
        return False
    for r in [x for x in walk_no_nested(h.node) if isinstance(x, ast.Return)]:
        if r.value is not None and _is_param(sub, r.value, name):
            continue
        v = const_value(r.value) if r.value is not None else None
        if r.value is not None and not isinstance(v, (bool, int, type(None))):
            return False
        fs = facts_at(hcfg, r)
        if v and not any(g.op == "truthy" and g.pos and _is_param(sub, g.left, name) for g in fs):
            return False
        if not v and exact and not any(g.op == "truthy" and not g.pos and _is_param(sub, g.left, name) for g in fs):
            return False
    return True


def _is_param(frame: _Frame, e: ast.AST, name: str, rows: list[int] | None = None) -> bool:
    """e is parameter `name` of the outermost analysed function (through aliases / helper parameters; for a loop variable over a literal
    dispatch table: in every one of the given rows)"""
    b, fr = _deref(frame, e)
    if isinstance(b, ast.Name) and rows is not None:
        vals = _loop_row_values(fr, b)
        if vals is not None:
            return bool(rows) and all(_is_param(fr, vals[i], name) for i in rows)
    return isinstance(b, ast.Name) and b.id == name and fr.caller is None and fr.fi is not None and name in fr.fi.params() and not local_defs(fr.fi, name)


def _private_part_of(ctx: Ctx, fi: FuncInfo, allowed: tuple, depth: int = 0) -> bool:
    """fi is a private helper of the Database class (or a private module level function of its module) that is only ever called, and only
    from the allowed members (or from such helpers)"""
    if fi.cls is None and fi.module.relpath == DB and fi.name.startswith("_") and not fi.name.startswith("__") and depth <= 3 \
            and isinstance(parent(fi.node), ast.Module):
        called = False
        for n in ast.walk(fi.module.tree):
            if isinstance(n, ast.Name) and n.id == fi.name and isinstance(n.ctx, ast.Load):
                g = ctx.repo.function_of(n)
                if g is None or not (isinstance(parent(n), ast.Call) and parent(n).func is n) or not (g.qualname in allowed or _private_part_of(ctx, g, allowed, depth + 1)):
                    return False
                called = True
        imported = any(isinstance(n, ast.ImportFrom) and any(a.name == fi.name for a in n.names) for m in ctx.repo.modules.values() for n in ast.walk(m.tree))
        return called and not imported
    if fi.cls is None or fi.cls.name != "Database" or fi.module.relpath != DB or not fi.name.startswith("_") or fi.name.startswith("__") or depth > 3:
        return False
    called = False
    for m, g, n in ctx.repo.attribute_uses(fi.name):
        if g is None or not (g.qualname in allowed or _private_part_of(ctx, g, allowed, depth + 1)):
            return False
        if not isinstance(parent(n), ast.Call) or parent(n).func is not n:
            # referenced as a value: fine while it only serves to pick the callee inside that member (`(self._a if t else self._b)()`,
            # `step = self._a` ... `step()`), not when it is stored, passed on or returned
            p_ = parent(n)
            while isinstance(p_, ast.IfExp):
                p_ = parent(p_)
            picks = isinstance(p_, ast.Call) and isinstance(p_.func, ast.IfExp)
            local = isinstance(p_, ast.Assign) and len(p_.targets) == 1 and isinstance(p_.targets[0], ast.Name) and all(
                isinstance(parent(u), ast.Call) and parent(u).func is u for u in ast.walk(g.node)
                if isinstance(u, ast.Name) and u.id == p_.targets[0].id and isinstance(u.ctx, ast.Load))
            if not (picks or local):
                return False
        called = True
    return called


def _is_real_commit(c: ast.Call) -> bool:
    return call_name(c) == "commit" and "_connection" in norm(c.func)


def _real_commits(frame: _Frame) -> list[tuple[_Frame, ast.Call]]:
    """connection.commit() calls of Database.commit, also when they moved into a helper of the object that was not inlined"""
    out = [(frame, c) for c in calls(frame.fi) if _is_real_commit_at(frame, c)]
    for c, h in _helper_calls(frame):
        out += _real_commits(_bind_call(frame, c, h))
    return out


def _success_only_after_commit(ctx: Ctx, frame: _Frame, depth: int = 0) -> tuple[bool | None, ast.AST | None]:
    """Does the function return a true value only on paths that completed connection.commit()?  (True / False / None = unreadable,
    the offending or unreadable return).  A returned call of a helper of the same object is answered by the helper's own returns."""
    cm = frame.fi
    cfg = ctx.cfg(cm)
    cn = _nodes_doing(ctx, frame, lambda fr: [c for c in calls(fr.fi) if _is_real_commit_at(fr, c)])
    helpers: dict[int, list[FuncInfo]] = {}
    for c, h in _helper_calls(frame):
        helpers.setdefault(id(c), []).append(h)

    def value_ok(r_node, v: ast.AST | None) -> bool | None:
        if v is None:
            return True
        k = const_value(v)
        if isinstance(k, (bool, int, str, bytes, type(None))):
            return True if not k else bool(cn) and cfg.must_complete(r_node, cn)
        if cn and cfg.must_complete(r_node, cn):
            return True
        v = strip_cast(v)
        if isinstance(v, ast.Call) and id(v) in helpers and depth < _MAX_FRAMES:
            verdicts = [_success_only_after_commit(ctx, _bind_call(frame, v, h), depth + 1)[0] for h in helpers[id(v)]]
            return False if False in verdicts else None if None in verdicts else True
        if isinstance(v, ast.Name) and v.id not in cm.params():
            verdict: bool | None = True
            defs = local_defs(cm, v.id)
            for st, dv, idx in defs:
                if dv is None or idx is not None:
                    return None
                others = [n for st2, _, _ in defs if st2 is not st for n in cfg.nodes_for(st2)]
                for dn in cfg.nodes_for(st):
                    one = value_ok(dn, dv)
                    if one is True:
                        continue
                    # the (possibly) true value survives to the return only along paths that pass the real commit or another assignment
                    if r_node in cfg.reach([x for x, lab in dn.succ if lab != "exc"], cut_nodes=[*others, *cn]):
                        verdict = one if verdict is True or one is False else verdict
            return verdict
        return None
    rets = [r for r in walk_no_nested(cm.node) if isinstance(r, ast.Return)]
    verdicts = [(r, value_ok(n, r.value)) for r in rets for n in cfg.nodes_for(r)]
    bad = [r for r, v in verdicts if v is False]
    unread = [r for r, v in verdicts if v is None]
    if bad:
        return False, bad[0]
    if unread:
        return None, unread[0]
    return bool(rets), None


# ------------------------------------------------------------------------------------------------------------------
# Path-sensitive walk: every path through a function (and the functions it calls with the object), carrying the values that decide
# its branches - the deferred-commit counter, locals holding constants / Enum members / small result records, the outcome a decision
# helper returned - and a set of flags raised by events (the real commit ran, a row was written and not yet committed).  It answers
# "on every path that ..." questions for code whose decision was moved into a flag, a tag, a result object or a callee, where no single
# dominating test says it.  It only ever PROVES: whatever it does not model raises _Bail and the fact-based verdict stands.

class _Bail(Exception):
    """the walk met something it does not model: nothing is proved"""


class _Abstract:
    def __init__(self, text: str) -> None:
        self.text = text

    def __repr__(self) -> str:
        return self.text


_POS = _Abstract("<positive int>")       # the counter when commits are pending (it is never negative)
_TRUTHY = _Abstract("<true value>")
_FALSY = _Abstract("<false value>")


class _EnumVal:
    """member of an Enum class whose members are pairwise different"""
    __slots__ = ("cls", "name", "value")

    def __init__(self, cls: str, name: str, value) -> None:
        self.cls, self.name, self.value = cls, name, value

    def __eq__(self, o) -> bool:
        return isinstance(o, _EnumVal) and (o.cls, o.name) == (self.cls, self.name)

    def __hash__(self) -> int:
        return hash((self.cls, self.name))

    def __repr__(self) -> str:
        return f"{self.cls}.{self.name}"


class _RecVal:
    """instance of a NamedTuple / dataclass result record: field -> value"""
    __slots__ = ("cls", "fields", "is_tuple")

    def __init__(self, cls: str, fields: tuple, is_tuple: bool) -> None:
        self.cls, self.fields, self.is_tuple = cls, fields, is_tuple

    def __eq__(self, o) -> bool:
        return isinstance(o, _RecVal) and (o.cls, o.fields) == (self.cls, self.fields)

    def __hash__(self) -> int:
        return hash((self.cls, tuple((k, _vkey(v)) for k, v in self.fields)))

    def get(self, name: str):
        return dict(self.fields).get(name, _UNK)


def _vkey(v):
    if isinstance(v, tuple):
        return ("tuple", tuple(_vkey(x) for x in v))
    return (type(v).__name__, v)


def _hashable(v):
    """values the walk carries: constants, tuples of them, Enum members, records, the abstract markers"""
    if isinstance(v, (bool, int, str, bytes, type(None), _Abstract, _Unknown, _EnumVal, _RecVal)):
        return v
    if isinstance(v, tuple):
        return tuple(_hashable(x) for x in v)
    return _UNK


def _truth(v) -> bool | None:
    if v is _POS or v is _TRUTHY:
        return True
    if v is _FALSY:
        return False
    if isinstance(v, (_Unknown, _EnumVal)):
        return None          # an Enum class may define its own truth value
    if isinstance(v, _RecVal):
        return True if v.fields and v.is_tuple else None
    return bool(v)


def _plain(v) -> bool:
    return isinstance(v, (bool, int, str, bytes, type(None), tuple)) and not (isinstance(v, tuple) and any(not _plain(x) for x in v))


def _compare(op: ast.cmpop, l, r):  # noqa: C901, PLR0911, PLR0912
    """outcome of `l op r` on walk values: True / False / _UNK"""
    if isinstance(op, (ast.NotEq, ast.IsNot, ast.NotIn)):
        inv = {ast.NotEq: ast.Eq, ast.IsNot: ast.Is, ast.NotIn: ast.In}[type(op)]()
        v = _compare(inv, l, r)
        return _UNK if v is _UNK else not v
    if isinstance(op, (ast.Eq, ast.Is)):
        if isinstance(l, _EnumVal) and isinstance(r, _EnumVal) and l.cls == r.cls:
            return l == r
        for a, b in ((l, r), (r, l)):
            if a is _POS and type(b) is int:
                return False if b <= 0 else _UNK
            if a is _POS and b is None:
                return False
        if _plain(l) and _plain(r) and not isinstance(l, tuple) and not isinstance(r, tuple):
            if isinstance(op, ast.Is) and type(l) is not type(r):
                return False
            return l == r
        return _UNK
    if isinstance(op, ast.In):
        if isinstance(r, tuple):
            outs = [_compare(ast.Eq(), l, x) for x in r]
            if any(o is True for o in outs):
                return True
            return False if all(o is False for o in outs) else _UNK
        if isinstance(l, str) and isinstance(r, str):
            return l in r
        return _UNK
    if isinstance(op, (ast.Gt, ast.GtE)):
        return _compare(ast.Lt() if isinstance(op, ast.Gt) else ast.LtE(), r, l)
    if isinstance(op, (ast.Lt, ast.LtE)):
        strict = isinstance(op, ast.Lt)
        if type(l) is int and type(r) is int:
            return l < r if strict else l <= r
        if l is _POS and type(r) is int:           # n < r / n <= r with n >= 1
            return False if (r <= 1 if strict else r <= 0) else _UNK
        if r is _POS and type(l) is int:           # l < n / l <= n with n >= 1
            return True if (l <= 0 if strict else l <= 1) else _UNK
        return _UNK
    return _UNK


def _arith(op: ast.operator, l, r):
    if isinstance(op, ast.Add):
        if type(l) is int and type(r) is int:
            return l + r
        for a, b in ((l, r), (r, l)):
            if a is _POS and type(b) is int and b >= 0:
                return _POS
        if type(l) is type(r) and isinstance(l, (str, bytes, tuple)) and _plain(l) and _plain(r):
            return l + r
    if isinstance(op, ast.Sub) and type(l) is int and type(r) is int:
        return l - r
    return _UNK


_ENUM_BASES = {"Enum", "IntEnum", "StrEnum", "Flag", "IntFlag"}


def _enum_member(repo, module, e: ast.AST):
    """`Cls.MEMBER` of an Enum class of the repository whose members all have different constant values (no aliases)"""
    if not isinstance(e, ast.Attribute) or module is None:
        return None
    c = repo.resolve_class_expr(module, e.value)
    if c is None or not (c.all_base_names() & _ENUM_BASES) or e.attr not in c.attrs or e.attr.startswith("_"):
        return None
    members = {k: v for k, v in c.attrs.items() if not k.startswith("_")}
    vals = [const_value(v) for v in members.values()]
    autos = [isinstance(v, ast.Call) and (chain(v.func) or "").split(".")[-1] == "auto" for v in members.values()]
    if all(autos):
        return _EnumVal(c.name, e.attr, _UNK)
    if any(not isinstance(v, (int, str, bytes)) for v in vals) or len({_vkey(v) for v in vals}) != len(vals):
        return None
    return _EnumVal(c.name, e.attr, const_value(members[e.attr]))


def _record_fields(c: ClassInfo) -> tuple[list[str], bool] | None:
    """field names (in order) of a NamedTuple / dataclass without a hand-written constructor; is it a tuple?"""
    is_nt = "NamedTuple" in c.base_names
    is_dc = any((chain(d.func) if isinstance(d, ast.Call) else chain(d) or "").split(".")[-1] == "dataclass" for d in c.node.decorator_list)
    if not (is_nt or is_dc) or c.bases or "__init__" in c.methods or "__new__" in c.methods or "__post_init__" in c.methods:
        return None
    names = [s.target.id for s in c.node.body if isinstance(s, ast.AnnAssign) and isinstance(s.target, ast.Name)]
    return (names, is_nt) if names else None


def _scope_names(fi: FuncInfo) -> set[str]:
    """every name the function binds itself (parameters, assigned / looped / captured / imported names, nested definitions)"""
    out = set(fi.params())
    for n in walk_no_nested(fi.node):
        if isinstance(n, ast.Name) and isinstance(n.ctx, (ast.Store, ast.Del)):
            out.add(n.id)
        elif isinstance(n, ast.ExceptHandler) and n.name:
            out.add(n.name)
        elif isinstance(n, (ast.FunctionDef, ast.AsyncFunctionDef, ast.ClassDef)) and n is not fi.node:
            out.add(n.name)
        elif isinstance(n, (ast.MatchAs, ast.MatchStar)) and n.name:
            out.add(n.name)
        elif isinstance(n, ast.MatchMapping) and n.rest:
            out.add(n.rest)
        elif isinstance(n, (ast.Import, ast.ImportFrom)):
            out.update((a.asname or a.name).split(".")[0] for a in n.names)
    return out


def _is_pending_expr(frame: _Frame, e: ast.AST) -> bool:
    e = strip_cast(e)
    return isinstance(e, ast.Attribute) and e.attr == "_pending_commits" and _is_self(frame, e.value)


def _denotes_connection(frame: _Frame, e: ast.AST | None) -> bool:
    """e is the sqlite connection of the object (self._connection through casts, locals and helper parameters)"""
    if e is None:
        return False
    b, fr = _deref(frame, e)
    return isinstance(b, ast.Attribute) and b.attr == "_connection" and _is_self(fr, b.value)


def _is_commit_caller(frame: _Frame, e: ast.AST) -> bool:
    """e evaluates to operator.methodcaller("commit") (written in place, or a local / module level constant)"""
    e = strip_cast(e)
    if isinstance(e, ast.Name) and frame.fi is not None:
        b, fr = _deref(frame, e)
        if b is not e:
            return _is_commit_caller(fr, b)
        r = frame.repo.resolve_name(frame.module, e.id) if frame.module is not None and e.id not in _scope_names(frame.fi) else None
        return isinstance(r, tuple) and r[0] == "const" and _is_commit_caller(_Frame(frame.repo, module=r[1]), r[2])
    return isinstance(e, ast.Call) and (chain(e.func) or "").split(".")[-1] == "methodcaller" and len(e.args) == 1 and not e.keywords \
        and const_value(e.args[0]) == "commit"


def _is_real_commit_at(frame: _Frame, c: ast.Call) -> bool:
    """the call runs Connection.commit() on the connection of the object, in any of its spellings: conn.commit() (through casts, local
    aliases and helper parameters), a bound-method alias, Connection.commit(conn), getattr(conn, "commit")(), methodcaller("commit")(conn)"""
    if _is_real_commit(c):
        return True
    if frame.fi is None or c.keywords:
        return False
    f = strip_cast(c.func)
    if isinstance(f, ast.Name) and (local_defs(frame.fi, f.id) or f.id in frame.binds):
        f, fr = _deref(frame, f)
    else:
        fr = frame
    if isinstance(f, ast.Attribute) and f.attr == "commit":
        if not c.args and _denotes_connection(fr, f.value):
            return True
        return len(c.args) == 1 and (chain(f.value) or "").split(".")[-1] == "Connection" and _denotes_connection(frame, c.args[0])
    if isinstance(f, ast.Call) and chain(f.func) == "getattr" and len(f.args) == 2 and const_value(f.args[1]) == "commit" and not c.args:
        return _denotes_connection(fr, f.args[0])
    if len(c.args) == 1 and not isinstance(c.args[0], ast.Starred) and _is_commit_caller(fr, f):
        return _denotes_connection(frame, c.args[0])
    return False


def _swallows(module, e: ast.AST) -> bool:
    """a context manager that turns an exception of its body into a normal continuation (contextlib.suppress)"""
    e = strip_cast(e)
    if not isinstance(e, ast.Call):
        return False
    q = _qualified_callee(module, e) if module is not None else (chain(e.func) or "")
    return q.split(".")[-1] == "suppress"


class _WState:
    """one point of a walk: the counter, the raised flags, the values of the locals, the value being returned"""
    __slots__ = ("p", "flags", "env", "ret")

    def __init__(self, p, flags: frozenset, env: dict, ret=None) -> None:
        self.p, self.flags, self.env, self.ret = p, flags, env, ret

    def key(self) -> tuple:
        return (_vkey(self.p), self.flags, tuple(sorted((k, _vkey(v)) for k, v in self.env.items())), _vkey(self.ret))

    def but(self, **kw) -> "_WState":
        s_ = _WState(self.p, self.flags, self.env, self.ret)
        for k, v in kw.items():
            setattr(s_, k, v)
        return s_

    def bind(self, name: str, v) -> "_WState":
        return self.but(env={**self.env, name: _hashable(v)})

    def flag(self, name: str, on: bool = True) -> "_WState":
        return self.but(flags=self.flags | {name} if on else self.flags - {name})


class _PathWalk:
    """on_call(frame, call, state) -> list of states when the call is an event of interest (it is then not followed), else None"""

    def __init__(self, ctx: Ctx, on_call, max_steps: int = 20000) -> None:
        self.ctx, self.on_call, self.max_steps = ctx, on_call, max_steps
        self.steps = 0
        self.side: list[_WState] = []          # states from which the node being evaluated may still raise (after an event / inside a callee)
        self.thrown = 0                        # how many of them left a callee by an exception
        self.scopes: dict[int, set[str]] = {}

    # -- entry point
    def function(self, fi: FuncInfo, p, flags=frozenset(), params: dict | None = None) -> tuple[list[_WState], list[_WState]]:
        """(states at the normal exit, states at the exceptional exit) of fi run on the object with counter value p; parameters are
        unknown unless given"""
        frame = _top(self.ctx, fi)
        return self.run(frame, _WState(p, frozenset(flags), {x: (params or {}).get(x, _UNK) for x in fi.params()}))

    def run(self, frame: _Frame, st0: _WState) -> tuple[list[_WState], list[_WState]]:
        fi = frame.fi
        if fi is None or fi.is_async or frame.depth() > _MAX_FRAMES:
            raise _Bail("cannot follow " + (fi.qualname if fi is not None else "?"))
        for n in walk_no_nested(fi.node):
            if isinstance(n, (ast.Yield, ast.YieldFrom, ast.Await, ast.Nonlocal, ast.Global, ast.Match, ast.AsyncWith, ast.AsyncFor)) or n.__class__.__name__ == "TryStar":
                raise _Bail(f"{fi.qualname}: {n.__class__.__name__} is not modelled")
        f = frame.caller
        while f is not None:
            if f.fi is fi:
                raise _Bail("recursion")
            f = f.caller
        allowed = {"db_call", "staticmethod", "classmethod", "abstractmethod"}
        if frame.caller is not None and any(d.split(".")[-1] not in allowed for d in fi.decorator_names()):
            raise _Bail(f"{fi.qualname} is wrapped by a decorator")
        cfg = self.ctx.cfg(fi)
        seen: set = set()
        normal: dict = {}
        raised: dict = {}
        todo = [(cfg.entry, st0)]
        while todo:
            n, st = todo.pop()
            k = (n.id, st.key())
            if k in seen:
                continue
            seen.add(k)
            self.steps += 1
            if self.steps > self.max_steps:
                raise _Bail("too many paths")
            if n is cfg.exit:
                normal.setdefault(st.key(), st)
                continue
            if n is cfg.raise_exit:
                raised.setdefault(st.key(), st)
                continue
            todo += self.step(frame, n, st)
        return list(normal.values()), list(raised.values())

    # -- one CFG node
    def step(self, frame: _Frame, n, st: _WState) -> list:  # noqa: C901, PLR0912
        a = n.ast
        exc = [v for v, lab in n.succ if lab == "exc"]
        nexts = [(v, lab) for v, lab in n.succ if lab != "exc"]
        self.side, self.thrown = [], 0
        out: list = []
        if n.kind == "cond" and a is not None:
            for v, s_ in self.ev(frame, st, a):
                t = _truth(v)
                for succ, lab in nexts:
                    if (lab is True and t is False) or (lab is False and t is True):
                        continue
                    s2 = s_
                    if t is None and lab in (True, False) and isinstance(strip_cast(a), ast.Name) and strip_cast(a).id in s_.env:
                        s2 = s_.bind(strip_cast(a).id, _TRUTHY if lab else _FALSY)
                    out.append((succ, s2))
        elif n.kind == "loop" and isinstance(a, ast.For):
            for succ, lab in nexts:
                out.append((succ, self.store(frame, st, a.target, _UNK) if lab is True else st))
        elif n.kind == "handler" and isinstance(a, ast.ExceptHandler):
            s2 = st.bind(a.name, _UNK) if a.name else st
            out += [(succ, s2) for succ, _ in nexts]
        elif n.kind == "stmt" and a is not None:
            for s_ in self.statement(frame, st, a):
                out += [(succ, s_) for succ, _ in nexts]
        else:
            out += [(succ, st) for succ, _ in nexts]
        pending_exc = [st, *self.side] if n.kind in ("stmt", "cond") else [st]
        thrown = self.thrown
        self.side, self.thrown = [], 0
        if exc:
            out += [(v, s_) for v in exc for s_ in pending_exc]
        elif thrown:
            raise _Bail("a callee raises where the control-flow graph has no exceptional edge")
        return out

    def statement(self, frame: _Frame, st: _WState, a: ast.AST) -> list[_WState]:  # noqa: C901, PLR0911, PLR0912
        if isinstance(a, ast.Return):
            if a.value is None:
                return [st.but(ret=None)]
            return [s_.but(ret=_hashable(v)) for v, s_ in self.ev(frame, st, a.value)]
        if isinstance(a, ast.Assign):
            outs = []
            for v, s_ in self.ev(frame, st, a.value):
                for t in a.targets:
                    s_ = self.store(frame, s_, t, v)
                outs.append(s_)
            return outs
        if isinstance(a, ast.AnnAssign):
            if a.value is None:
                return [st]
            return [self.store(frame, s_, a.target, v) for v, s_ in self.ev(frame, st, a.value)]
        if isinstance(a, ast.AugAssign):
            outs = []
            for cur, s1 in self.ev(frame, st, a.target):
                for v, s2 in self.ev(frame, s1, a.value):
                    outs.append(self.store(frame, s2, a.target, _arith(a.op, cur, v)))
            return outs
        if isinstance(a, ast.Expr):
            return [s_ for _, s_ in self.ev(frame, st, a.value)]
        if isinstance(a, ast.With):
            states = [st]
            for it in a.items:
                if _swallows(frame.module, it.context_expr):
                    raise _Bail("a context manager that swallows exceptions")
                states = [s2 for s1 in states for _, s2 in self.ev(frame, s1, it.context_expr)]
                if it.optional_vars is not None:
                    states = [self.store(frame, s1, it.optional_vars, _UNK) for s1 in states]
            return states
        if isinstance(a, ast.Raise):
            states = [st]
            for part in (a.exc, a.cause):
                if part is not None:
                    states = [s2 for s1 in states for _, s2 in self.ev(frame, s1, part)]
            self.side += states
            return []
        if isinstance(a, ast.Assert):
            return []           # the failing side of an assert: it raises
        if isinstance(a, ast.Delete):
            for t in a.targets:
                st = self.store(frame, st, t, _UNK)
            return [st]
        if isinstance(a, (ast.FunctionDef, ast.AsyncFunctionDef, ast.ClassDef)):
            return [st.bind(a.name, _UNK)]
        if isinstance(a, (ast.Import, ast.ImportFrom)):
            for al in a.names:
                st = st.bind((al.asname or al.name).split(".")[0], _UNK)
            return [st]
        if isinstance(a, (ast.Pass, ast.Break, ast.Continue)):
            return [st]
        if isinstance(a, ast.expr):           # the iterable of a for loop
            return [s_ for _, s_ in self.ev(frame, st, a)]
        raise _Bail(f"{a.__class__.__name__} is not modelled")

    def store(self, frame: _Frame, st: _WState, target: ast.AST, v) -> _WState:
        if isinstance(target, ast.Name):
            return st.bind(target.id, v)
        if isinstance(target, (ast.Tuple, ast.List)):
            stars = any(isinstance(t, ast.Starred) for t in target.elts)
            vals = list(v) if isinstance(v, tuple) and len(v) == len(target.elts) and not stars else \
                [x for _, x in v.fields] if isinstance(v, _RecVal) and v.is_tuple and len(v.fields) == len(target.elts) and not stars else None
            for i, t in enumerate(target.elts):
                st = self.store(frame, st, t.value if isinstance(t, ast.Starred) else t, vals[i] if vals is not None else _UNK)
            return st
        if _is_pending_expr(frame, target):
            return st.but(p=v if (type(v) is int or v is _POS) else _UNK)
        return st              # other attributes / items of the object are not tracked

    # -- expressions: [(value, state after evaluating)]
    def ev(self, frame: _Frame, st: _WState, e: ast.AST) -> list:  # noqa: C901, PLR0911, PLR0912
        e = strip_cast(e)
        if isinstance(e, ast.Constant):
            return [(_hashable(e.value), st)]
        if isinstance(e, ast.Name):
            return [(self.name(frame, st, e), st)]
        if isinstance(e, ast.NamedExpr):
            return [(v, self.store(frame, s_, e.target, v)) for v, s_ in self.ev(frame, st, e.value)]
        if isinstance(e, ast.Attribute):
            if _is_pending_expr(frame, e):
                return [(st.p, st)]
            m = _enum_member(frame.repo, frame.module, e)
            if m is not None:
                return [(m, st)]
            outs = []
            for b, s_ in self.ev(frame, st, e.value):
                if isinstance(b, _RecVal):
                    outs.append((b.get(e.attr), s_))
                elif isinstance(b, _EnumVal) and e.attr in ("name", "value"):
                    outs.append((b.name if e.attr == "name" else b.value, s_))
                else:
                    outs.append((_hashable(_ev(frame, e)), s_))          # a class level constant of the object / of a named class
            return outs
        if isinstance(e, ast.Call):
            return self.call(frame, st, e)
        if isinstance(e, ast.UnaryOp):
            outs = []
            for v, s_ in self.ev(frame, st, e.operand):
                if isinstance(e.op, ast.Not):
                    t = _truth(v)
                    outs.append((_UNK if t is None else not t, s_))
                elif isinstance(e.op, ast.USub) and type(v) is int:
                    outs.append((-v, s_))
                else:
                    outs.append((_UNK, s_))
            return outs
        if isinstance(e, ast.BoolOp):
            return self.boolop(frame, st, e, 0)
        if isinstance(e, ast.IfExp):
            outs = []
            for v, s_ in self.ev(frame, st, e.test):
                t = _truth(v)
                if t is not False:
                    outs += self.ev(frame, s_, e.body)
                if t is not True:
                    outs += self.ev(frame, s_, e.orelse)
            return outs
        if isinstance(e, ast.Compare):
            partial = [([], st)]
            for x in [e.left, *e.comparators]:
                partial = [([*vs, v], s2) for vs, s1 in partial for v, s2 in self.ev(frame, s1, x)]
            outs = []
            for vs, s_ in partial:
                res = [_compare(op, vs[i], vs[i + 1]) for i, op in enumerate(e.ops)]
                outs.append((False if any(r is False for r in res) else _UNK if any(r is _UNK for r in res) else True, s_))
            return outs
        if isinstance(e, (ast.Tuple, ast.List)):
            partial = [([], st)]
            starred = False
            for x in e.elts:
                starred = starred or isinstance(x, ast.Starred)
                partial = [([*vs, v], s2) for vs, s1 in partial for v, s2 in self.ev(frame, s1, x.value if isinstance(x, ast.Starred) else x)]
            return [(_UNK if starred else tuple(vs), s_) for vs, s_ in partial]
        if isinstance(e, ast.BinOp):
            return [(_arith(e.op, l, r), s2) for l, s1 in self.ev(frame, st, e.left) for r, s2 in self.ev(frame, s1, e.right)]
        if isinstance(e, ast.Subscript) and not isinstance(e.slice, ast.Slice):
            outs = []
            for b, s1 in self.ev(frame, st, e.value):
                for k, s2 in self.ev(frame, s1, e.slice):
                    if isinstance(b, _RecVal) and b.is_tuple:
                        b = tuple(x for _, x in b.fields)
                    outs.append((b[k] if isinstance(b, tuple) and type(k) is int and -len(b) <= k < len(b) else _UNK, s2))
            return outs
        # anything else has no value the walk needs; it must not hide a call the walk would have to follow
        for c in ast.walk(e):
            if isinstance(c, ast.Call) and self.matters(frame, st, c):
                raise _Bail(f"`{norm(c)[:60]}` inside {e.__class__.__name__}")
            if isinstance(c, ast.NamedExpr):
                st = self.store(frame, st, c.target, _UNK)
        return [(_UNK, st)]

    def boolop(self, frame: _Frame, st: _WState, e: ast.BoolOp, i: int) -> list:
        outs = []
        is_and = isinstance(e.op, ast.And)
        for v, s_ in self.ev(frame, st, e.values[i]):
            if i == len(e.values) - 1:
                outs.append((v, s_))
                continue
            t = _truth(v)
            if t is None:
                outs.append((_FALSY if is_and else _TRUTHY, s_))
                outs += self.boolop(frame, s_, e, i + 1)
            elif t is is_and:
                outs += self.boolop(frame, s_, e, i + 1)
            else:
                outs.append((v, s_))
        return outs

    def name(self, frame: _Frame, st: _WState, e: ast.Name):
        if e.id in st.env:
            return st.env[e.id]
        fi = frame.fi
        if id(fi.node) not in self.scopes:
            self.scopes[id(fi.node)] = _scope_names(fi)
        if e.id in self.scopes[id(fi.node)]:
            return _UNK                     # a local that has no value on this path
        if fi.node is not None and any(isinstance(x, (ast.FunctionDef, ast.AsyncFunctionDef, ast.Lambda)) for x in _ancestors(fi.node)):
            return _UNK                     # a free variable of a nested function
        return _hashable(_ev(_Frame(frame.repo, module=frame.module, cls=frame.cls), e))

    # -- calls
    def matters(self, frame: _Frame, st: _WState, c: ast.Call) -> bool:
        """the call is an event or runs code of the repository on the object"""
        return self.on_call(frame, c, st) is not None or bool(self.targets(frame, c)) or self.opaque_on_object(frame, c)

    def targets(self, frame: _Frame, c: ast.Call) -> list[FuncInfo]:
        h = _self_target(frame, c)
        if h is not None:
            return [h]
        picked = _picked_targets(frame, c)
        if picked:
            return [h for h, _ in picked]
        f = strip_cast(c.func)
        fi = frame.fi
        if isinstance(f, ast.Name) and f.id not in _scope_names(fi) and frame.module is not None:
            r = frame.repo.resolve_name(frame.module, f.id)
            return [r] if isinstance(r, FuncInfo) and r.cls is None else []
        if isinstance(f, ast.Attribute) and frame.cls is not None:
            b = f.value
            if isinstance(b, ast.Attribute) and b.attr == "__class__" and _is_self(frame, b.value):
                k = frame.cls
            elif isinstance(b, ast.Call) and chain(b.func) == "type" and len(b.args) == 1 and _is_self(frame, b.args[0]):
                k = frame.cls
            else:
                k = frame.repo.resolve_class_expr(frame.module, b) if isinstance(b, ast.Name) and b.id not in _scope_names(fi) else None
            if k is not None and (k is frame.cls or k in frame.cls.mro()):
                m = (frame.cls if k is frame.cls else k).lookup(f.attr)
                return [m] if m is not None else []
        return []

    def opaque_on_object(self, frame: _Frame, c: ast.Call) -> bool:
        """a call the walk cannot follow that is handed the object itself (it may do anything to the counter)"""
        f = strip_cast(c.func)
        if isinstance(f, ast.Attribute) and (_is_self(frame, f.value) or (isinstance(f.value, ast.Call) and chain(f.value.func) == "super")):
            return True
        if isinstance(f, ast.Name) and f.id in _scope_names(frame.fi) and f.id not in frame.fi.params():
            return True                       # a nested function / a callable held in a local: it may close over the object
        return any(_is_self(frame, x.value if isinstance(x, ast.Starred) else x) for x in [*c.args, *[k.value for k in c.keywords]])

    def call(self, frame: _Frame, st: _WState, c: ast.Call) -> list:  # noqa: C901, PLR0912
        f = strip_cast(c.func)
        # receiver and arguments, left to right
        parts: list[ast.AST] = []
        if isinstance(f, ast.Attribute):
            parts.append(f.value)
        elif not isinstance(f, ast.Name):
            parts.append(f)
        parts += [x.value if isinstance(x, ast.Starred) else x for x in c.args] + [k.value for k in c.keywords]
        partial = [({}, st)]
        for x in parts:
            partial = [({**vs, id(x): v}, s2) for vs, s1 in partial for v, s2 in self.ev(frame, s1, x)]
        outs = []
        for vals, s_ in partial:
            ev = self.on_call(frame, c, s_)
            if ev is not None:
                self.side += ev
                outs += [(_UNK, x) for x in ev]
                continue
            pure = self.builtin(frame, c, f, vals)
            if pure is not None:
                outs.append((pure[0], s_))
                continue
            ts = self.targets(frame, c)
            if not ts:
                if self.opaque_on_object(frame, c):
                    s_ = s_.but(p=_UNK)
                    self.side.append(s_)
                outs.append((_UNK, s_))
                continue
            for h in ts:
                outs += self.follow(frame, s_, c, h, vals)
        self.side += [x for _, x in outs]          # what follows in the same statement may still raise
        return outs

    def builtin(self, frame: _Frame, c: ast.Call, f: ast.AST, vals: dict):
        """(value,) of a call of a side-effect free builtin / of a result record constructor, else None"""
        if not isinstance(f, ast.Name) or f.id in _scope_names(frame.fi):
            return None
        plain = not c.keywords and not any(isinstance(x, ast.Starred) for x in c.args)
        args = [vals.get(id(x), _UNK) for x in c.args]
        if f.id == "bool" and plain and len(args) == 1:
            t = _truth(args[0])
            return (_UNK if t is None else t,)
        if f.id == "int" and plain and len(args) == 1 and (type(args[0]) in (int, bool) or args[0] is _POS):
            return (args[0] if args[0] is _POS else int(args[0]),)
        if f.id in ("max", "min") and plain and len(args) >= 2:
            if all(type(x) is int for x in args):
                return ((max if f.id == "max" else min)(args),)
            if f.id == "max" and all(type(x) is int or x is _POS for x in args):
                return (_POS,)
            return (_UNK,)
        if f.id in ("len", "isinstance", "issubclass", "str", "repr", "id", "hash", "type", "getattr", "hasattr", "callable", "tuple", "list", "set",
                    "frozenset", "dict", "sorted", "abs", "range", "enumerate", "zip", "any", "all", "sum", "print", "cast"):
            r = frame.repo.resolve_name(frame.module, f.id) if frame.module is not None else None
            return (_UNK,) if r is None else None
        k = frame.repo.resolve_class_expr(frame.module, f) if frame.module is not None else None
        if k is not None:
            rec = _record_fields(k)
            if rec is not None and not any(isinstance(x, ast.Starred) for x in c.args) and all(kw.arg is not None for kw in c.keywords):
                names, is_tuple = rec
                got = dict(zip(names, args))
                got.update({kw.arg: vals.get(id(kw.value), _UNK) for kw in c.keywords})
                defaults = {s_.target.id: s_.value for s_ in k.node.body if isinstance(s_, ast.AnnAssign) and isinstance(s_.target, ast.Name) and s_.value is not None}
                fields = []
                for nme in names:
                    if nme in got:
                        fields.append((nme, _hashable(got[nme])))
                    elif nme in defaults:
                        fields.append((nme, _hashable(_ev(_Frame(frame.repo, module=k.module, cls=k), defaults[nme]))))
                    else:
                        return None
                if len(c.args) <= len(names) and set(got) <= set(names):
                    return (_RecVal(k.name, tuple(fields), is_tuple),)
        return None

    def follow(self, frame: _Frame, st: _WState, c: ast.Call, h: FuncInfo, vals: dict) -> list:
        """run h for this call: its parameters get the values of the arguments, the counter and the flags go in and come back out"""
        if any(isinstance(x, (ast.Yield, ast.YieldFrom)) for x in walk_no_nested(h.node)):
            raise _Bail(f"{h.qualname} is a generator")
        call = c
        f = strip_cast(c.func)
        decs = [d.split(".")[-1] for d in h.decorator_names()]
        if h.cls is not None and "staticmethod" not in decs and "classmethod" not in decs and isinstance(f, ast.Attribute) and not _is_self(frame, f.value) \
                and _self_target(frame, c) is None and not _picked_targets(frame, c):
            # Cls.method(obj, ...): the first argument is the receiver
            if not c.args or isinstance(c.args[0], ast.Starred):
                raise _Bail("unbound call without receiver")
            call = ast.Call(func=ast.Attribute(value=c.args[0], attr=f.attr, ctx=ast.Load()), args=list(c.args[1:]), keywords=list(c.keywords))
        elif h.cls is not None and "staticmethod" not in decs and not isinstance(f, ast.Attribute):
            # a method of the object called through a local alias / picked by a conditional expression
            if frame.fi.cls is None or "self" not in frame.fi.params():
                raise _Bail("method called through a value outside a method of the object")
            call = ast.Call(func=ast.Attribute(value=ast.Name(id="self", ctx=ast.Load()), attr=h.name, ctx=ast.Load()), args=list(c.args), keywords=list(c.keywords))
        sub = _bind_call(frame, call, h)
        sub.call = c
        env: dict = {}
        for pname in h.params():
            env[pname] = _UNK
            if pname in sub.binds:
                x, fr = sub.binds[pname]
                if fr is frame:
                    if id(x) in vals:
                        env[pname] = vals[id(x)]
                    elif isinstance(x, ast.Tuple) and all(id(y) in vals for y in x.elts):          # *rest
                        env[pname] = tuple(vals[id(y)] for y in x.elts)
                else:
                    env[pname] = _hashable(_ev(fr, x))            # a default value
        saved = self.side, self.thrown
        normal, raised = self.run(sub, _WState(st.p, st.flags, {k: _hashable(v) for k, v in env.items()}))
        self.side = saved[0] + [st.but(p=s_.p, flags=s_.flags) for s_ in raised]
        self.thrown = saved[1] + len(raised)
        return [(s_.ret, st.but(p=s_.p, flags=s_.flags)) for s_ in normal]


def _ancestors(node: ast.AST):
    p_ = parent(node)
    while p_ is not None:
        yield p_
        p_ = parent(p_)


def _commit_walk(ctx: Ctx, fi: FuncInfo, p) -> tuple[list[_WState], list[_WState]]:
    """all paths through fi entered with counter value p; the flag "done" says that connection.commit() completed on the path"""
    return _PathWalk(ctx, lambda fr, c, st: [st.flag("done")] if _is_real_commit_at(fr, c) else None).function(fi, p)


def _walk_commits_when_idle(ctx: Ctx, cm: FuncInfo) -> bool:
    """proved path by path: commit() entered while no commits are pending cannot return normally without having completed
    connection.commit() - whatever flag, tag, result object or callee carries the decision"""
    try:
        normal, _ = _commit_walk(ctx, cm, 0)
    except (_Bail, AnalysisError, RecursionError, AttributeError, TypeError, KeyError, IndexError, ValueError):          # no proof
        return False
    return bool(normal) and all("done" in s_.flags for s_ in normal)


def _walk_true_only_after_commit(ctx: Ctx, cm: FuncInfo) -> bool:
    """proved path by path (counter zero / non-zero at entry): a path that returns a possibly true value completed connection.commit()"""
    try:
        outs = [s_ for p in (0, _POS) for s_ in _commit_walk(ctx, cm, p)[0]]
    except (_Bail, AnalysisError, RecursionError, AttributeError, TypeError, KeyError, IndexError, ValueError):          # no proof
        return False
    return bool(outs) and all("done" in s_.flags or _truth(s_.ret) is False for s_ in outs)


def _walk_enter_keeps(ctx: Ctx, en: FuncInfo) -> bool:
    """proved path by path: __enter__ entered with n > 0 deferred commits leaves a counter >= n (the marker for n survives only being
    kept, added to or max()-ed), entered with 0 it leaves a counter >= 0"""
    try:
        w = _PathWalk(ctx, lambda fr, c, st: None)
        zero, some = w.function(en, 0)[0], w.function(en, _POS)[0]
    except (_Bail, AnalysisError, RecursionError, AttributeError, TypeError, KeyError, IndexError, ValueError):          # no proof
        return False
    return bool(zero) and bool(some) and all(s_.p is _POS or (type(s_.p) is int and s_.p >= 0) for s_ in zero) and all(s_.p is _POS for s_ in some)


def _walk_counter_zero_after(ctx: Ctx, fi: FuncInfo, starts: tuple) -> bool:
    """proved path by path: whatever the counter was (one walk per start value), every normal return of fi leaves it at 0"""
    try:
        w = _PathWalk(ctx, lambda fr, c, st: None)
        outs = [w.function(fi, p)[0] for p in starts]
    except (_Bail, AnalysisError, RecursionError, AttributeError, TypeError, KeyError, IndexError, ValueError):          # no proof
        return False
    return all(outs) and all(type(s_.p) is int and s_.p == 0 for o in outs for s_ in o)


def _walk_flag_runs(ctx: Ctx, fi: FuncInfo, flag: str, method: str) -> bool:
    """proved path by path: fi called with <flag>=True cannot return normally without having run self.<method>()"""
    try:
        w = _PathWalk(ctx, lambda fr, c, st: [st.flag("ran")] if _runs_own_method(fr, c, (method,)) is not None else None)
        normal, _ = w.function(fi, _UNK, params={flag: True})
    except (_Bail, AnalysisError, RecursionError, AttributeError, TypeError, KeyError, IndexError, ValueError):          # no proof
        return False
    return bool(normal) and all("ran" in s_.flags for s_ in normal)


def _walk_close_commits_first(ctx: Ctx, cl: FuncInfo) -> bool:
    """proved path by path: close(commit=True) runs self.commit() on every normal path, and before anything else is closed"""
    def event(fr: _Frame, c: ast.Call, st: _WState):
        if _is_own_commit(fr, c):
            return [st.flag("committed")]
        if call_name(c) == "close" and isinstance(c.func, ast.Attribute) and not _is_self(fr, c.func.value):
            return [st if "committed" in st.flags else st.flag("closed-early")]
        return None
    try:
        normal, _ = _PathWalk(ctx, event).function(cl, _UNK, params={"commit": True})
    except (_Bail, AnalysisError, RecursionError, AttributeError, TypeError, KeyError, IndexError, ValueError):          # no proof
        return False
    return bool(normal) and all("committed" in s_.flags and "closed-early" not in s_.flags for s_ in normal)


def _runs_named(frame: _Frame, c: ast.Call, name: str) -> bool:
    """the call runs <some object>.<name>(...): directly, through a bound-method alias, functools.partial or operator.methodcaller"""
    f = strip_cast(c.func)
    if isinstance(f, ast.Name) and frame.fi is not None and (local_defs(frame.fi, f.id) or f.id in frame.binds):
        f, fr = _deref(frame, f)
    else:
        fr = frame
    if isinstance(f, ast.Attribute):
        return f.attr == name
    if isinstance(f, ast.Call) and f.args:
        q = (chain(f.func) or "").split(".")[-1]
        if q == "partial":
            g, _ = _deref(fr, f.args[0]) if fr.fi is not None else (f.args[0], fr)
            return isinstance(g, ast.Attribute) and g.attr == name
        if q == "methodcaller":
            return const_value(f.args[0]) == name
    return False


def _walk_order(ctx: Ctx, fi: FuncInfo, first: str, then: str) -> bool:
    """proved path by path: <then>() is reached at least once, and never (not even on a path that ends in an exception) before <first>()
    has returned"""
    def event(fr: _Frame, c: ast.Call, st: _WState):
        if _runs_named(fr, c, first):
            return [st.flag("first")]
        if _runs_named(fr, c, then):
            return [st.flag("then") if "first" in st.flags else st.flag("then").flag("early")]
        return None
    try:
        normal, raised = _PathWalk(ctx, event).function(fi, _UNK)
    except (_Bail, AnalysisError, RecursionError, AttributeError, TypeError, KeyError, IndexError, ValueError):          # no proof
        return False
    return any("then" in s_.flags for s_ in normal) and not any("early" in s_.flags for s_ in [*normal, *raised])


def _walk_clean_at_return(ctx: Ctx, fi: FuncInfo, is_write) -> bool:
    """proved path by path: no normal path through fi (and the helpers of the object it calls) returns after a statement with
    is_write(site) without a self.commit() after it"""
    def event(fr: _Frame, c: ast.Call, st: _WState):
        how = _exec_call(fr, c)
        if how is not None:
            site = _Site(fr, c, how)
            if is_write(site):
                return [st.flag("dirty")]
            if site.text is None:
                raise _Bail("unreadable statement")
            return [st]
        how = _runs_own_method(fr, c, ("commit",))
        if how is not None:
            if how[1] or how[2] or (how[3] is True and (c.args or c.keywords)) or (how[3] == "skip-first" and (len(c.args) > 1 or c.keywords)):
                raise _Bail("commit with arguments")
            return [st.flag("dirty", False)]
        return None
    try:
        normal, _ = _PathWalk(ctx, event).function(fi, _UNK)
    except (_Bail, AnalysisError, RecursionError, AttributeError, TypeError, KeyError, IndexError, ValueError):          # no proof
        return False
    return bool(normal) and not any("dirty" in s_.flags for s_ in normal)


def _returns_true_only_after(ctx: Ctx, cm: FuncInfo, reported: bool = False) -> None:
    """commit() reports success (a true value) only on paths that completed connection.commit()"""
    verdict, where = _success_only_after_commit(ctx, _top(ctx, cm))
    if verdict is not True and _walk_true_only_after_commit(ctx, cm):
        verdict, where = True, None
    if verdict is None and reported:
        ctx.note("Database.commit: the returned value could not be read; the violation found in the same function is reported instead")
        return
    if verdict is None:
        raise AnalysisError(f"undecided: cannot tell whether `{norm(where)}` in Database.commit reports success only after connection.commit()")
    ctx.check(verdict, "no-deferred-commit", cm, where if where is not None else cm.node,
              "commit() returns True only after connection.commit()", "commit() reports success without committing")


def rule_no_deferred(ctx: Ctx) -> None:
    _G["repo"] = ctx.repo
    repo = ctx.repo
    dbcls = repo.cls("Database", DB)
    n_with = 0
    for m in repo.modules.values():
        for node in ast.walk(m.tree):
            if isinstance(node, (ast.With, ast.AsyncWith)):
                n_with += 1
                for it in node.items:
                    e = strip_cast(it.context_expr)
                    fi = repo.function_of(node)
                    t = repo.type_of_expr(fi, e) if fi is not None else None
                    looks = (chain(e) or "").split(".")[-1] in ("database", "db", "_database") or (t is not None and (t is dbcls or t.is_subclass_of("Database")))
                    if isinstance(e, ast.Name) and e.id == "self" and fi is not None and fi.cls is not None and fi.cls.is_subclass_of("Database"):
                        looks = True
                    ctx.check(not looks, "no-deferred-commit", fi or m.relpath, node, "no `with <database>:` block (commits are never deferred)",
                              "a `with database:` block defers commit(): inserts inside it return before their data is committed")
    ctx.floor("no-deferred-commit.with-statements-scanned", n_with, 20)
    # _pending_commits only in the deferral mechanism
    allowed = ("Database.__init__", "Database.__enter__", "Database.__exit__", "Database.commit")
    for m, fi, a in repo.attribute_uses("_pending_commits"):
        if isinstance(a.ctx, ast.Store):
            ctx.check(fi is not None and (fi.qualname in allowed or _private_part_of(ctx, fi, allowed)), "no-deferred-commit",
                      fi or m.relpath, enclosing_stmt(a), "_pending_commits written only by __init__/__enter__/__exit__/commit", "_pending_commits is set elsewhere: commits can be deferred silently")
    # leaving a `with database:` block always ends the deferral, also when the body raised
    ex_ = repo.method("Database", "__exit__", DB)
    cfge = ctx.cfg(ex_)
    resets = _nodes_doing(ctx, _top(ctx, ex_), lambda fr: [s_ for s_, v in _stored_values(fr.fi, PENDING) if _is_int(v, fr.fi) == 0])
    ok = bool(resets) and cfge.exit not in cfge.reach(cut_nodes=resets, follow_exc=False)
    ok = ok or _walk_counter_zero_after(ctx, ex_, (0, _POS))
    if not ok:
        # every path stores something into the counter, but what is stored cannot be read: no verdict rather than an alarm
        unread = _nodes_doing(ctx, _top(ctx, ex_), lambda fr: [s_ for s_, v in _stored_values(fr.fi, PENDING) if _is_int(v, fr.fi) is None])
        if unread and cfge.exit not in cfge.reach(cut_nodes=[*resets, *unread], follow_exc=False):
            raise AnalysisError(f"undecided: cannot read what `{norm(unread[0].ast)[:80]}` stores into _pending_commits when Database.__exit__ leaves the block")
    ctx.check(ok, "no-deferred-commit", ex_, ex_.node, "__exit__ resets _pending_commits to 0 on every path (also when the body raised)",
              "a `with database:` block whose body raises leaves the database in deferred-commit mode: every later insert returns without being committed")
    init = repo.method("Database", "__init__", DB)
    iv = [(fr.fi, v) for fr in _all_frames(_top(ctx, init)) for _, v in _stored_values(fr.fi, PENDING)]
    ok = bool(iv) and all(_is_int(v, g) == 0 for g, v in iv)
    ok = ok or _walk_counter_zero_after(ctx, init, (_UNK,))
    ctx.check(ok, "no-deferred-commit", init, init.node, "_pending_commits starts at 0", "databases start in deferred-commit mode")
    _enter_keeps_pending(ctx)
    cm = repo.method("Database", "commit", DB)
    cfg = ctx.cfg(cm)
    top = _top(ctx, cm)
    real = _real_commits(top)
    ctx.anchor(real, "connection.commit() in Database.commit")
    n_before = len(ctx.findings)
    for fr, c in real:
        # the guards of every level of the call chain (commit() itself and the helper the real commit may have moved into)
        levels = [*fr.chain_calls(), (fr, c)]
        fs, zero, other, unread = [], False, [], []
        for lf, lc, f in _level_facts(ctx, fr, c):
            fs.append(f)
            if _pending_is_zero(f, lf.fi, ctx.cfg(lf.fi), lc):
                zero = True
                continue
            d = _decision_means_zero(ctx, lf, f)
            if d is True:
                zero = True
            elif d is None:
                unread.append(f)
            else:
                other.append(f)
        guarded = zero and not other
        if not guarded:
            # the decision may sit in a flag / tag / result object / callee: decide it path by path
            guarded = _walk_commits_when_idle(ctx, cm)
        if unread and not other and not guarded:
            raise AnalysisError(f"undecided: cannot read the decision `{unread[0]}` that guards connection.commit() in Database.commit")
        ctx.check(guarded, "no-deferred-commit", cm, levels[0][1],
                  "connection.commit() runs whenever no commits are pending", "Database.commit() skips the real commit for another reason than a pending with-block", [str(f) for f in fs])
        ctx.check(_exc_escapes(ctx.cfg(fr.fi), c) and all(_exc_escapes(ctx.cfg(lf.fi), lc) for lf, lc in levels), "no-deferred-commit", fr.fi, c,
                  "a failing connection.commit() raises out of Database.commit()",
                  "Database.commit() catches the exception of a failing connection.commit() and returns normally: no caller looks at the return value, so "
                  "insert_token/insert_metadata/insert_attestation return although nothing was made durable, and a kill afterwards loses a record whose insert call had returned")
    _returns_true_only_after(ctx, cm, reported=len(ctx.findings) > n_before)
    _wrapper_runs_body(ctx, cm, "no-deferred-commit")
    cl = repo.method("Database", "close", DB)
    cfgc = ctx.cfg(cl)
    topc = _top(ctx, cl)
    cmt = _calls_through(topc, lambda fr, c: c in _commit_calls(fr))
    ok = bool(cmt)
    for fr, c in cmt:
        ok = ok and any(_flag_fact(ctx, lf, f, "commit", exact=False) for lf, _, f in _level_facts(ctx, fr, c))
    # nothing that closes the cursor / connection (here or in a helper) can run before the commit
    clos = _nodes_maybe(ctx, topc, lambda fr, c: call_name(c) == "close" and not _is_self(fr, c.func.value if isinstance(c.func, ast.Attribute) else None))
    after_close = cfgc.reach([v for n in clos for v, lab in n.succ])
    ok = ok and all(not any(x in after_close for x in cfgc.nodes_for(fr.chain_calls()[0][1] if fr.caller is not None else c)) for fr, c in cmt)
    ok = ok or _walk_close_commits_first(ctx, cl)
    d = {a.arg: const_value(v) for a, v in zip(cl.node.args.args[-len(cl.node.args.defaults):], cl.node.args.defaults)} if cl.node.args.defaults else {}
    d.update({a.arg: const_value(v) for a, v in zip(cl.node.args.kwonlyargs, cl.node.args.kw_defaults) if v is not None})
    ok = ok and d.get("commit") is True
    ctx.check(ok, "no-deferred-commit", cl, cl.node, "close(commit=True) commits before closing the connection", "close() does not commit before closing")


def _members(e: ast.AST | None):
    """constant members of a tuple / list / set literal"""
    if isinstance(e, (ast.Tuple, ast.List, ast.Set)):
        vals = [const_value(x) for x in e.elts]
        if all(isinstance(v, (str, int)) for v in vals):
            return set(vals)
    return None


# ------------------------------------------------------------------------------------------------------------------
# Journal / synchronous settings: a small abstract interpretation of Database._initial_statements (and the helpers of the
# same object it calls) over the states (what the database is set to, what the local that mirrors it is known to hold).

_PRAGMA_SET = re.compile(r"\s*PRAGMA\s+(\w+)\s*=\s*(\w+)", re.I)
_TRACKED = {"journal_mode": "journal", "synchronous": "sync"}


def _stmt_texts(frame: _Frame, c: ast.Call) -> list[str] | None:
    """statement text(s) an execute call runs: one, or one per row when the statement is the loop variable of a literal table"""
    a = arg(c, 0, "statement")
    a = a if a is not None else arg(c, 0, "statements")
    if a is None:
        return None
    t = _text(frame, a)
    if t is not None:
        return [t]
    b, fr = _deref(frame, a)
    rows = _loop_row_values(fr, b)
    if rows is not None:
        ts = [_text(fr, r) for r in rows]
        return None if any(x is None for x in ts) else ts
    return None


def _is_exec(c: ast.Call) -> bool:
    return call_name(c) in _EXEC and isinstance(c.func, ast.Attribute)


def _pragma_sets(frame: _Frame, c: ast.Call) -> list[tuple[str, str]]:
    out = []
    for t in _stmt_texts(frame, c) or []:
        for m in _PRAGMA_SET.finditer(t) if call_name(c) == "executescript" else filter(None, [_PRAGMA_SET.match(t)]):
            out.append((m.group(1).lower(), m.group(2).upper()))
    return out


def _mentions_query(e: ast.AST | None, key: str) -> bool:
    """the expression reads the setting from the database (`PRAGMA journal_mode` without `=`)"""
    if e is None:
        return False
    for n in ast.walk(e):
        if isinstance(n, ast.Constant) and isinstance(n.value, str) and re.search(r"PRAGMA\s+" + key + r"\s*(?!\s*=)\s*$", n.value.strip(), re.I):
            return True
        if isinstance(n, ast.Constant) and n.value == key:
            return True
    return False


def _tracked_kind(frame: _Frame, e: ast.AST) -> str | None:
    """"journal" / "sync": e is the local that mirrors that setting (recognised by where its value comes from, else by its reviewed name);
    "file": e is self._file_path"""
    b, fr = strip_cast(e), frame
    for _ in range(8):
        if isinstance(b, ast.Name) and fr.fi is not None:
            for key, kind in _TRACKED.items():
                if any(_mentions_query(v, key) for _, v, _ in local_defs(fr.fi, b.id)):
                    return kind
        nb, nfr = _deref(fr, b, 1)
        if nb is b:
            break
        b, fr = nb, nfr
    if isinstance(b, ast.Attribute) and b.attr == "_file_path" and _is_self(fr, b.value):
        return "file"
    if isinstance(b, ast.Name):
        return _TRACKED.get(b.id)
    return None


def _const_set(frame: _Frame, e: ast.AST) -> frozenset | None:
    v = _ev(frame, e)
    if isinstance(v, tuple) and all(isinstance(x, (str, int)) for x in v):
        return frozenset(v)
    e2, fr = _deref(frame, e)
    if isinstance(e2, ast.Set):
        vals = [_ev(fr, x) for x in e2.elts]
        return frozenset(vals) if all(isinstance(x, (str, int)) for x in vals) else None
    return None


def _fact_test(frame: _Frame, f) -> tuple[str, bool, frozenset] | None:
    """(kind, member?, values): the fact says that the tracked value is (not) one of the values"""
    if f.op == "eq":
        for a, b in ((f.left, f.right), (f.right, f.left)):
            v = _ev(frame, b)
            k = _tracked_kind(frame, a)
            if isinstance(v, (str, int)) and not isinstance(v, bool) and k is not None:
                return k, f.pos, frozenset([v])
    if f.op == "in":
        k = _tracked_kind(frame, f.left)
        s_ = _const_set(frame, f.right)
        if k is not None and s_ is not None:
            return k, f.pos, s_
    return None


def _refine(k, member: bool, vals: frozenset):
    """knowledge k = None | (True, allowed values) | (False, excluded values) narrowed by a test; "no" when the test cannot hold"""
    if k is None:
        return (member, vals)
    inc, a = k
    if inc:
        r = a & vals if member else a - vals
        return (True, r) if r else "no"
    if member:
        r = vals - a
        return (True, r) if r else "no"
    return (False, a | vals)


class _PragmaWalk:
    """All normal paths through _initial_statements for a file database, with the conditions on the tracked locals evaluated."""

    def __init__(self, ctx: Ctx, top: _Frame) -> None:
        self.ctx = ctx
        self.top = top
        self.steps = 0
        self.found: dict = {}                 # pragma statements met on the way: (call, call chain) -> (frame, call, [(key, value)])
        self.unread: list = []                # tests on the answer of a helper that looks at the settings and whose answer could not be followed

    @staticmethod
    def start() -> dict:
        st = {"ent": frozenset(), "ret": None, "last": None, "dec": frozenset()}          # dec: locals holding a decision (constant / Enum member) on this path
        for kind in ("journal", "sync"):
            st[kind] = (None, None, False)          # (database setting, mirror local, local is known to equal the setting)
        return st

    @staticmethod
    def key(st: dict):
        return tuple(sorted(st.items(), key=lambda kv: kv[0]))

    def run(self, frame: _Frame, st0: dict) -> list[dict]:
        cfg = self.ctx.cfg(frame.fi)
        seen, outs, okeys = set(), [], set()
        todo = [(cfg.entry, st0)]
        while todo:
            n, st = todo.pop()
            k = (n.id, self.key(st))
            if k in seen:
                continue
            seen.add(k)
            self.steps += 1
            if self.steps > 20000:
                raise AnalysisError("undecided: too many paths through Database._initial_statements")
            if n is cfg.exit:
                if self.key(st) not in okeys:
                    okeys.add(self.key(st))
                    outs.append(st)
                continue
            for st2 in self.effect(frame, cfg, n, st):
                for v, lab in n.succ:
                    if lab == "exc":
                        continue
                    st3 = self.edge(frame, n, lab, st2)
                    if st3 is not None:
                        todo.append((v, st3))
        return outs

    # -- what a node does
    def effect(self, frame: _Frame, cfg, n, st: dict) -> list[dict]:
        a = n.ast
        if n.kind not in ("stmt", "cond") or a is None:
            return [st]
        if isinstance(a, (ast.With, ast.AsyncWith)):
            parts = [i.context_expr for i in a.items]
        elif isinstance(a, (ast.FunctionDef, ast.AsyncFunctionDef, ast.ClassDef)):
            parts = []
        else:
            parts = [a]
        cs = sorted((c for p_ in parts for c in walk_no_nested(p_) if isinstance(c, ast.Call)),
                    key=lambda c: (getattr(c, "end_lineno", 0) or 0, getattr(c, "end_col_offset", 0) or 0))
        states = [dict(st, ret=None)]
        for c in cs:
            if _is_exec(c):
                # a statement text built from a mirrored local is read with the value the local has on this path
                known = {}
                for x in ast.walk(c):
                    if isinstance(x, ast.Name) and x.id not in known:
                        kd = _tracked_kind(frame, x)
                        for s_ in states[:1]:
                            var = s_[kd][1] if kd in ("journal", "sync") else None
                            if len(states) == 1 and var is not None and var[0] and len(var[1]) == 1:
                                known[x.id] = next(iter(var[1]))
                sets = _pragma_sets(frame.with_vals(known) if known else frame, c)
                self.found.setdefault((id(c), tuple(id(k) for _, k in frame.chain_calls())), (frame, c, sets))
                for key, val in sets:
                    kind = _TRACKED.get(key)
                    if kind is not None:
                        states = [self.set_db(s_, kind, val, c) for s_ in states]
                continue
            h = _self_target(frame, c)
            if h is None or h.is_async or frame.depth() >= _MAX_FRAMES or not self.relevant(_bind_call(frame, c, h)):
                continue
            nxt = []
            for s_ in states:
                nxt += [dict(o, dec=s_["dec"]) for o in self.run(_bind_call(frame, c, h), dict(s_, ret=None, dec=frozenset()))]
            states = nxt
        if isinstance(a, ast.Return):
            outs = []
            for s_ in states:
                r = self.value_of(frame, a.value, s_)
                if r is None and a.value is not None:
                    d = self.dec_value(frame, a.value, s_)
                    r = ("dec", d) if d is not _UNK else None
                outs.append(dict(s_, ret=r))
            states = outs
        elif isinstance(a, (ast.Assign, ast.AnnAssign, ast.AugAssign, ast.NamedExpr)) or any(isinstance(x, ast.NamedExpr) for x in walk_no_nested(a)):
            states = [self.assign(frame, a, self.decide(frame, a, s_)) for s_ in states]
        elif n.kind == "stmt":
            states = [self.forget(a, s_) for s_ in states]
        return states

    # -- decisions kept in locals: `plan = _Plan.SWITCH` on one branch, `if plan is _Plan.SWITCH:` later
    def dec_value(self, frame: _Frame, e: ast.AST | None, st: dict):
        """constant / Enum member this expression is known to have on the path, else _UNK"""
        if e is None:
            return _UNK
        e = strip_cast(e)
        if isinstance(e, ast.Name) and frame.fi is not None and e.id in _scope_names(frame.fi):
            return dict(st["dec"]).get(e.id, _UNK)
        m = _enum_member(frame.repo, frame.module, e)
        if m is not None:
            return m
        if isinstance(e, ast.Call) and st.get("ret") is not None and st["ret"][0] in ("dec", "const") and frame.fi is not None and _self_target(frame, e) is not None:
            return st["ret"][1]
        if isinstance(e, ast.UnaryOp) and isinstance(e.op, ast.Not):
            t = _truth(self.dec_value(frame, e.operand, st))
            return _UNK if t is None else not t
        if isinstance(e, ast.Compare) and len(e.ops) == 1:
            l, r = self.dec_value(frame, e.left, st), self.dec_value(frame, e.comparators[0], st)
            return _UNK if l is _UNK or r is _UNK else _compare(e.ops[0], l, r)
        if isinstance(e, ast.BoolOp):
            vals = [_truth(self.dec_value(frame, x, st)) for x in e.values]
            stop = not isinstance(e.op, ast.And)
            if any(v is stop for v in vals) and all(v is not None for v in vals[:vals.index(stop)]):
                return stop
            return (not stop) if all(v is (not stop) for v in vals) else _UNK
        if isinstance(e, (ast.Constant, ast.Tuple)):
            v = _ev(frame, e)
            return _hashable(v) if v is not _UNK else _UNK
        return _UNK

    def decide(self, frame: _Frame, a: ast.AST, st: dict) -> dict:
        """`name = <decision>`: remember it; any other binding of a name forgets what was known about it"""
        dec = dict(st["dec"])
        simple = a.targets[0] if isinstance(a, ast.Assign) and len(a.targets) == 1 else a.target if isinstance(a, ast.AnnAssign) else None
        value = a.value if isinstance(a, (ast.Assign, ast.AnnAssign)) else None
        v = self.dec_value(frame, value, st) if isinstance(simple, ast.Name) and value is not None else _UNK
        for x in walk_no_nested(a):
            if isinstance(x, ast.Name) and isinstance(x.ctx, (ast.Store, ast.Del)):
                dec.pop(x.id, None)
        if isinstance(simple, ast.Name) and v is not _UNK:
            dec[simple.id] = v
        return dict(st, dec=frozenset(dec.items()))

    @staticmethod
    def forget(a: ast.AST, st: dict) -> dict:
        bound = {x.id for x in walk_no_nested(a) if isinstance(x, ast.Name) and isinstance(x.ctx, (ast.Store, ast.Del))}
        if isinstance(a, (ast.With, ast.AsyncWith)):
            bound = {x.id for it in a.items if it.optional_vars is not None for x in ast.walk(it.optional_vars) if isinstance(x, ast.Name)}
        return dict(st, dec=frozenset((k, v) for k, v in st["dec"] if k not in bound)) if bound and st["dec"] else st

    def relevant(self, frame: _Frame) -> bool:
        if _calls_through(frame, lambda fr, c: _is_exec(c)):
            return True
        return any(isinstance(r, ast.Return) and r.value is not None and (_tracked_kind(frame, r.value) in ("journal", "sync")) for r in walk_no_nested(frame.fi.node))

    @staticmethod
    def set_db(st: dict, kind: str, val: str, c: ast.Call) -> dict:
        _, v, _ = st[kind]
        know = (True, frozenset([val]))
        return dict(st, **{kind: (know, v, v == know), "last": (kind, val)})

    def value_of(self, frame: _Frame, e: ast.AST | None, st: dict):
        """("const", c) / ("var", kind) / ("query", kind) / ("self", kind) / None for an assigned or returned value"""
        if e is None:
            return None
        v = _ev(frame, e)
        if isinstance(v, (str, int)) and not isinstance(v, bool):
            return ("const", v)
        k = _tracked_kind(frame, e)
        if k in ("journal", "sync"):
            return ("var", k)
        for key, kind in _TRACKED.items():
            if _mentions_query(e, key):
                return ("query", kind)
        if isinstance(strip_cast(e), ast.Call) and st.get("ret") is not None and _self_target(frame, strip_cast(e)) is not None:
            return st["ret"]
        return None

    def assign(self, frame: _Frame, a: ast.AST, st: dict) -> dict:
        pairs: list[tuple[ast.AST, ast.AST | None]] = []
        if isinstance(a, ast.Assign):
            for t in a.targets:
                if isinstance(t, (ast.Tuple, ast.List)) and isinstance(a.value, (ast.Tuple, ast.List)) and len(t.elts) == len(a.value.elts) \
                        and not any(isinstance(x, ast.Starred) for x in [*t.elts, *a.value.elts]):
                    pairs += list(zip(t.elts, a.value.elts))
                elif isinstance(t, (ast.Tuple, ast.List)):
                    pairs += [(x, None) for x in t.elts]
                else:
                    pairs.append((t, a.value))
        elif isinstance(a, ast.AnnAssign) and a.value is not None:
            pairs.append((a.target, a.value))
        elif isinstance(a, ast.AugAssign):
            pairs.append((a.target, None))
        for x in walk_no_nested(a):
            if isinstance(x, ast.NamedExpr):
                pairs.append((x.target, x.value))
        for t, v in pairs:
            if not isinstance(t, ast.Name) or frame.fi is None:
                continue
            kind = None
            for key, kd in _TRACKED.items():
                if any(_mentions_query(dv, key) for _, dv, _ in local_defs(frame.fi, t.id)) or t.id == key:
                    kind = kd
            if kind is None or t.id in frame.fi.params() and t.id in frame.binds and not local_defs(frame.fi, t.id):
                continue
            db, var, same = st[kind]
            val = self.value_of(frame, v, st) if v is not None else None
            if val is None:
                # a value derived from the local itself (bytes -> upper-case text) still mirrors the setting
                keeps = v is not None and any(isinstance(x, ast.Name) and x.id == t.id for x in ast.walk(v)) and not any(
                    isinstance(x, ast.Call) and _is_exec(x) for x in ast.walk(v))
                st = dict(st, **{kind: (db, var, same) if keeps else (db, None, False)})
            elif val[0] == "const":
                know = (True, frozenset([val[1]]))
                st = dict(st, **{kind: (db, know, db == know)})
            elif val[0] == "query" and val[1] == kind:
                st = dict(st, **{kind: (db, db, True)})
            elif val[0] == "var" and val[1] == kind:
                pass
            else:
                st = dict(st, **{kind: (db, None, False)})
        return dict(st, ret=None)

    # -- which edges can be taken
    def edge(self, frame: _Frame, n, lab, st: dict) -> dict | None:
        if n.kind == "loop" and isinstance(n.ast, (ast.For, ast.AsyncFor)):
            it, _ = _deref(frame, n.ast.iter)
            if lab is True and st["dec"]:
                st = self.forget(n.ast.target, st)
            if isinstance(it, (ast.Tuple, ast.List)) and it.elts and not any(isinstance(x, (ast.Break, ast.Return)) for x in walk_no_nested(n.ast)):
                # a loop over a non-empty literal runs its body (once per row: the effects of all rows are applied together)
                if lab is True:
                    return None if n.id in st["ent"] else dict(st, ent=st["ent"] | {n.id})
                if lab is False:
                    return st if n.id in st["ent"] else None
            return st
        if n.kind != "cond" or lab not in (True, False) or n.ast is None:
            return st
        t = _fact_test(frame, fact_of(n.ast, lab))
        if t is None:
            if frame.binds:
                # a test on a parameter bound to a constant by the call this frame stands for (a flag handed down by the caller)
                v = _ev(frame, n.ast)
                if v is not _UNK and bool(v) != lab:
                    return None
            d = _truth(self.dec_value(frame, n.ast, st))          # a test on a decision made earlier on this path
            if d is not None and d != lab:
                return None
            if d is None and frame.fi is not None:
                for c in walk_no_nested(n.ast):
                    h = _self_target(frame, c) if isinstance(c, ast.Call) and not _is_exec(c) else None
                    if h is not None and not h.is_async and frame.depth() < _MAX_FRAMES and any(
                            _tracked_kind(_bind_call(frame, c, h), x) is not None for x in walk_no_nested(h.node) if isinstance(x, (ast.Name, ast.Attribute))):
                        self.unread.append(c)
            return st
        kind, member, vals = t
        if kind == "file":
            # only file databases are of interest: the branch taken for ":memory:" is not followed
            return None if member and ":memory:" in vals else st
        db, var, same = st[kind]
        nv = _refine(var, member, vals)
        if nv == "no":
            return None
        nd = db
        if same:
            nd = _refine(db, member, vals)
            if nd == "no":
                return None
        return dict(st, **{kind: (nd, nv, same)})


def rule_pragmas(ctx: Ctx) -> None:
    _G["repo"] = ctx.repo
    repo = ctx.repo
    fi = repo.method("Database", "_initial_statements", DB)
    top = _top(ctx, fi)
    if [p_ for p_ in fi.params() if p_ not in ("self", "cls")]:
        # it takes arguments now (the `if initial_statements:` of open() may have moved into it): read it as open(initial_statements=True) calls it
        topo = _top(ctx, repo.method("Database", "open", DB))
        topo.vals = {"initial_statements": True}
        sites = _calls_through(topo, lambda fr, c: _runs_own_method(fr, c, ("_initial_statements",)) is not None)
        if len(sites) != 1:
            raise AnalysisError("undecided: Database._initial_statements takes arguments and is not called from exactly one place of Database.open()")
        top = _bind_call(sites[0][0], sites[0][1], fi)
    # every statement executed by _initial_statements (and the helpers of the object it calls) that sets a pragma
    walk = _PragmaWalk(ctx, top)
    ends = walk.run(top, walk.start())
    ctx.anchor(ends, "a normal path through Database._initial_statements for a file database")
    prag = []
    for fr, c in _calls_through(top, lambda fr, c: _is_exec(c)):
        sets = _pragma_sets(fr, c)
        if not sets:
            # the text may depend on the value a local has on the path (read during the walk)
            sets = walk.found.get((id(c), tuple(id(k) for _, k in fr.chain_calls())), (None, None, []))[2]
        for key, val in sets:
            prag.append((key, val, fr, c))
    placed = {(k, v) for k, v, _, _ in prag}
    for g in {fr.fi for fr, _ in _calls_through(top, lambda fr, c: True)} | {fi}:
        for node in walk_no_nested(g.node):
            m = _PRAGMA_SET.match(node.value) if isinstance(node, ast.Constant) and isinstance(node.value, str) else None
            if m and m.group(1).lower() in _TRACKED and (m.group(1).lower(), m.group(2).upper()) not in placed \
                    and not re.search(r"%s|\(", node.value):
                raise AnalysisError(f"undecided: cannot see where `{node.value.strip()}` in {g.qualname} is executed")
    jm = [(v, fr, c) for k, v, fr, c in prag if k == "journal_mode"]
    sy = [(v, fr, c) for k, v, fr, c in prag if k == "synchronous"]
    ctx.check(sorted(v for v, _, _ in jm) == ["DELETE", "WAL"], "pragmas", fi, fi.node, "journal_mode is set only to DELETE (temporarily) and WAL", f"journal_mode pragmas: {[v for v, _, _ in jm]}")
    ctx.check([v for v, _, _ in sy] == ["NORMAL"], "pragmas", fi, fi.node, "synchronous is only ever set to NORMAL", f"synchronous pragmas: {[v for v, _, _ in sy]} (durability weakened)")

    def here(fr: _Frame, c: ast.Call) -> ast.AST:
        return fr.chain_calls()[0][1] if fr.caller is not None else c
    wal = [here(fr, c) for v, fr, c in jm if v == "WAL"]
    dele = [here(fr, c) for v, fr, c in jm if v == "DELETE"]
    # every normal path of a file database ends in WAL / synchronous NORMAL (conditions on the mirrored locals evaluated per path)
    bad_j = [st for st in ends if st["journal"][0] != (True, frozenset(["WAL"]))]
    if walk.unread and (bad_j or [st for st in ends if not (st["sync"][0] is not None and st["sync"][0][0] and st["sync"][0][1] <= {"NORMAL", 1})]):
        raise AnalysisError(f"undecided: Database._initial_statements branches on `{norm(walk.unread[0])[:80]}`, a helper that looks at the journal settings "
                            "and whose answer could not be related to them")
    left_delete = [st for st in bad_j if st["journal"][0] == (True, frozenset(["DELETE"]))]
    other_j = [st for st in bad_j if st not in left_delete]
    if wal or other_j:
        ctx.check(not other_j, "pragmas", fi, wal[0] if wal else fi.node, "WAL is switched on whenever a file database is not in WAL mode",
                  "the WAL switch depends on another condition: file databases can stay in a rollback-journal mode that was not chosen",
                  [f"journal mode known at exit: {st['journal'][0]}" for st in other_j])
    if dele or left_delete:
        ctx.check(not left_delete, "pragmas", fi, dele[0] if dele else fi.node, "the temporary DELETE journal mode is always followed by the switch back to WAL (file databases)",
                  "after changing the page size a file database can be left in DELETE journal mode")
    bad_s = [st for st in ends if not (st["sync"][0] is not None and st["sync"][0][0] and st["sync"][0][1] <= {"NORMAL", 1})]
    ctx.check(not bad_s, "pragmas", fi, here(sy[0][1], sy[0][2]) if sy else fi.node, "synchronous is forced to NORMAL whenever it is anything else",
              "synchronous can stay at a weaker (OFF) or is forced under an unrelated condition", [f"synchronous known at exit: {st['sync'][0]}" for st in bad_s])
    # nobody else touches these pragmas
    n = 0
    for m in repo.modules.values():
        for node in ast.walk(m.tree):
            if isinstance(node, ast.Constant) and isinstance(node.value, str) and re.search(r"PRAGMA\s+(journal_mode|synchronous|locking_mode)\s*=", node.value, re.I):
                f2 = repo.function_of(node)
                n += 1
                ctx.check(f2 is not None and (f2.qualname == "Database._initial_statements" or _private_part_of(ctx, f2, ("Database._initial_statements",))),
                          "pragmas", f2 or m.relpath, node.value.strip(),
                          "journal/synchronous pragmas only in Database._initial_statements", "journal or synchronous settings are changed outside _initial_statements")
    ctx.floor("pragmas", n, 3)
    op = repo.method("Database", "open", DB)
    topo = _top(ctx, op)
    isc = _calls_through(topo, lambda fr, c: _runs_method(fr, c, "_initial_statements"))
    if not isc and any(fi_ is not None and (fi_ is op or _private_part_of(ctx, fi_, ("Database.open",))) and not (isinstance(parent(a), ast.Call) and parent(a).func is a)
                       for _, fi_, a in repo.attribute_uses("_initial_statements")):
        raise AnalysisError("undecided: Database.open() hands self._initial_statements around as a value; cannot tell under which condition it is called")
    ok = bool(isc)
    for fr, c in isc:
        fs = [(lf, f) for lf, _, f in _level_facts(ctx, fr, c)]
        rows = _row_of_call(fr, c, "_initial_statements")
        flag = [_flag_fact(ctx, lf, f, "initial_statements", rows) for lf, f in fs]
        ok = ok and bool(flag) and all(flag)
    ok = ok or _walk_flag_runs(ctx, op, "initial_statements", "_initial_statements")
    defaults = {a.arg: const_value(d) for a, d in zip(op.node.args.args[-len(op.node.args.defaults):], op.node.args.defaults)}
    ok = ok and defaults.get("initial_statements") is True and defaults.get("prepare_visioning") is True
    ctx.check(ok, "pragmas", op, op.node, "open() applies the initial statements by default", "open() does not apply the journal settings by default")
    for m, f2, c in repo.callers_of_name("open"):
        if f2 is None or not m.relpath.startswith("ipv8/attestation/"):
            continue
        recv = chain(c.func) or ""
        if "database" in recv:
            ok = not any(const_value(a) is False for a in c.args) and not any(const_value(k.value) is False for k in c.keywords)
            ctx.check(ok, "pragmas", f2, c, "identity/attestation databases are opened with default arguments", "a database is opened with the journal settings or versioning switched off")


def _insert_columns(sql: str) -> list[str]:
    m = re.search(r"INTO\s+[\w{}]+\s*\(([^)]*)\)", sql, re.I)
    return [c.strip() for c in m.group(1).split(",")] if m else []


def _select_columns(sql: str) -> list[str]:
    m = re.search(r"SELECT\s+(.*?)\s+FROM", sql, re.I | re.S)
    return [c.strip() for c in m.group(1).split(",")] if m else []


def _tdt_fields(tdt: FuncInfo, repo=None) -> list[str] | None:
    """attribute names returned (in order) by to_database_tuple; None when the returns are not one readable tuple"""
    shapes = set()
    for r in walk_no_nested(tdt.node):
        if not isinstance(r, ast.Return):
            continue
        v = resolve(tdt, r.value) if r.value is not None else None
        if isinstance(v, ast.Call) and chain(v.func) in ("tuple", "list") and len(v.args) == 1 and not v.keywords:
            v = resolve(tdt, v.args[0])
        if isinstance(v, (ast.GeneratorExp, ast.ListComp)) and repo is not None:
            # tuple(getattr(self, name) for name in <constant table of field names>)
            g = v.generators[0]
            el = v.elt
            names = _ev(_Frame(repo, tdt), g.iter) if len(v.generators) == 1 and not g.ifs and isinstance(g.target, ast.Name) else _UNK
            if isinstance(names, tuple) and all(isinstance(x, str) for x in names) and isinstance(el, ast.Call) and chain(el.func) == "getattr" \
                    and len(el.args) == 2 and chain(el.args[0]) == "self" and isinstance(el.args[1], ast.Name) and el.args[1].id == g.target.id:
                shapes.add(tuple(names))
                continue
            return None
        if isinstance(v, ast.Call) and repo is not None and len(v.args) == 1 and not v.keywords and chain(v.args[0]) == "self":
            # operator.attrgetter("a", "b")(self), the getter written in place or kept in a local / module / class level constant
            g = resolve(tdt, v.func)
            if isinstance(g, ast.Name) and not local_defs(tdt, g.id):
                r = repo.resolve_name(tdt.module, g.id)
                g = r[2] if isinstance(r, tuple) and r[0] == "const" else g
            elif isinstance(g, ast.Attribute) and chain(g.value) in ("self", "cls", tdt.cls.name if tdt.cls is not None else "") and tdt.cls is not None \
                    and tdt.cls.lookup_attr(g.attr) is not None and not _instance_overrides(tdt.cls, g.attr):
                g = tdt.cls.lookup_attr(g.attr)
            if isinstance(g, ast.Call) and (chain(g.func) or "").split(".")[-1] == "attrgetter" and len(g.args) >= 2 and not g.keywords \
                    and all(isinstance(const_value(a), str) and "." not in const_value(a) for a in g.args):
                shapes.add(tuple(const_value(a) for a in g.args))
                continue
            return None
        if not isinstance(v, (ast.Tuple, ast.List)) or any(isinstance(x, ast.Starred) for x in v.elts):
            return None
        names = []
        for x in v.elts:
            c = rchain(tdt, x) or norm(x)
            names.append(c[5:] if c.startswith("self.") and c.count(".") == 1 else c)
        shapes.add(tuple(names))
    return list(next(iter(shapes))) if len(shapes) == 1 else None


def _is_tdt_call(frame: _Frame, e: ast.AST | None) -> bool:
    if e is None:
        return False
    e, _ = _deref(frame, e)
    return isinstance(e, ast.Call) and call_name(e) == "to_database_tuple" and not e.args and not e.keywords


def _bind_source(frame: _Frame, x: ast.AST, depth: int = 0) -> tuple:
    """Where one bound value comes from: ("field", j) = element j of <obj>.to_database_tuple(), ("key", p) = p.key_to_bin()
    of parameter p of the insert function, ("other", text) otherwise.  Local and helper-parameter names do not matter, only
    what they were assigned from / bound to."""
    x = strip_cast(x)
    if isinstance(x, ast.Name) and depth < 10 and frame.fi is not None:
        fi = frame.fi
        if x.id in fi.params():
            if x.id in frame.binds and not local_defs(fi, x.id):
                e, fr = frame.binds[x.id]
                return _bind_source(fr, e, depth + 1)
            return ("other", norm(x))
        d = _def_of(frame, x)
        if d is not None:
            v, j = d
            if j is not None:
                return ("field", j) if _is_tdt_call(frame, v) else ("other", norm(x))
            return _bind_source(frame, v, depth + 1)
        return ("other", norm(x))
    if isinstance(x, ast.Subscript) and _is_tdt_call(frame, x.value):
        j = _ev(frame, x.slice)
        if type(j) is int and j >= 0:
            return ("field", j)
    recv = None
    if isinstance(x, ast.Call) and isinstance(x.func, ast.Attribute) and x.func.attr == "key_to_bin" and not x.args and not x.keywords:
        recv = x.func.value
    elif isinstance(x, ast.Call) and len(x.args) == 1 and not x.keywords and not isinstance(x.args[0], ast.Starred) and frame.fi is not None:
        # operator.methodcaller("key_to_bin")(key) / PublicKey.key_to_bin(key), the caller written in place or held in a local / module constant
        g, gfr = _deref(frame, x.func) if isinstance(x.func, ast.Name) and (local_defs(frame.fi, x.func.id) or x.func.id in frame.binds) else (x.func, frame)
        if isinstance(g, ast.Name) and gfr.module is not None:
            r = frame.repo.resolve_name(gfr.module, g.id)
            g = r[2] if isinstance(r, tuple) and r[0] == "const" else g
        if isinstance(g, ast.Call) and (chain(g.func) or "").split(".")[-1] == "methodcaller" and len(g.args) == 1 and not g.keywords and const_value(g.args[0]) == "key_to_bin":
            recv = x.args[0]
        elif isinstance(g, ast.Attribute) and g.attr == "key_to_bin" and isinstance(g.value, ast.Name) and frame.module is not None \
                and frame.repo.resolve_class_expr(frame.module, g.value) is not None:
            recv = x.args[0]
    if recv is not None:
        base, fr = _deref(frame, recv)
        if isinstance(base, ast.Name) and fr.caller is None and fr.fi is not None and base.id in fr.fi.params():
            return ("key", base.id)
    return ("other", norm(x))


def _bind_items(frame: _Frame, e: ast.AST | None, nfields: int, depth: int = 0) -> list[tuple] | None:
    """the bindings expression of an execute call as a flat list of sources (tuple / list literal, through a local or a
    helper parameter - also a *rest parameter -, `(k,) + t`, `(k, *t)`, tuple(...)); None when it cannot be read"""
    if e is None or depth > 10:
        return None
    e, frame = _deref(frame, e)
    if isinstance(e, (ast.Tuple, ast.List)):
        out: list[tuple] = []
        for x in e.elts:
            if isinstance(x, ast.Starred):
                sub = _bind_items(frame, x.value, nfields, depth + 1)
                if sub is None:
                    return None
                out += sub
            else:
                out.append(_bind_source(frame, x))
        return out
    if isinstance(e, ast.BinOp) and isinstance(e.op, ast.Add):
        l, r = _bind_items(frame, e.left, nfields, depth + 1), _bind_items(frame, e.right, nfields, depth + 1)
        return None if l is None or r is None else l + r
    if isinstance(e, ast.Call) and chain(e.func) in ("tuple", "list") and len(e.args) == 1 and not e.keywords:
        return _bind_items(frame, e.args[0], nfields, depth + 1)
    if _is_tdt_call(frame, e):
        return [("field", j) for j in range(nfields)]
    rec = _record_ctor(frame, e) if isinstance(e, ast.Call) else None
    if rec is not None and rec[1] is not None:
        # a NamedTuple row object: its fields, in declaration order, are the bound values
        return [_bind_source(fr, x) for x, fr in rec[1]]
    return None


_WRAP = ("list", "tuple", "sorted", "set", "frozenset", "iter", "reversed")


def _is_token_read(fi: FuncInfo, e: ast.AST | None, depth: int = 0) -> bool:
    """e evaluates to what get_tokens_for returned (possibly re-packed by list()/sorted()/...: same members)"""
    e = resolve(fi, e) if e is not None else None
    if not isinstance(e, ast.Call) or depth > 4:
        return False
    if call_name(e) == "get_tokens_for":
        return True
    if (chain(e.func) or "").split(".")[-1] in ("chain", "from_iterable") and len(e.args) == 1 and not e.keywords:
        # itertools.chain(tokens) / chain.from_iterable([tokens]): the same members
        a = resolve(fi, e.args[0])
        if chain(e.func).endswith("from_iterable"):
            return isinstance(a, (ast.Tuple, ast.List)) and len(a.elts) == 1 and _is_token_read(fi, a.elts[0], depth + 1)
        return _is_token_read(fi, a, depth + 1)
    return chain(e.func) in _WRAP and bool(e.args) and _is_token_read(fi, e.args[0], depth + 1)


def _pairs_as_comprehension(fi: FuncInfo, d: ast.AST | None) -> ast.AST | None:
    """`map(lambda t: (t.get_hash(), t), tokens)` and `zip(map(methodcaller("get_hash"), tokens), tokens)` (tokens a materialised local) are the
    generator `((t.get_hash(), t) for t in tokens)` written with itertools / operator: returned in that form, anything else unchanged"""
    if not isinstance(d, ast.Call) or d.keywords or chain(d.func) not in ("map", "zip") or len(d.args) != 2:
        return d
    if chain(d.func) == "map":
        lam = resolve(fi, d.args[0])
        if isinstance(lam, ast.Lambda) and len(lam.args.args) == 1 and not (lam.args.vararg or lam.args.kwarg or lam.args.kwonlyargs or lam.args.defaults):
            return ast.GeneratorExp(elt=lam.body, generators=[ast.comprehension(target=ast.Name(id=lam.args.args[0].arg, ctx=ast.Store()), iter=d.args[1], ifs=[], is_async=0)])
        return d
    keys, vals = resolve(fi, d.args[0]), d.args[1]
    if not isinstance(strip_cast(vals), ast.Name) or not isinstance(keys, ast.Call) or keys.keywords:
        return d                 # the same sequence must be walked twice: only a local that holds it qualifies
    src = None
    if chain(keys.func) == "map" and len(keys.args) == 2:
        g = resolve(fi, keys.args[0])
        if isinstance(g, ast.Call) and (chain(g.func) or "").split(".")[-1] == "methodcaller" and len(g.args) == 1 and not g.keywords and const_value(g.args[0]) == "get_hash":
            src = keys.args[1]
    if src is None or not (isinstance(strip_cast(src), ast.Name) and strip_cast(src).id == strip_cast(vals).id):
        return d
    ordered = resolve(fi, vals)
    if not (isinstance(ordered, ast.Call) and chain(ordered.func) in ("list", "tuple", "sorted")):
        return d                 # a set may be walked twice in the same order, but nothing says so: only list / tuple / sorted copies
    t = ast.Name(id="_t", ctx=ast.Load())
    elt = ast.Tuple(elts=[ast.Call(func=ast.Attribute(value=t, attr="get_hash", ctx=ast.Load()), args=[], keywords=[]), t], ctx=ast.Load())
    return ast.GeneratorExp(elt=elt, generators=[ast.comprehension(target=ast.Name(id="_t", ctx=ast.Store()), iter=vals, ifs=[], is_async=0)])


def _keyed_store(fi: FuncInfo, st: ast.AST, base: str, var: str) -> bool:
    """st is `<base>[<var>.get_hash()] = <var>` (aliases of the base / the hash followed), also spelled operator.setitem(<base>, k, v),
    <base>.__setitem__(k, v) or <base>.update({k: v})"""
    if isinstance(st, ast.Expr) and isinstance(st.value, ast.Call) and not st.value.keywords:
        c = st.value
        q = (chain(c.func) or "").split(".")[-1]
        if q == "setitem" and len(c.args) == 3 and isinstance(c.func, (ast.Name, ast.Attribute)) and (chain(c.func) in ("setitem", "operator.setitem")):
            tgt, key, val = c.args
        elif q == "__setitem__" and len(c.args) == 2 and isinstance(c.func, ast.Attribute):
            tgt, key, val = c.func.value, c.args[0], c.args[1]
        elif q == "update" and len(c.args) == 1 and isinstance(c.func, ast.Attribute) and isinstance(resolve(fi, c.args[0]), ast.Dict) \
                and len(resolve(fi, c.args[0]).keys) == 1 and resolve(fi, c.args[0]).keys[0] is not None:
            d = resolve(fi, c.args[0])
            tgt, key, val = c.func.value, d.keys[0], d.values[0]
        else:
            return False
        st = ast.Assign(targets=[ast.Subscript(value=tgt, slice=key, ctx=ast.Store())], value=val)
    if not isinstance(st, ast.Assign) or len(st.targets) != 1 or not isinstance(st.targets[0], ast.Subscript):
        return False
    t = st.targets[0]
    k = resolve(fi, t.slice)
    v = strip_cast(st.value)
    return rchain(fi, t.value) == base and isinstance(v, ast.Name) and v.id == var and isinstance(k, ast.Call) \
        and call_name(k) == "get_hash" and not k.args and isinstance(k.func, ast.Attribute) and isinstance(k.func.value, ast.Name) and k.func.value.id == var


def _callee_always_stores(ctx: Ctx, h: FuncInfo, pos: int, kw: str | None) -> bool:
    """the method stores its token parameter under its hash in self.elements on every normal path (like TokenTree._append)"""
    ps = [p for p in h.params() if p not in ("self", "cls")]
    var = kw if kw in ps else ps[pos] if kw is None and 0 <= pos < len(ps) else None
    if var is None or local_defs(h, var):
        return False
    cfg = ctx.cfg(h)
    sn = [n for st in walk_no_nested(h.node) if _keyed_store(h, st, "self.elements", var) for n in cfg.nodes_for(st)]
    return bool(sn) and cfg.exit not in cfg.reach(cut_nodes=sn, follow_exc=False)


def _reload_keeps_every_token(ctx: Ctx, pm: FuncInfo) -> None:
    """
    The rebuilt pseudonym must contain every stored token: PseudonymManager.__init__ puts each token read back by
    get_tokens_for into tree.elements under its hash, on every iteration, without a filter and without going through the
    network intake path.  TokenTree.gather_token is that intake path: it only chains a token whose predecessor is already
    present and parks the others in `unchained`, a buffer capped at unchained_max_size that evicts its oldest entry.
    get_tokens_for returns a set (arbitrary order), so on reload children usually precede their parents; for a long chain
    stored tokens are evicted and never reach the tree - records whose insert had returned are missing after reopen and
    the credentials that point to them no longer verify.
    """
    cfg = ctx.cfg(pm)
    what = "pseudonym reload puts every stored token into tree.elements (no filter, no bounded intake buffer)"
    n_seen = 0
    for loop in [n for n in walk_no_nested(pm.node) if isinstance(n, (ast.For, ast.AsyncFor)) and _is_token_read(pm, n.iter)]:
        n_seen += 1
        if not isinstance(loop.target, ast.Name):
            raise AnalysisError("undecided: reload loop over get_tokens_for does not bind a single name")
        var = loop.target.id
        heads = cfg.nodes_for(loop)
        good = [n for st in walk_no_nested(loop) if _keyed_store(pm, st, "self.tree.elements", var) for n in cfg.nodes_for(st)]
        through = []          # calls that hand the token to another method
        for c in calls(loop):
            idx = next((i for i, a in enumerate(c.args) if isinstance(strip_cast(a), ast.Name) and strip_cast(a).id == var), None)
            kw = next((k.arg for k in c.keywords if isinstance(strip_cast(k.value), ast.Name) and strip_cast(k.value).id == var), None)
            if idx is None and kw is None:
                continue
            targets = ctx.repo.resolve_call(pm, c) if rchain(pm, c.func.value if isinstance(c.func, ast.Attribute) else c.func) == "self.tree" else []
            if targets and all(_callee_always_stores(ctx, h, idx if idx is not None else -1, kw) for h in targets):
                good += cfg.nodes_for(c)
            else:
                through.append(c)
        # every iteration (normal paths from the loop head into the body back to the head / out of the loop) stores the token
        body_first = [v for h in heads for v, lab in h.succ if lab is True]
        r = cfg.reach(body_first, cut_nodes=good, follow_exc=False)
        ok = bool(good) and not any(h in r for h in heads) and cfg.exit not in r and not cfg_conditional(ctx, pm, loop)
        via_tree = [c for c in through if isinstance(c.func, ast.Attribute) and rchain(pm, c.func.value) == "self.tree"]
        if ok:
            ctx.check(True, "schema-reopen", pm, loop, what)
        elif via_tree or (through and not good):
            c = (via_tree or through)[0]
            ctx.check(False, "schema-reopen", pm, c, what,
                      f"PseudonymManager.__init__ rebuilds the token tree through `{chain(c.func)}` instead of placing every stored token in tree.elements: "
                      "that path only chains a token whose predecessor is already present and parks the rest in the bounded `unchained` buffer (oldest evicted); "
                      "tokens come back from the database in arbitrary (set) order, so stored tokens are dropped and the rebuilt pseudonym does not verify")
        elif good:
            ctx.check(False, "schema-reopen", pm, loop, what,
                      "PseudonymManager.__init__ skips some of the tokens read back from the database: stored records are missing from the rebuilt pseudonym")
        else:
            raise AnalysisError("undecided: cannot see how PseudonymManager.__init__ places the tokens read from the database into the tree")
    # one-statement spellings: tree.elements.update({t.get_hash(): t for t in tokens}) / tree.elements = {...}
    for st in walk_no_nested(pm.node):
        d = None
        if isinstance(st, ast.Assign) and len(st.targets) == 1 and rchain(pm, st.targets[0]) == "self.tree.elements":
            d = resolve(pm, st.value)
        elif isinstance(st, ast.AugAssign) and isinstance(st.op, ast.BitOr) and rchain(pm, st.target) == "self.tree.elements":
            d = resolve(pm, st.value)
        elif isinstance(st, ast.Expr) and isinstance(st.value, ast.Call) and call_name(st.value) == "update" and isinstance(st.value.func, ast.Attribute) \
                and rchain(pm, st.value.func.value) == "self.tree.elements" and len(st.value.args) == 1:
            d = resolve(pm, st.value.args[0])
        if isinstance(d, ast.Call) and chain(d.func) == "dict" and len(d.args) == 1 and not d.keywords:
            d = resolve(pm, d.args[0])
        d = _pairs_as_comprehension(pm, d)
        if isinstance(d, (ast.GeneratorExp, ast.ListComp)) and len(d.generators) == 1 and isinstance(d.elt, ast.Tuple) and len(d.elt.elts) == 2:
            # update((t.get_hash(), t) for t in tokens): the same mapping written as pairs
            d = ast.DictComp(key=d.elt.elts[0], value=d.elt.elts[1], generators=d.generators)
        if isinstance(d, ast.DictComp) and len(d.generators) == 1 and _is_token_read(pm, d.generators[0].iter):
            n_seen += 1
            g = d.generators[0]
            v = g.target.id if isinstance(g.target, ast.Name) else None
            k = d.key
            ok = v is not None and not g.ifs and isinstance(d.value, ast.Name) and d.value.id == v and isinstance(k, ast.Call) and call_name(k) == "get_hash" \
                and isinstance(k.func, ast.Attribute) and isinstance(k.func.value, ast.Name) and k.func.value.id == v and not cfg_conditional(ctx, pm, st)
            ctx.check(ok, "schema-reopen", pm, st, what, "PseudonymManager.__init__ filters or re-keys the tokens read back from the database: stored records are missing from the rebuilt pseudonym")
    if not n_seen:
        raise AnalysisError("undecided: PseudonymManager.__init__ calls get_tokens_for but the use of its result is not recognised")


def cfg_conditional(ctx: Ctx, fi: FuncInfo, st: ast.AST) -> bool:
    """the statement can be skipped on a normal path through the function"""
    cfg = ctx.cfg(fi)
    ns = cfg.nodes_for(st)
    return not ns or cfg.exit in cfg.reach(cut_nodes=ns, follow_exc=False)


def _schema_texts(ctx: Ctx, gs: FuncInfo) -> list[str]:
    """every piece of statement text get_schema can return: the string constants / f-string parts written in it (and in the helpers of the
    object it calls) and the module / class level constants and tables it refers to"""
    texts: list[str] = []

    def add_value(v) -> None:
        if isinstance(v, str):
            texts.append(v)
        elif isinstance(v, tuple):
            for x in v:
                add_value(x)
        elif isinstance(v, dict):
            for x in v.values():
                add_value(x)
    top = _top(ctx, gs)
    frames = [top] + [_bind_call(fr, c, h) for fr in [top] for c, h in _helper_calls(fr)]
    for fr in frames:
        for n in ast.walk(fr.fi.node):
            if isinstance(n, ast.Constant) and isinstance(n.value, str):
                texts.append(n.value)
            elif isinstance(n, (ast.Name, ast.Attribute)) and isinstance(getattr(n, "ctx", None), ast.Load):
                if isinstance(n, ast.Name) and (n.id in fr.fi.params() or local_defs(fr.fi, n.id)):
                    continue
                add_value(_ev(fr, n))
    return texts


_VERSION_WRITE = re.compile(r"\b(INSERT|REPLACE)\b[^;]*?\bINTO\s+option\b|\bUPDATE\s+option\b", re.I)
_CREATE_TABLE = re.compile(r"\bCREATE\s+TABLE\b", re.I)


def _is_schema_script(fr: _Frame, c: ast.Call) -> bool:
    """an executescript call whose statements come from get_schema / contain CREATE TABLE"""
    how = _exec_call(fr, c)
    if how is None or how[0] != "executescript":
        return False
    site = _Site(fr, c, how)
    if site.text is not None and _CREATE_TABLE.search(site.text):
        return True
    a = site._stmt_arg()
    if a is None:
        return False
    b, bfr = _deref(a[1], a[0])
    return any(isinstance(x, ast.Call) and _runs_named(bfr, x, "get_schema") for x in ast.walk(b)) \
        or any(isinstance(x, ast.Call) and _runs_named(a[1], x, "get_schema") for x in ast.walk(a[0]))


def _script_every_open_or_version_last(ctx: Ctx, c: ClassInfo, cd: FuncInfo) -> None:
    """
    The schema script runs in autocommit mode (executescript): each of its statements is durable on its own, so a kill can leave any prefix
    of it.  That is harmless as long as every open() runs the whole script again (CREATE TABLE IF NOT EXISTS repairs the prefix).  Once
    check_database may skip the script - typically `the stored version is current` - the version record is what vouches for the tables, and
    then it must be the LAST thing the script writes: a version record written before a CREATE TABLE can be durable while the table is not,
    and the skip then keeps the table missing for ever (every insert / reload raises `no such table`).
    """
    top = _top(ctx, cd)
    nodes = _nodes_doing(ctx, top, lambda fr: [k for k in calls(fr.fi) if _is_schema_script(fr, k)])
    always = bool(nodes) and ctx.cfg(cd).exit not in _feasible(ctx, top, cut_nodes=nodes)
    if always:
        ctx.check(True, "schema-reopen", cd, cd.node, f"{c.name}.check_database runs the schema script on every open (a partially applied script is completed)")
        return
    gs = c.lookup("get_schema")
    text = None
    if gs is not None:
        synth = ast.Call(func=ast.Attribute(value=ast.Name(id="self", ctx=ast.Load()), attr="get_schema", ctx=ast.Load()),
                         args=[ast.Name(id="database_version", ctx=ast.Load())], keywords=[])
        v = _ev(top, synth)
        text = v if isinstance(v, str) else None
        if text is None:
            rets = [r.value for r in walk_no_nested(gs.node) if isinstance(r, ast.Return) and r.value is not None]
            if len(rets) == 1:
                text = _text(_Frame(ctx.repo, gs, cls=c, ctx=ctx), rets[0])
    if text is None or not _CREATE_TABLE.search(text) or "{}" in text.split("CREATE", 1)[0]:
        raise AnalysisError(f"undecided: {c.name}.check_database can return without running the schema script and the order of the statements "
                            f"{c.name}.get_schema returns cannot be read")
    vw = _VERSION_WRITE.search(text)
    last_create = max(m.start() for m in _CREATE_TABLE.finditer(text))
    ok = vw is None or vw.start() > last_create
    skip = None
    cfg = ctx.cfg(cd)
    live = _feasible(ctx, top, cut_nodes=nodes)
    skip = next((r for r in walk_no_nested(cd.node) if isinstance(r, ast.Return) and any(n in live for n in cfg.nodes_for(r))), None)
    ctx.check(ok, "schema-reopen", cd, skip if skip is not None else cd.node,
              f"{c.name}: check_database may skip the schema script, the version record is the last thing the script writes",
              f"{c.name}.check_database can return without running the schema script while {c.name}.get_schema writes the database_version record "
              "BEFORE a CREATE TABLE. executescript commits statement by statement: a kill during the first open leaves the version record durable and "
              "the table missing, every later open skips the script because the version looks current, and the table stays missing for ever "
              "(the database opens, but every insert and the pseudonym reload raise `no such table`)")


def rule_schema(ctx: Ctx) -> None:
    _G["repo"] = ctx.repo
    repo = ctx.repo
    idb = repo.cls("IdentityDatabase", IDB)
    wdb = repo.cls("AttestationsDB", WDB)
    for c in (idb, wdb):
        gs = c.methods["get_schema"]
        texts = _schema_texts(ctx, gs)
        creates = re.findall(r"CREATE\s+TABLE\s+(IF\s+NOT\s+EXISTS\s+)?", " ".join(texts), re.I)
        ctx.check(bool(creates) and all(x for x in creates), "schema-reopen", gs, gs.node, f"{c.name}: every CREATE TABLE is IF NOT EXISTS",
                  f"{c.name}: reopening an existing database fails or recreates tables (CREATE TABLE without IF NOT EXISTS)")
        ctx.check(not re.search(r"DROP\s+TABLE|DELETE\s+FROM\s+(?!option)", " ".join(texts), re.I), "schema-reopen", gs, gs.node, f"{c.name}: schema never drops data",
                  f"{c.name}: the schema script deletes stored records on open")
        cd = c.methods["check_database"]
        scripts = [x for x in _sql_sites(_top(ctx, cd)) if x.method == "executescript"]
        ok = bool(scripts) and (all(_committed_before_return(ctx, x) for x in scripts)
                                or _walk_clean_at_return(ctx, cd, lambda x: x.method == "executescript" or bool(_WRITE_SQL.match(x.sql))))
        ctx.check(ok, "schema-reopen", cd, cd.node, f"{c.name}.check_database commits the schema", f"{c.name}.check_database leaves the schema uncommitted")
        _script_every_open_or_version_last(ctx, c, cd)
    # keyed tables: INSERT OR IGNORE
    for fi in insert_functions(ctx):
        if fi.cls is idb:
            for s_ in [x for x in _sql_sites(_top(ctx, fi)) if re.match(r"\s*INSERT", x.sql, re.I)]:
                ctx.check(bool(re.match(r"\s*INSERT\s+OR\s+IGNORE", s_.sql, re.I)), "schema-reopen", fi, s_.levels()[0][1], f"{fi.name}: INSERT OR IGNORE on a keyed table",
                          f"{fi.name}: a duplicate insert raises IntegrityError (and the following commit is skipped)")
    # column agreement: to_database_tuple -> INSERT columns; SELECT columns -> from_database_tuple
    pairs = [("insert_token", "Token", "ipv8/attestation/tokentree/token.py", "get_tokens_for"),
             ("insert_metadata", "Metadata", "ipv8/attestation/identity/metadata.py", "get_metadata_for"),
             ("insert_attestation", "Attestation", "ipv8/attestation/identity/attestation.py", "get_attestations_for")]
    for ins, cls, rel, getter in pairs:
        fi = idb.methods[ins]
        obj = repo.cls(cls, rel)
        tdt = obj.methods["to_database_tuple"]
        fdt = obj.methods["from_database_tuple"]
        fields = _tdt_fields(tdt, repo)
        if fields is None:
            raise AnalysisError(f"undecided: {tdt.qualname} does not return one tuple of fields")
        sites = _sql_sites(_top(ctx, fi))
        writes = [x for x in sites if re.match(r"\s*INSERT", x.sql, re.I)]
        if not writes:
            if any(x.text is None for x in sites):
                raise AnalysisError(f"undecided: cannot read the statement that {fi.qualname} executes")
            ctx.check(False, "schema-reopen", fi, fi.node, f"{ins} issues an INSERT statement", f"{ins} has no recognisable INSERT statement")
            continue
        for s_ in writes:
            e = s_.levels()[0][1]
            cols = _insert_columns(s_.sql)
            if not cols and s_.text is not None and "{}" in s_.text or any("{" in c for c in cols):
                raise AnalysisError(f"undecided: cannot read the column list of the INSERT in {fi.qualname}: `{s_.sql[:120]}`")
            b = s_.bindings_arg()
            if b is not None and s_.method == "executemany":
                seq, sfr = _deref(b[1], b[0])          # one row written through executemany([row])
                b = (seq.elts[0], sfr) if isinstance(seq, (ast.Tuple, ast.List)) and len(seq.elts) == 1 and not isinstance(seq.elts[0], ast.Starred) else None
            items = _bind_items(b[1], b[0], len(fields)) if b is not None else None
            if items is None:
                raise AnalysisError(f"undecided: cannot read the bindings of the INSERT in {fi.qualname}: `{norm(s_.call)[:120]}`")
            # every column gets the value that belongs to it: a to_database_tuple field goes to the column of the same name
            # (whatever the local is called, wherever the column stands), a key column gets that key parameter's key_to_bin()
            want = [("field", fields.index(c)) if c in fields else ("key", c) for c in cols]
            ok = bool(cols) and items == want and sorted(c for c in cols if c in fields) == sorted(fields)
            shown = [fields[i[1]] if i[0] == "field" and i[1] < len(fields) else f"{i[1]}.key_to_bin()" if i[0] == "key" else i[1] for i in items]
            ctx.check(ok, "schema-reopen", fi, e, f"{ins}: to_database_tuple fields {fields} are bound to the same-named columns",
                      f"{ins}: column list {cols} / bindings {shown} do not match to_database_tuple {fields}: a reloaded record differs from the stored object")
        g = idb.methods[getter]
        reads = [x for x in _sql_sites(_top(ctx, g), generators=True) if re.match(r"\s*SELECT", x.sql, re.I)]
        if not reads:
            raise AnalysisError(f"undecided: no SELECT statement recognised in {g.qualname}")
        sql = reads[0].sql
        sel = _select_columns(sql)
        params = [p for p in fdt.params() if p != "cls"]
        ok = sel == params
        ctx.check(ok, "schema-reopen", g, g.node, f"{getter}: SELECT {sel} matches from_database_tuple{tuple(params)}",
                  f"{getter}: selected columns {sel} do not match from_database_tuple parameters {params}")
        where = re.search(r"WHERE\s+(\w+)\s*=", sql, re.I)
        ctx.check(where is not None and where.group(1) == "public_key", "schema-reopen", g, g.node, f"{getter} selects by public_key", f"{getter} does not select by owner key")
    # a record is written after the records it points to: token before its metadata, metadata before attestations over it
    ac = repo.method("PseudonymManager", "add_credential", "ipv8/attestation/identity/manager.py")
    topa = _top(ctx, ac)
    md = _calls_through(topa, lambda fr, c: _runs_named(fr, c, "insert_metadata"))
    ok = bool(md)
    for fr, c in md:
        # at some level of the call chain the token insert has completed on every path that reaches the metadata insert
        ok = ok and any(bool(tn) and all(ctx.cfg(lf.fi).must_complete(n, tn) for n in ctx.cfg(lf.fi).nodes_for(lc))
                        for lf, lc in [*fr.chain_calls(), (fr, c)]
                        for tn in [_nodes_doing(ctx, lf, lambda f2: [k for k in calls(f2.fi) if _runs_named(f2, k, "insert_token")])])
    first = md[0] if md else None
    ok = ok or _walk_order(ctx, ac, "insert_token", "insert_metadata")
    if not ok and not md:
        for fr in _all_frames(topa):
            for n in walk_no_nested(fr.fi.node):
                if (isinstance(n, ast.Attribute) and n.attr == "insert_metadata") or (isinstance(n, ast.Constant) and n.value == "insert_metadata"):
                    raise AnalysisError(f"undecided: {fr.fi.qualname} takes `{norm(n)[:80]}` as a value; cannot tell when the metadata row is written relative to its token")
    ctx.check(ok, "schema-reopen", ac, (first[0].chain_calls()[0][1] if first[0].caller is not None else first[1]) if first else ac.node,
              "add_credential commits the token before the metadata that points to it",
              "the metadata row is committed before the token it points to: a kill between the two commits leaves a credential whose token is missing after reopen")
    # reload path reads the same tables the inserts write
    pm = repo.method("PseudonymManager", "__init__", "ipv8/attestation/identity/manager.py")
    frames = _all_frames(_top(ctx, pm))          # __init__ and the helpers of the object it calls
    readers = [fr for fr in frames if any(call_name(c) == "get_tokens_for" for c in calls(fr.fi))]
    ok = bool(readers) and any(call_name(c) == "get_credentials_for" for fr in frames for c in calls(fr.fi))
    ctx.check(ok, "schema-reopen", pm, pm.node, "pseudonym reload reads tokens and credentials back from the database", "the pseudonym is not rebuilt from the stored tokens/credentials")
    if ok:
        for fr in readers:
            skipped = [lc for lf, lc in fr.chain_calls() if cfg_conditional(ctx, lf.fi, lc)]
            if skipped:
                ctx.check(False, "schema-reopen", pm, skipped[0], "pseudonym reload puts every stored token into tree.elements (no filter, no bounded intake buffer)",
                          "PseudonymManager.__init__ reloads the stored tokens only under a condition: stored records are missing from the rebuilt pseudonym")
            _reload_keeps_every_token(ctx, fr.fi)


_FILE_REMOVERS = {"os.remove", "os.unlink", "os.rename", "os.renames", "os.replace", "os.truncate", "os.rmdir", "os.removedirs",
                  "shutil.rmtree", "shutil.move", "shutil.copyfile", "shutil.copy", "shutil.copy2"}
_REMOVER_METHODS = {"unlink", "rmtree", "truncate", "rmdir"}


def _qualified_callee(m, c: ast.Call) -> str:
    """dotted name of the called library function with import aliases undone (`from os import remove as rm; rm(p)` -> os.remove)"""
    ch = chain(c.func) or ""
    first, _, rest = ch.partition(".")
    imp = m.imports.get(first)
    if imp is not None:
        mod, attr = imp
        base = mod if attr is None else f"{mod}.{attr}"
        return base + ("." + rest if rest else "")
    return ch


def rule_files_kept(ctx: Ctx) -> None:
    """
    The records a crash must not lose live in the database file AND its side files: in WAL mode every committed insert sits only in
    `<db>-wal` until a checkpoint (1000 pages or a clean close), a rollback journal `<db>-journal` is what makes a half-written
    transaction invisible.  After a kill these files are exactly what SQLite needs on reopen, so the database layer must never
    delete, rename, truncate or overwrite files: code that "cleans up stale -wal/-shm/-journal files" before connecting throws away
    every committed record since the last checkpoint (the database opens fine, but empty).
    """
    _G["repo"] = ctx.repo
    repo = ctx.repo
    scoped = []
    for m in repo.modules.values():
        for fi in m.all_functions:
            if m.relpath in (DB, IDB, WDB) or (fi.cls is not None and fi.cls.is_subclass_of("Database")):
                scoped.append(fi)
    ctx.floor("storage-files-kept", len(scoped), 40)
    by_mod: dict[str, list] = {}
    for fi in scoped:
        bad = by_mod.setdefault(fi.module.relpath, [])
        for c in calls(fi):
            q = _qualified_callee(fi.module, c)
            mode = arg(c, 1, "mode") if q in ("open", "io.open") else None
            mv = const_value(resolve(fi, mode)) if mode is not None else None
            if q in _FILE_REMOVERS or (isinstance(c.func, ast.Attribute) and c.func.attr in _REMOVER_METHODS) \
                    or (isinstance(mv, str) and ("w" in mv or "+" in mv or "a" in mv or "x" in mv)):
                bad.append((fi, c, q))
    for rel in (DB, IDB, WDB):
        by_mod.setdefault(rel, [])
    for rel, bad in sorted(by_mod.items()):
        if not bad:
            ctx.check(True, "storage-files-kept", rel, None, f"{rel}: the database layer never deletes, renames, truncates or overwrites files")
        for fi, c, q in bad:
            ctx.check(False, "storage-files-kept", fi, c, f"{fi.qualname} leaves the files of the database alone",
                      f"{fi.qualname} calls `{q or norm(c.func)}`: the database layer removes / replaces files. In WAL mode every committed insert lives only in the "
                      "`-wal` side file until a checkpoint and a rollback journal is what hides a half-written transaction, so after a kill these files are what "
                      "SQLite needs on reopen - deleting them loses every record committed since the last checkpoint although its insert call had returned")


_TXN_SETTINGS = ("isolation_level", "autocommit")
_CONNECT_POSITIONAL = ("database", "timeout", "detect_types", "isolation_level", "check_same_thread", "factory", "cached_statements", "uri")


def _database_layer(ctx: Ctx) -> list[FuncInfo]:
    out = []
    for m in ctx.repo.modules.values():
        for fi in m.all_functions:
            if m.relpath in (DB, IDB, WDB) or (fi.cls is not None and fi.cls.is_subclass_of("Database")):
                out.append(fi)
    return out


def _keeps_implicit_transactions(frame: _Frame, setting: str, value: ast.AST) -> bool | None:
    """does this value for isolation_level / autocommit leave the sqlite3 module opening a transaction before INSERT and ending it
    in Connection.commit()?  (None: the value cannot be read)"""
    if setting == "autocommit" and (chain(value) or "").split(".")[-1] == "LEGACY_TRANSACTION_CONTROL":
        return True
    return _mode_value_ok(setting, _ev(frame, value))


def _mode_value_ok(setting: str, v) -> bool | None:
    if v is _UNK:
        return None
    if setting == "isolation_level":
        return isinstance(v, str) and v.upper() in ("", "DEFERRED", "IMMEDIATE", "EXCLUSIVE")
    return v is False or (type(v) is int and v == -1)


def rule_transaction_mode(ctx: Ctx) -> None:
    """
    Everything above rests on one fact about the sqlite3 module: in its default mode it opens a transaction before the first INSERT
    and Connection.commit() ends it - that is what makes a record appear completely or not at all, what the deferred-commit counter
    of `with database:` groups, and what Database.commit() reaches.  A connection opened (or switched) with isolation_level=None or
    autocommit=True has no such transaction: every statement is committed by SQLite on its own, Connection.commit() is a no-op, the
    rows of a batch written inside `with database:` become durable one by one and a kill in the middle leaves a prefix of the batch
    (a credential whose token or metadata is missing) visible after reopen although nothing of it was committed.
    """
    _G["repo"] = ctx.repo
    layer = _database_layer(ctx)
    n_connect = 0
    why = ("the sqlite3 module no longer opens a transaction before INSERT and Connection.commit() becomes a no-op: Database.commit() and the "
           "deferred commits of `with database:` stop grouping anything, every statement is durable on its own and a kill in the middle of a batch "
           "leaves a partially written batch (a credential without its token / metadata) visible after reopen")
    for fi in layer:
        frame = _Frame(ctx.repo, fi, ctx=ctx)
        for n in walk_no_nested(fi.node):
            given: list[tuple[str, ast.AST]] = []
            if isinstance(n, ast.Call):
                q = _qualified_callee(fi.module, n)
                is_connect = q in ("sqlite3.connect", "sqlite3.dbapi2.connect", "sqlite3.Connection")
                n_connect += is_connect
                # (a helper of the repository may have a flag of the same name: only calls that leave the repository are of interest)
                own = isinstance(n.func, ast.Attribute) and isinstance(n.func.value, ast.Name) and n.func.value.id in ("self", "cls")
                if is_connect or not (own or ctx.repo.resolve_call(fi, n)):
                    given += [(k.arg, k.value) for k in n.keywords if k.arg in _TXN_SETTINGS]
                if is_connect and not any(isinstance(a, ast.Starred) for a in n.args):
                    given += [(_CONNECT_POSITIONAL[i], a) for i, a in enumerate(n.args) if i < len(_CONNECT_POSITIONAL) and _CONNECT_POSITIONAL[i] in _TXN_SETTINGS]
                if is_connect and (any(isinstance(a, ast.Starred) for a in n.args) or any(k.arg is None for k in n.keywords)):
                    spread = [k.value for k in n.keywords if k.arg is None]
                    vals = [_ev(frame, x) for x in spread]
                    if any(isinstance(a, ast.Starred) for a in n.args) or any(not isinstance(v, dict) for v in vals):
                        raise AnalysisError(f"undecided: cannot read the arguments `{norm(n)[:100]}` hands to sqlite3.connect in {fi.qualname}")
                    for v in vals:
                        for key in _TXN_SETTINGS:
                            if key in v:
                                ok = _mode_value_ok(key, v[key])
                                if ok is None:
                                    raise AnalysisError(f"undecided: cannot read the value given for {key} in {fi.qualname}")
                                ctx.check(ok, "transaction-mode", fi, n, f"{fi.qualname}: the connection keeps sqlite3's implicit transactions",
                                          f"{fi.qualname} opens the connection with {key}={v[key]!r}: " + why)
                if q == "setattr" and len(n.args) == 3 and const_value(n.args[1]) in _TXN_SETTINGS:
                    given.append((const_value(n.args[1]), n.args[2]))
            elif isinstance(n, (ast.Assign, ast.AnnAssign, ast.AugAssign)):
                targets = n.targets if isinstance(n, ast.Assign) else [n.target]
                for t in targets:
                    # <connection>.isolation_level = ... (an attribute of the database object itself with that name is its own business)
                    if isinstance(t, ast.Attribute) and t.attr in _TXN_SETTINGS and n.value is not None and not (isinstance(t.value, ast.Name) and t.value.id in ("self", "cls")):
                        given.append((t.attr, n.value))
            for setting, value in given:
                verdict = _keeps_implicit_transactions(frame, setting, value)
                if verdict is None:
                    raise AnalysisError(f"undecided: cannot read the value `{norm(value)[:80]}` given for {setting} in {fi.qualname}")
                ctx.check(verdict, "transaction-mode", fi, n,
                          f"{fi.qualname}: {setting} keeps sqlite3's implicit transactions",
                          f"{fi.qualname} sets {setting}={norm(value)} on the sqlite connection: " + why)
    if not n_connect:
        # the connection may be opened through a reference to the function (an alias, functools.partial): the settings above were still looked for
        n_connect = sum(1 for fi in layer for n in walk_no_nested(fi.node) if isinstance(n, (ast.Attribute, ast.Name))
                        and _qualified_callee(fi.module, ast.Call(func=n, args=[], keywords=[])) in ("sqlite3.connect", "sqlite3.dbapi2.connect", "sqlite3.Connection"))
        for m in ctx.repo.modules.values():
            if m.relpath in (DB, IDB, WDB):
                for n in m.tree.body:
                    if isinstance(n, (ast.Assign, ast.AnnAssign)):
                        for x in ast.walk(n):
                            if isinstance(x, (ast.Attribute, ast.Name)) and _qualified_callee(m, ast.Call(func=x, args=[], keywords=[])) in ("sqlite3.connect", "sqlite3.dbapi2.connect"):
                                n_connect += 1
                            if isinstance(x, ast.keyword) and x.arg in _TXN_SETTINGS:
                                verdict = _keeps_implicit_transactions(_Frame(ctx.repo, module=m), x.arg, x.value)
                                if verdict is None:
                                    raise AnalysisError(f"undecided: cannot read the value `{norm(x.value)[:80]}` given for {x.arg} in {m.relpath}")
                                ctx.check(verdict, "transaction-mode", m.relpath, n, f"{m.relpath}: {x.arg} keeps sqlite3's implicit transactions",
                                          f"{m.relpath} sets {x.arg}={norm(x.value)} for the sqlite connection: " + why)
    ctx.anchor(n_connect or None, "sqlite3.connect in the database layer")
    ctx.instance("transaction-mode", DB, "the database layer opens its connection in sqlite3's default (implicit transaction) mode")


# ------------------------------------------------------------------------------------------------------------------
# open-survives: nothing on the open path can fail for ever because a kill left a query without a row

_ONE_ROW_SELECT = re.compile(r"\s*SELECT\s+(COUNT|MAX|MIN|SUM|TOTAL|AVG)\s*\(", re.I)
_NOT_ONE_ROW = re.compile(r"\bGROUP\s+BY\b|\bHAVING\b|\bLIMIT\b|\bOFFSET\b|\bUNION\b|\bEXCEPT\b|\bINTERSECT\b", re.I)
_ONE_ROW_PRAGMA = re.compile(r"\s*PRAGMA\s+(page_size|journal_mode|synchronous|user_version|page_count|locking_mode|encoding|cache_size)\s*;?\s*$", re.I)
_OPEN_PATH = ("_connect", "_initial_statements", "_prepare_version", "check_database", "get_schema")
_ROW_READERS = ("fetchall", "fetchmany", "fetchone")


def _uncast(e: ast.AST) -> ast.AST:
    """cast(T, x) / typing.cast(T, x) -> x"""
    while isinstance(e, ast.Call) and call_name(e) == "cast" and len(e.args) == 2 and not e.keywords:
        e = e.args[1]
    return e


def _always_one_row(sql: str | None) -> bool | None:
    """the statement yields exactly one row whatever the database holds: an aggregate SELECT without grouping, or a PRAGMA that reads a
    setting (None: the text cannot be read)"""
    if sql is None:
        return None
    if _ONE_ROW_PRAGMA.match(sql):
        return True
    return bool(_ONE_ROW_SELECT.match(sql)) and not _NOT_ONE_ROW.search(sql) and "{" not in sql.split("(", 1)[0]


def _exec_sources(frame: _Frame, e: ast.AST, depth: int = 0) -> list[tuple[ast.Call, _Frame]]:
    """the execute calls whose result rows the expression hands on: through casts, single-assignment locals, helper parameters and the
    wrappers iter() / list() / generator expressions"""
    if depth > 6:
        return []
    b, fr = _deref(frame, _uncast(e)) if frame.fi is not None else (_uncast(e), frame)
    b = _uncast(b)
    if isinstance(b, ast.Call) and isinstance(b.func, ast.Attribute) and b.func.attr in _EXEC:
        return [(b, fr)]
    out: list[tuple[ast.Call, _Frame]] = []
    if isinstance(b, ast.Call) and isinstance(b.func, ast.Attribute) and b.func.attr in _ROW_READERS:
        return _exec_sources(fr, b.func.value, depth + 1)
    if isinstance(b, ast.Call) and isinstance(b.func, ast.Name) and b.func.id in ("iter", "list", "tuple", "reversed") and len(b.args) == 1:
        return _exec_sources(fr, b.args[0], depth + 1)
    if isinstance(b, (ast.GeneratorExp, ast.ListComp)):
        for g in b.generators:
            out += _exec_sources(fr, g.iter, depth + 1)
    return out


def _handler_types(frame: _Frame, t: ast.AST | None, depth: int = 0) -> set[str] | None:
    """names of the exception classes an `except <t>` clause catches ({"*"}: everything; None: cannot be read)"""
    if t is None:
        return {"*"}
    if depth > 4:
        return None
    if isinstance(t, (ast.Tuple, ast.List)):
        out: set[str] = set()
        for x in t.elts:
            r = _handler_types(frame, x, depth + 1)
            if r is None:
                return None
            out |= r
        return out
    if isinstance(t, ast.Attribute):
        return {t.attr}
    if isinstance(t, ast.Name):
        if frame.fi is not None and local_defs(frame.fi, t.id):
            d = single_def(frame.fi, t.id)
            return _handler_types(frame, d[0], depth + 1) if d is not None and d[1] is None else None
        r = frame.repo.resolve_name(frame.module, t.id) if frame.module is not None else None
        if isinstance(r, tuple) and r[0] == "const":
            return _handler_types(_Frame(frame.repo, module=r[1]), r[2], depth + 1)
        return {t.id}
    return None


_CATCH_ALL = {"*", "Exception", "BaseException"}


def _exc_taken(frame: _Frame, raised: str, names: set[str]) -> bool:
    """an `except <names>` clause takes an exception of class `raised` (builtin hierarchy, classes of the repository by their bases)"""
    import builtins
    if names & _CATCH_ALL or raised in names:
        return True
    lineage = {raised}
    k = frame.repo.try_cls(raised) if frame.repo is not None else None
    if k is not None:
        lineage |= {c.name for c in k.mro()} | set(k.all_base_names())
    for n in list(lineage):
        b = getattr(builtins, n, None)
        if isinstance(b, type) and issubclass(b, BaseException):
            lineage |= {x.__name__ for x in b.__mro__}
    return bool(lineage & names)


def _caught_here(frame: _Frame, node: ast.AST, exc: str) -> tuple[bool | None, str]:
    """(verdict, exception that leaves the function if the verdict is not True): an exception `exc` raised by node (inside the frame's
    function) is taken by a handler / contextlib.suppress of that function that goes on normally; a handler that takes it and raises another
    exception (a private `no row` exception instead of an Optional result) hands that one outwards.  None: an exception list cannot be read"""
    cur = node
    unread = False
    for p_ in _ancestors(node):
        if p_ is frame.fi.node or isinstance(p_, (ast.FunctionDef, ast.AsyncFunctionDef, ast.Lambda)):
            break
        if isinstance(p_, ast.Try) and any(cur is x for x in p_.body):
            for h in p_.handlers:
                ts = _handler_types(frame, h.type)
                if ts is None:
                    unread = True
                elif _exc_taken(frame, exc, ts):
                    last = h.body[-1]
                    if not isinstance(last, ast.Raise):
                        return True, exc
                    if last.exc is not None:
                        e = last.exc.func if isinstance(last.exc, ast.Call) else last.exc
                        name = (chain(e) or "").split(".")[-1]
                        if not name or (isinstance(e, ast.Name) and h.name == e.id):
                            name = exc if isinstance(e, ast.Name) and h.name == e.id else ""
                        if not name:
                            return None, exc
                        exc = name
                    break
        if isinstance(p_, (ast.With, ast.AsyncWith)) and any(cur is x for x in p_.body):
            for it in p_.items:
                if _swallows(frame.module, it.context_expr):
                    names: set[str] = set()
                    for a in strip_cast(it.context_expr).args:
                        r = _handler_types(frame, a.value if isinstance(a, ast.Starred) else a)
                        if r is None:
                            unread = True
                        else:
                            names |= r
                    if names and _exc_taken(frame, exc, names):
                        return True, exc
        cur = p_
    return (None if unread else False), exc


def _caught(frame: _Frame, node: ast.AST, exc: str) -> bool | None:
    """... in the function itself or around the call that leads to it at any level of the call chain"""
    unread = False
    for lf, ln in [(frame, node), *reversed(frame.chain_calls())]:
        r, exc = _caught_here(lf, ln, exc)
        if r:
            return True
        unread = unread or r is None
    return None if unread else False


def _open_frames(ctx: Ctx) -> list[_Frame]:
    """Database.open run on an IdentityDatabase and on an AttestationsDB, with everything of the object it calls (the hooks check_database /
    get_schema resolve to the subclass), plus the reviewed steps of the open path should open() no longer reach them by plain calls"""
    repo = ctx.repo
    op = repo.method("Database", "open", DB)
    frames: list[_Frame] = []
    for k in (repo.cls("IdentityDatabase", IDB), repo.cls("AttestationsDB", WDB)):
        mine = _all_frames(_Frame(repo, op, cls=k, ctx=ctx))
        for name in _OPEN_PATH:
            m = k.lookup(name)
            if m is not None and not any(fr.fi is m for fr in mine):
                mine += _all_frames(_Frame(repo, m, cls=k, ctx=ctx))
        frames += mine
    return frames


def rule_open_survives(ctx: Ctx) -> None:
    """
    "The database opens again without error": every open() re-runs the schema script, which DELETEs and re-INSERTs the database_version
    record; executescript commits statement by statement, so a kill between the two leaves a database without that row - a state every later
    open must get through.  On the open path a `next(<rows of a query>)` without default raises StopIteration (and the single-row unpacking
    of fetchone() raises TypeError) exactly on such a database, and nothing would ever repair it: the read must be under a handler for that
    exception (or give a default / test for None), unless the query yields a row whatever the database holds (aggregate SELECT, PRAGMA read).
    """
    _G["repo"] = ctx.repo
    frames = _open_frames(ctx)
    ctx.floor("open-survives", len({fr.fi for fr in frames}), 5)
    seen: set[int] = set()
    for fr in frames:
        fi = fr.fi
        if id(fi.node) not in seen:
            ctx.instance("open-survives", fi.where, f"{fi.qualname} is on the open path: its single-row reads were examined", nontrivial=False)
        seen.add(id(fi.node))
        for c in calls(fi):
            if id(c) in seen or not _live(fr, c):
                continue
            if isinstance(c.func, ast.Name) and c.func.id == "next" and len(c.args) == 1 and not c.keywords and not isinstance(c.args[0], ast.Starred) \
                    and not local_defs(fi, "next"):
                srcs = _exec_sources(fr, c.args[0])
                if not srcs:
                    continue                              # not the rows of a query
                seen.add(id(c))
                _check_row_read(ctx, fr, c, srcs, "StopIteration", f"next() over the rows of a query in {fi.qualname}")
            elif isinstance(c.func, ast.Attribute) and c.func.attr == "fetchone" and not c.args:
                uses = _unguarded_row_uses(ctx, fr, c)
                if not uses:
                    continue
                seen.add(id(c))
                srcs = _exec_sources(fr, c.func.value)
                _check_row_read(ctx, fr, uses[0], srcs, "TypeError", f"fetchone() row taken apart without a test for None in {fi.qualname}")


def _check_row_read(ctx: Ctx, fr: _Frame, node: ast.AST, srcs: list, exc: str, what: str) -> None:
    fi = fr.fi
    texts = [t for ec, efr in srcs for t in (_stmt_texts(efr, ec) or [None])]
    one = [_always_one_row(t) for t in texts]
    if srcs and all(x is True for x in one):
        ctx.check(True, "open-survives", fi, node, f"{what}: the query always yields a row")
        return
    caught = _caught(fr, node, exc)
    if caught:
        ctx.check(True, "open-survives", fi, node, f"{what}: {exc} is handled")
        return
    if caught is None or not srcs or any(x is None for x in one):
        raise AnalysisError(f"undecided: cannot tell whether `{norm(node)[:100]}` in {fi.qualname} can meet a query without rows "
                            "(statement text or exception list not readable)")
    shown = next((t for t, x in zip(texts, one) if x is False), "") or ""
    ctx.check(False, "open-survives", fi, node, f"{what}: guarded",
              f"{fi.qualname} reads a single row with `{norm(node)[:90]}` from `{' '.join(shown.split())[:110]}` and no handler takes the {exc} an empty "
              "result raises. Every open() re-runs the schema script (DELETE + INSERT of the database_version record, committed statement by statement by "
              "executescript): a kill between the two statements leaves the table without that row, and then this read fails on every later open - "
              "the database never opens again although nothing stored was lost")


def _unguarded_row_uses(ctx: Ctx, fr: _Frame, c: ast.Call) -> list[ast.AST]:
    """places where the row fetchone() returned is indexed / unpacked without a dominating test that it is not None"""
    fi = fr.fi
    p_ = parent(c)
    while isinstance(p_, ast.Call) and _uncast(p_) is not p_ and any(x is c or _uncast(x) is c for x in p_.args):
        c, p_ = p_, parent(p_)
    if isinstance(p_, ast.Subscript) and p_.value is c:
        return [p_]
    if isinstance(p_, ast.Assign) and p_.value is c:
        if any(isinstance(t, (ast.Tuple, ast.List)) for t in p_.targets):
            return [p_]
        names = [t.id for t in p_.targets if isinstance(t, ast.Name)]
        out: list[ast.AST] = []
        cfg = ctx.cfg(fi)
        for n in walk_no_nested(fi.node):
            use = None
            if isinstance(n, ast.Subscript) and isinstance(n.value, ast.Name) and n.value.id in names and isinstance(n.ctx, ast.Load):
                use, nm = n, n.value.id
            elif isinstance(n, ast.Assign) and isinstance(n.value, ast.Name) and n.value.id in names and any(isinstance(t, (ast.Tuple, ast.List)) for t in n.targets):
                use, nm = n, n.value.id
            if use is None or len(local_defs(fi, nm)) != 1:
                continue
            def known(f: Fact) -> bool:
                if not (isinstance(f.left, ast.Name) and f.left.id == nm):
                    return False
                return (f.op == "truthy" and f.pos) or (f.op == "is" and not f.pos and const_value(f.right) is None and isinstance(f.right, ast.Constant))
            if not any(known(f) for f in facts_at(cfg, use.value if isinstance(use, ast.Subscript) else use)):
                out.append(use)
        return out
    return []


# ------------------------------------------------------------------------------------------------------------------
# the lock wrapper of execute*/commit runs the wrapped method

_INERT_DECORATORS = {"abstractmethod", "staticmethod", "classmethod", "override", "final", "wraps"}


def _cursor_fact(f: Fact, selfname: str, w: FuncInfo | None = None) -> bool | None:
    """True: the fact says the database is open (self._cursor / self._connection set); False: it says it is closed; None: something else"""
    left = strip_cast(f.left)
    name = (rchain(w, left) if w is not None else None) or chain(left)
    if name not in (selfname + "._cursor", selfname + "._connection"):
        return None
    if f.op == "truthy":
        return f.pos
    if f.op == "is" and isinstance(f.right, ast.Constant) and f.right.value is None:
        return not f.pos
    return None


def _wrapper_runs_body(ctx: Ctx, meth: FuncInfo, rule: str) -> None:
    """
    Database.execute / executemany / executescript / commit are reached through their decorators: what the insert functions call is the
    wrapper.  Every normal path through a wrapper must run the wrapped method unless the database is closed (no cursor): a wrapper that can
    return without running it - a lock taken with acquire(blocking=False), a time-out, a rate limit - makes `self.commit()` in an insert a
    request that may be dropped silently (no caller looks at the return value), so the insert returns while its row sits in an open
    transaction and a kill loses it.
    """
    repo = ctx.repo
    for d in meth.node.decorator_list:
        head = d.func if isinstance(d, ast.Call) else d
        last = (chain(head) or "").split(".")[-1]
        if last in _INERT_DECORATORS:
            continue
        target = repo.resolve_name(meth.module, head.id) if isinstance(head, ast.Name) else None
        if not isinstance(target, FuncInfo):
            raise AnalysisError(f"undecided: cannot read the decorator `{norm(d)[:60]}` of {meth.qualname}: does its wrapper always run the method?")
        owner = target.node
        if isinstance(d, ast.Call):                        # a decorator factory: the decorator is the nested function it returns
            inner = [n for n in walk_no_nested(owner) if isinstance(n, (ast.FunctionDef, ast.AsyncFunctionDef)) and n is not owner
                     and any(isinstance(r, ast.Return) and isinstance(r.value, ast.Name) and r.value.id == n.name for r in walk_no_nested(owner))]
            if len(inner) != 1:
                raise AnalysisError(f"undecided: cannot find the decorator that `{norm(d)[:60]}` returns for {meth.qualname}")
            owner = inner[0]
        oi = repo.info(owner)
        if not oi.params():
            raise AnalysisError(f"undecided: decorator {oi.qualname} takes no function")
        fparam = oi.params()[0]
        aliases = {fparam} | {t.id for n in walk_no_nested(owner) if isinstance(n, ast.Assign) and isinstance(n.value, ast.Name) and n.value.id == fparam
                              for t in n.targets if isinstance(t, ast.Name)}

        def runs(c: ast.Call, w) -> bool:
            f = c.func
            if isinstance(f, ast.Name) and not local_defs(w, f.id) and f.id not in w.params():
                return f.id in aliases
            if isinstance(f, ast.Name):
                r = resolve(w, f)
                return isinstance(r, ast.Name) and r.id in aliases and r.id not in w.params() and not local_defs(w, r.id)
            return False
        wrappers = [n for n in walk_no_nested(owner) if isinstance(n, (ast.FunctionDef, ast.AsyncFunctionDef)) and n is not owner
                    and any(runs(c, repo.info(n)) for c in calls(repo.info(n)))]
        returned = [r.value for r in walk_no_nested(owner) if isinstance(r, ast.Return) and r.value is not None]
        if not wrappers:
            if returned and all(isinstance(v, ast.Name) and v.id in aliases for v in returned):
                ctx.check(True, rule, meth, d, f"{meth.qualname}: decorator {target.name} hands the method back unwrapped")
                continue
            raise AnalysisError(f"undecided: cannot find the wrapper that decorator {target.qualname} puts around {meth.qualname}")
        for wn in wrappers:
            w = repo.info(wn)
            cfg = ctx.cfg(w)
            selfname = w.params()[0] if w.params() else "self"
            sure = []
            for c in calls(w):
                if runs(c, w) and all(_cursor_fact(f, selfname, w) is True for f in expr_context_facts(c)):
                    sure += cfg.nodes_for(c)

            def closed(u, v, lab) -> bool:
                return u.kind == "cond" and lab in (True, False) and u.ast is not None and _cursor_fact(fact_of(u.ast, lab), selfname, w) is False
            ok = bool(sure) and not w.is_async and cfg.exit not in cfg.reach(cut_nodes=sure, cut_edge=closed, follow_exc=False)
            ctx.check(ok, rule, w, wn, f"{meth.qualname}: every normal path through {w.qualname} runs the method (unless the database is closed)",
                      f"{w.qualname}, the wrapper that decorator {target.name} puts around {meth.qualname}, can return normally without running "
                      f"{meth.name}() although the database is open. No caller looks at what {meth.name}() returns: an insert whose "
                      f"{'commit' if meth.name == 'commit' else 'statement'} was skipped this way returns normally while its row is not durable, and a kill afterwards loses a "
                      "record whose insert call had returned")


def run(ctx: Ctx) -> None:
    rule_commit_after_insert(ctx)
    rule_no_deferred(ctx)
    rule_pragmas(ctx)
    rule_schema(ctx)
    rule_files_kept(ctx)
    rule_transaction_mode(ctx)
    rule_open_survives(ctx)
    ctx.assume("SQLite's atomic commit in WAL mode with synchronous=NORMAL: a committed transaction survives a process kill; partial transactions are rolled back on reopen (trusted)")
    ctx.assume("power loss (as opposed to process kill) may lose the last WAL commits with synchronous=NORMAL; the property speaks of process kills")


WITNESSES = [
    {"name": "stale side files removed before connecting", "file": DB, "rule": "storage-files-kept",
     "old": "        self._connect()\n        if initial_statements:",
     "new": "        if os.path.isfile(self._file_path + \"-wal\"):\n            os.remove(self._file_path + \"-wal\")\n        self._connect()\n        if initial_statements:"},
    {"name": "failing commit swallowed by Database.commit", "file": DB, "rule": "no-deferred-commit",
     "old": "        cast(\"Connection\", self._connection).commit()\n        return True",
     "new": "        try:\n            cast(\"Connection\", self._connection).commit()\n        except Exception:\n            return False\n        return True"},
    {"name": "failing commit swallowed by insert_metadata", "file": IDB, "rule": "commit-after-insert",
     "old": "(public_key.key_to_bin(), token_pointer, signature, serialized_json_dict))\n        self.commit()",
     "new": "(public_key.key_to_bin(), token_pointer, signature, serialized_json_dict))\n        try:\n            self.commit()\n        except Exception:\n            pass"},
    {"name": "insert_token returns before commit on duplicate", "file": IDB, "rule": "commit-after-insert",
     "old": "                     (public_key.key_to_bin(), previous_token_hash, signature, content_hash, content))\n        self.commit()",
     "new": "                     (public_key.key_to_bin(), previous_token_hash, signature, content_hash, content))\n        if content is not None:\n            self.commit()"},
    {"name": "wallet insert without commit", "file": WDB, "rule": "commit-after-insert",
     "old": "             id_format.encode()))\n        self.commit()", "new": "             id_format.encode()))"},
    {"name": "manager batches inserts in with-block", "file": "ipv8/attestation/identity/manager.py", "rule": "no-deferred-commit",
     "old": "        if self.tree.gather_token(token) is not None:\n            self.database.insert_token(self.public_key, token)\n",
     "new": "        if self.tree.gather_token(token) is not None:\n            with self.database:\n                self.database.insert_token(self.public_key, token)\n"},
    {"name": "commit skipped when exiting", "file": DB, "rule": "no-deferred-commit",
     "old": "        self._logger.debug(\"commit [%s]\", self._file_path)\n        cast(\"Connection\", self._connection).commit()\n        return True",
     "new": "        self._logger.debug(\"commit [%s]\", self._file_path)\n        if exiting:\n            cast(\"Connection\", self._connection).commit()\n        return True"},
    {"name": "databases start deferred", "file": DB, "rule": "no-deferred-commit",
     "old": "        self._pending_commits = 0\n\n    def _assert", "new": "        self._pending_commits = 1\n\n    def _assert"},
    {"name": "synchronous switched off", "file": DB, "rule": "pragmas",
     "old": "            cursor.execute(\"PRAGMA synchronous = NORMAL\")", "new": "            cursor.execute(\"PRAGMA synchronous = OFF\")"},
    {"name": "WAL only for small pages", "file": DB, "rule": "pragmas",
     "old": "        if not (journal_mode == \"WAL\" or self._file_path == \":memory:\"):", "new": "        if not (journal_mode == \"WAL\" or self._file_path == \":memory:\") and page_size > 8192:"},
    {"name": "DELETE mode not recorded", "file": DB, "rule": "pragmas",
     "old": "                cursor.executescript(\"PRAGMA journal_mode = DELETE\")\n                journal_mode = \"DELETE\"", "new": "                cursor.executescript(\"PRAGMA journal_mode = DELETE\")"},
    {"name": "pragma elsewhere", "file": IDB, "rule": "pragmas",
     "old": "        self.executescript(self.get_schema(database_version_num))\n        self.commit()",
     "new": "        self.executescript(self.get_schema(database_version_num))\n        self.execute(\"PRAGMA synchronous = OFF\")\n        self.commit()"},
    {"name": "schema recreates tables", "file": IDB, "rule": "schema-reopen",
     "old": "                 CREATE TABLE IF NOT EXISTS Metadata(", "new": "                 DROP TABLE IF EXISTS Metadata;\n                 CREATE TABLE IF NOT EXISTS Metadata("},
    {"name": "check_database does not commit", "file": IDB, "rule": "schema-reopen",
     "old": "        self.executescript(self.get_schema(database_version_num))\n        self.commit()", "new": "        self.executescript(self.get_schema(database_version_num))"},
    {"name": "token columns swapped", "file": IDB, "rule": "schema-reopen",
     "old": "                     \"(public_key, previous_token_hash, signature, content_hash, content) \"",
     "new": "                     \"(public_key, previous_token_hash, content_hash, signature, content) \""},
    {"name": "select order differs from from_database_tuple", "file": IDB, "rule": "schema-reopen",
     "old": "        metadata = to_list(self.execute(\"SELECT token_pointer, signature, serialized_json_dict \"",
     "new": "        metadata = to_list(self.execute(\"SELECT signature, token_pointer, serialized_json_dict \""},
    {"name": "plain INSERT on keyed table", "file": IDB, "rule": "schema-reopen",
     "old": "        self.execute(\"INSERT OR IGNORE INTO Metadata \"", "new": "        self.execute(\"INSERT INTO Metadata \""},
    {"name": "nested with-block forgets deferred commits", "file": DB, "rule": "no-deferred-commit",
     "old": "        self._pending_commits = max(1, self._pending_commits)\n", "new": "        self._pending_commits = 1\n"},
    {"name": "reload through the bounded intake path", "file": "ipv8/attestation/identity/manager.py", "rule": "schema-reopen",
     "old": "            self.tree.elements[token.get_hash()] = token\n", "new": "            self.tree.gather_token(token)\n"},
    {"name": "owner and authority keys bound to each other's column", "file": IDB, "rule": "schema-reopen",
     "old": "(public_key.key_to_bin(), authority_key.key_to_bin(), metadata_pointer, signature))",
     "new": "(authority_key.key_to_bin(), public_key.key_to_bin(), metadata_pointer, signature))"},
    {"name": "connection opened without implicit transactions", "file": DB, "rule": "transaction-mode",
     "old": "sqlite3.connect(self._file_path, check_same_thread=False)", "new": "sqlite3.connect(self._file_path, check_same_thread=False, isolation_level=None)"},
    {"name": "connection switched to autocommit after connecting", "file": DB, "rule": "transaction-mode",
     "old": "        self._connection.text_factory = bytes\n", "new": "        self._connection.text_factory = bytes\n        self._connection.isolation_level = None\n"},
    {"name": "failing commit swallowed by contextlib.suppress", "rule": "no-deferred-commit", "edits": [
        {"file": DB, "old": "import os\n", "new": "import os\nfrom contextlib import suppress\n"},
        {"file": DB, "old": "        cast(\"Connection\", self._connection).commit()\n        return True",
         "new": "        with suppress(Exception):\n            cast(\"Connection\", self._connection).commit()\n        return True"}]},
    {"name": "single-exit commit() reports success on the deferred path", "file": DB, "rule": "no-deferred-commit",
     "old": "        if self._pending_commits:\n            self._logger.debug(\"defer commit [%s]\", self._file_path)\n            self._pending_commits += 1\n            return False\n\n"
            "        self._logger.debug(\"commit [%s]\", self._file_path)\n        cast(\"Connection\", self._connection).commit()\n        return True",
     "new": "        done = True\n        if self._pending_commits:\n            self._pending_commits += 1\n        else:\n            cast(\"Connection\", self._connection).commit()\n        return done"},
    {"name": "flagged commit() skips the real commit unless exiting", "file": DB, "rule": "no-deferred-commit",
     "old": "        if self._pending_commits:\n            self._logger.debug(\"defer commit [%s]\", self._file_path)\n            self._pending_commits += 1\n            return False\n\n"
            "        self._logger.debug(\"commit [%s]\", self._file_path)\n        cast(\"Connection\", self._connection).commit()\n        return True",
     "new": "        idle = not self._pending_commits\n        if idle and exiting:\n            cast(\"Connection\", self._connection).commit()\n        elif not idle:\n            self._pending_commits += 1\n        return idle and exiting"},
    {"name": "insert commits only when a flag says a row changed", "file": IDB, "rule": "commit-after-insert",
     "old": "(public_key.key_to_bin(), token_pointer, signature, serialized_json_dict))\n        self.commit()",
     "new": "(public_key.key_to_bin(), token_pointer, signature, serialized_json_dict))\n        changed = token_pointer is not None\n        if changed:\n            self.commit()"},
    {"name": "missing version record makes every later open raise StopIteration (the defect repaired in /repo)", "file": DB, "rule": "open-survives",
     "old": "            except (OperationalError, StopIteration):", "new": "            except OperationalError:"},
    {"name": "version read handler takes StopIteration only to raise", "file": DB, "rule": "open-survives",
     "old": "                # the \"database_version\" key was not found\n                version = b\"0\"",
     "new": "                raise RuntimeError(\"no version\")"},
    {"name": "lock wrapper gives up instead of waiting", "file": DB, "rule": "no-deferred-commit",
     "old": "        with db_locks[self._file_path]:\n            if self._cursor:\n                return f(self, *args, **kwargs)\n            return None",
     "new": "        if not db_locks[self._file_path].acquire(blocking=False):\n            return False\n        try:\n"
            "            return f(self, *args, **kwargs) if self._cursor else None\n        finally:\n            db_locks[self._file_path].release()"},
    {"name": "insert skipped because memory says the row was written", "file": IDB, "rule": "commit-after-insert",
     "old": "        token_pointer, signature, serialized_json_dict = metadata.to_database_tuple()\n",
     "new": "        token_pointer, signature, serialized_json_dict = metadata.to_database_tuple()\n        if token_pointer in self.__dict__.setdefault(\"_seen\", set()):\n            return\n"},
    {"name": "schema script skipped for a current version while a table is created after the version record", "rule": "schema-reopen", "edits": [
        {"file": IDB, "old": "                 INSERT INTO option(key, value) VALUES('database_version', '%s');\n",
         "new": "                 INSERT INTO option(key, value) VALUES('database_version', '%s');\n                 CREATE TABLE IF NOT EXISTS Extra(k BLOB);\n"},
        {"file": IDB, "old": "        database_version_num = int(database_version) or self.LATEST_DB_VERSION\n",
         "new": "        if int(database_version) == self.LATEST_DB_VERSION:\n            return self.LATEST_DB_VERSION\n        database_version_num = int(database_version) or self.LATEST_DB_VERSION\n"}]},
]
