"""C19 - Stored identity data survives a crash at any point (the application's half of durability)."""
from __future__ import annotations

import ast
import re

from ..core import Ctx
from ..match import arg, call_name, calls, fact_of, facts_at, local_defs, mentions, rchain, resolve, single_def, stores
from ..model import AnalysisError, ClassInfo, FuncInfo, ancestors, chain, const_value, enclosing_stmt, norm, parent, strip_cast, walk_no_nested

LEVEL = "other"
EXPLANATION = (
    "The application's half of durability: in every insert_* of IdentityDatabase and AttestationsDB each normal path from "
    "the INSERT to the return passes self.commit(); no `with <database>:` block (which defers commits) exists anywhere, "
    "so commit() reaches connection.commit(); _pending_commits is touched only by the deferral mechanism, __exit__ always "
    "resets it and __enter__ never lowers it (a nested block keeps the commits its enclosing block deferred); the journal "
    "settings are tracked through _initial_statements (file databases end in WAL and synchronous NORMAL, the temporary "
    "DELETE mode is always followed by WAL) and no other code issues journal/synchronous pragmas; schemas are "
    "CREATE TABLE IF NOT EXISTS, keyed inserts are INSERT OR IGNORE, check_database commits, and the column order of "
    "INSERT / SELECT agrees with to_database_tuple / from_database_tuple (each column is bound to the field / key of "
    "the same name, whatever the locals are called) so a reopened database rebuilds the same objects, and the pseudonym "
    "reload places every token it reads back into tree.elements (not through the bounded gather_token intake). SQLite's atomic commit and behaviour at each kill point are trusted, not explored."
)

DB = "ipv8/database.py"
IDB = "ipv8/attestation/identity/database.py"
WDB = "ipv8/attestation/wallet/database.py"


def _str_of(fi: FuncInfo, e: ast.AST | None, depth: int = 0) -> str | None:
    """Text of a statement expression: literal, f-string ({} for the holes), `a + b`, `fmt % x`, `fmt.format(..)`,
    also when it reaches the call through single-assignment locals.  None when it is not a string we can read."""
    if e is None or depth > 6:
        return None
    e = resolve(fi, e)
    if isinstance(e, ast.Constant) and isinstance(e.value, str):
        return e.value
    if isinstance(e, ast.JoinedStr):
        return "".join(v.value if isinstance(v, ast.Constant) and isinstance(v.value, str) else "{}" for v in e.values)
    if isinstance(e, ast.BinOp) and isinstance(e.op, ast.Add):
        l, r = _str_of(fi, e.left, depth + 1), _str_of(fi, e.right, depth + 1)
        return None if l is None or r is None else l + r
    if isinstance(e, ast.BinOp) and isinstance(e.op, ast.Mod):
        return _str_of(fi, e.left, depth + 1)
    if isinstance(e, ast.Call) and isinstance(e.func, ast.Attribute) and e.func.attr == "format":
        return _str_of(fi, e.func.value, depth + 1)
    return None


def _sql_of(call: ast.Call, fi: FuncInfo) -> str:
    a = arg(call, 0, "statement")
    if a is None:
        return ""
    s = _str_of(fi, a)
    return s if s is not None else norm(a)


def _stored_values(fi: FuncInfo, attr_chain: str) -> list[tuple[ast.stmt, ast.AST | None]]:
    """(statement, stored value) for every store into `attr_chain`; the value of a tuple assignment is the paired
    element (`a.x, y = 0, a.x` stores 0 into a.x); None when the value is not syntactically known (augmented, unpacking)."""
    out: list[tuple[ast.stmt, ast.AST | None]] = []
    for n in walk_no_nested(fi.node):
        if isinstance(n, ast.Assign):
            for t in n.targets:
                if chain(t) == attr_chain:
                    out.append((n, n.value))
                elif isinstance(t, (ast.Tuple, ast.List)):
                    for i, e in enumerate(t.elts):
                        if chain(e) == attr_chain:
                            v = n.value
                            out.append((n, v.elts[i] if isinstance(v, (ast.Tuple, ast.List)) and len(v.elts) == len(t.elts)
                                        and not any(isinstance(x, ast.Starred) for x in v.elts) else None))
        elif isinstance(n, ast.AnnAssign) and n.value is not None and chain(n.target) == attr_chain:
            out.append((n, n.value))
        elif isinstance(n, ast.AugAssign) and chain(n.target) == attr_chain:
            out.append((n, None))
        elif isinstance(n, ast.NamedExpr) and chain(n.target) == attr_chain:
            out.append((enclosing_stmt(n), n.value))
    return out


def _is_int(e: ast.AST | None, fi: FuncInfo | None = None):
    """int value of a literal (through a single-assignment local), else None"""
    if e is None:
        return None
    if fi is not None:
        e = resolve(fi, e)
    v = const_value(e)
    return v if isinstance(v, int) and not isinstance(v, bool) else None


def insert_functions(ctx: Ctx) -> list[FuncInfo]:
    out = []
    for rel in (IDB, WDB):
        for fi in ctx.repo.module(rel).all_functions:
            if fi.cls is not None and fi.cls.is_subclass_of("Database") and fi.name.startswith("insert_"):
                out.append(fi)
    return out


def rule_commit_after_insert(ctx: Ctx) -> None:
    ins = insert_functions(ctx)
    ctx.floor("commit-after-insert", len(ins), 4)
    for fi in ins:
        cfg = ctx.cfg(fi)
        ex = [c for c in calls(fi, "self.execute") if re.match(r"\s*(INSERT|REPLACE|UPDATE|DELETE)", _sql_of(c, fi), re.I)]
        # the write may be issued by a helper of the same class that is handed the statement (one level)
        helper_sites = []
        if not ex and fi.cls is not None:
            for c in calls(fi):
                ch = chain(c.func) or ""
                if ch.startswith("self.") and ch.count(".") == 1 and c.args and re.match(r"\s*(INSERT|REPLACE|UPDATE|DELETE)", _sql_of(c, fi), re.I):
                    h = fi.cls.lookup(call_name(c))
                    if h is not None:
                        for e in calls(h, ["self.execute", "self.executemany"]):
                            helper_sites.append((h, e, c))
        ctx.check(bool(ex) or bool(helper_sites), "commit-after-insert", fi, fi.node, f"{fi.qualname} issues its INSERT through self.execute", f"{fi.qualname} has no recognisable write statement")
        cm = [n for c in calls(fi, "self.commit") for n in cfg.nodes_for(c)]
        for e in ex:
            ok = bool(cm) and all(cfg.always_followed_by(n, cm) for n in cfg.nodes_for(e))
            ctx.check(ok, "commit-after-insert", fi, e, f"{fi.qualname}: every normal path from the INSERT to the return passes self.commit()",
                      f"{fi.qualname} can return after its INSERT without committing: a record whose insert call returned is lost by a crash")
        for h, e, c in helper_sites:
            hcfg = ctx.cfg(h)
            hcm = [n for k in calls(h, "self.commit") for n in hcfg.nodes_for(k)]
            ok = (bool(hcm) and all(hcfg.always_followed_by(n, hcm) for n in hcfg.nodes_for(e))) or \
                (bool(cm) and all(cfg.always_followed_by(n, cm) for n in cfg.nodes_for(c)))
            ctx.check(ok, "commit-after-insert", fi, c, f"{fi.qualname}: the helper {h.name} (or the caller) commits on every normal path after the INSERT",
                      f"{fi.qualname} writes through {h.qualname}, which can return after the INSERT without committing (the commit is conditional): "
                      "a record whose insert call returned is lost by a crash")
        for c in calls(fi, "self.commit"):
            ctx.check(not c.args and not c.keywords, "commit-after-insert", fi, c, "plain commit()", "commit is called with arguments that change its meaning")
        ctx.check(not fi.is_async and not fi.node.decorator_list, "commit-after-insert", fi, fi.node, f"{fi.qualname} is a plain synchronous method",
                  f"{fi.qualname} is wrapped/async: the commit may not have happened when the call returns")


PENDING = "self._pending_commits"


def _is_pending(fi: FuncInfo, e: ast.AST) -> bool:
    return rchain(fi, e) == PENDING


def _pending_is_zero(f) -> bool:
    """does this dominating fact say that self._pending_commits is 0 (the counter is never negative)?"""
    if f.op == "truthy":
        return not f.pos and chain(strip_cast(f.left)) == PENDING
    l, r = chain(strip_cast(f.left)), chain(strip_cast(f.right))
    lv, rv = _is_int(f.left), _is_int(f.right)
    if f.op == "eq" and f.pos:
        return (l == PENDING and rv == 0) or (r == PENDING and lv == 0)
    if f.op == "lt" and f.pos:          # pending < 1
        return l == PENDING and rv is not None and rv <= 1
    if f.op == "lt" and not f.pos:      # not (0 < pending)  ==  pending <= 0
        return r == PENDING and lv is not None and lv <= 0
    return False


def _keeps_pending(ctx: Ctx, fi: FuncInfo, cfg, v: ast.AST, depth: int = 0) -> bool | None:
    """Is the stored value >= the current counter (True), possibly smaller (False), or unreadable (None)?"""
    site = v                      # where the value is used: the guards that dominate the use decide about a constant
    v = resolve(fi, v)
    if depth > 4:
        return None
    if _is_pending(fi, v):
        return True
    if isinstance(v, ast.Call) and chain(v.func) == "max" and not v.keywords and not any(isinstance(a, ast.Starred) for a in v.args):
        return True if any(_is_pending(fi, resolve(fi, a)) for a in v.args) else False
    if isinstance(v, ast.BoolOp) and isinstance(v.op, ast.Or):
        # `pending or k`: pending when it is non-zero, k only when it is 0
        return True if _is_pending(fi, resolve(fi, v.values[0])) else False
    if isinstance(v, ast.IfExp):
        a, b = _keeps_pending(ctx, fi, cfg, v.body, depth + 1), _keeps_pending(ctx, fi, cfg, v.orelse, depth + 1)
        return None if a is None or b is None else a and b
    if isinstance(v, ast.BinOp) and isinstance(v.op, ast.Add):
        for x, y in ((v.left, v.right), (v.right, v.left)):
            k = _is_int(y, fi)
            if _is_pending(fi, resolve(fi, x)) and k is not None:
                return k >= 0
        return None
    k = _is_int(v)
    if k is not None:
        # a constant is fine only where the counter is known to be 0
        return k >= 0 and any(_pending_is_zero(f) for f in facts_at(cfg, site))
    return None


def _enter_keeps_pending(ctx: Ctx) -> None:
    """
    `with database:` blocks nest (a batching helper called from inside a batch).  commit() inside a block only counts
    (_pending_commits += 1) and the OUTERMOST __exit__ commits iff the count it finds is > 1.  So __enter__ may raise the
    counter to 1 but must never lower it: if a nested __enter__ forgets the commits already counted, the inner __exit__
    (which saw none of its own) and the outer __exit__ (which finds 0) both skip connection.commit(), and every insert of
    the finished batch stays in an open transaction - lost by a kill although its insert call and the whole batch returned.
    """
    repo = ctx.repo
    en = repo.method("Database", "__enter__", DB)
    cfg = ctx.cfg(en)
    sv = _stored_values(en, PENDING)
    if not sv:
        ctx.instance("no-deferred-commit", en.where(), "__enter__ does not write _pending_commits (nothing is deferred)", nontrivial=False)
    for st, v in sv:
        if v is None and isinstance(st, ast.AugAssign):
            k = _is_int(st.value, en)
            verdict = (k >= 0) if isinstance(st.op, ast.Add) and k is not None else None
        else:
            verdict = None if v is None else _keeps_pending(ctx, en, cfg, v)
        if verdict is None:
            raise AnalysisError(f"undecided: cannot tell whether `{norm(st)}` in Database.__enter__ keeps the commits already deferred")
        ctx.check(verdict, "no-deferred-commit", en, st, "__enter__ never lowers _pending_commits (a nested with-block keeps the commits deferred by the enclosing one)",
                  "Database.__enter__ overwrites _pending_commits: entering a nested `with database:` block forgets the commits already deferred by the "
                  "enclosing block, so neither __exit__ calls connection.commit() and the inserts of a finished batch are lost by a kill")


def rule_no_deferred(ctx: Ctx) -> None:
    repo = ctx.repo
    dbcls = repo.cls("Database", DB)
    n_with = 0
    for m in repo.modules.values():
        for node in ast.walk(m.tree):
            if isinstance(node, (ast.With, ast.AsyncWith)):
                n_with += 1
                for it in node.items:
                    e = strip_cast(it.context_expr)
                    fi = repo.function_of(node)
                    t = repo.type_of_expr(fi, e) if fi is not None else None
                    looks = (chain(e) or "").split(".")[-1] in ("database", "db", "_database") or (t is not None and (t is dbcls or t.is_subclass_of("Database")))
                    if isinstance(e, ast.Name) and e.id == "self" and fi is not None and fi.cls is not None and fi.cls.is_subclass_of("Database"):
                        looks = True
                    ctx.check(not looks, "no-deferred-commit", fi or m.relpath, node, "no `with <database>:` block (commits are never deferred)",
                              "a `with database:` block defers commit(): inserts inside it return before their data is committed")
    ctx.floor("no-deferred-commit.with-statements-scanned", n_with, 20)
    # _pending_commits only in the deferral mechanism
    for m, fi, a in repo.attribute_uses("_pending_commits"):
        if isinstance(a.ctx, ast.Store):
            ctx.check(fi is not None and fi.qualname in ("Database.__init__", "Database.__enter__", "Database.__exit__", "Database.commit"), "no-deferred-commit",
                      fi or m.relpath, enclosing_stmt(a), "_pending_commits written only by __init__/__enter__/__exit__/commit", "_pending_commits is set elsewhere: commits can be deferred silently")
    # leaving a `with database:` block always ends the deferral, also when the body raised
    ex_ = repo.method("Database", "__exit__", DB)
    cfge = ctx.cfg(ex_)
    resets = [n for s_, v in _stored_values(ex_, PENDING) if _is_int(v, ex_) == 0 for n in cfge.nodes_for(s_)]
    ok = bool(resets) and cfge.exit not in cfge.reach(cut_nodes=resets, follow_exc=False)
    ctx.check(ok, "no-deferred-commit", ex_, ex_.node, "__exit__ resets _pending_commits to 0 on every path (also when the body raised)",
              "a `with database:` block whose body raises leaves the database in deferred-commit mode: every later insert returns without being committed")
    init = repo.method("Database", "__init__", DB)
    iv = _stored_values(init, PENDING)
    ok = bool(iv) and all(_is_int(v, init) == 0 for _, v in iv)
    ctx.check(ok, "no-deferred-commit", init, init.node, "_pending_commits starts at 0", "databases start in deferred-commit mode")
    _enter_keeps_pending(ctx)
    cm = repo.method("Database", "commit", DB)
    cfg = ctx.cfg(cm)
    cc = [c for c in calls(cm) if call_name(c) == "commit" and "_connection" in norm(c.func)]
    ctx.anchor(cc, "connection.commit() in Database.commit")
    for c in cc:
        fs = facts_at(cfg, c)
        only = [f for f in fs if not _pending_is_zero(f)]
        ctx.check(any(_pending_is_zero(f) for f in fs) and not only, "no-deferred-commit", cm, c,
                  "connection.commit() runs whenever no commits are pending", "Database.commit() skips the real commit for another reason than a pending with-block", [str(f) for f in fs])
    rets = [r for r in walk_no_nested(cm.node) if isinstance(r, ast.Return) and const_value(r.value) is True]
    cn = [n for c in cc for n in cfg.nodes_for(c)]
    ctx.check(bool(rets) and all(cfg.must_complete(n, cn) for r in rets for n in cfg.nodes_for(r)), "no-deferred-commit", cm, cm.node,
              "commit() returns True only after connection.commit()", "commit() reports success without committing")
    cl = repo.method("Database", "close", DB)
    cfgc = ctx.cfg(cl)
    cmt = [c for c in calls(cl, "self.commit")]
    ok = bool(cmt) and all(any(f.op == "truthy" and f.pos and chain(f.left) == "commit" for f in facts_at(cfgc, c)) for c in cmt)
    clos = [n for c in calls(cl) if call_name(c) == "close" for n in cfgc.nodes_for(c)]
    ok = ok and all(not any(x in cfgc.reach([v for n in clos for v, lab in n.succ]) for x in cfgc.nodes_for(c)) for c in cmt)
    d = [a for a in cl.node.args.defaults]
    ok = ok and d and const_value(d[-1]) is True
    ctx.check(ok, "no-deferred-commit", cl, cl.node, "close(commit=True) commits before closing the connection", "close() does not commit before closing")


def _eq_const(f, fi: FuncInfo | None = None):
    """(chain of the non-constant side, constant) of an equality fact / atom, whichever side the constant is on"""
    if f.op != "eq":
        return None, None
    for a, b in ((f.left, f.right), (f.right, f.left)):
        v = const_value(b)
        if isinstance(v, str) and not isinstance(const_value(a), str):
            a = strip_cast(a)
            if isinstance(a, ast.Name) and fi is not None and isinstance(resolve(fi, a), ast.Attribute):
                a = resolve(fi, a)          # `path = self._file_path` ... `path == ":memory:"`
            return (chain(a) or norm(a)), v
    return None, None


def _members(e: ast.AST | None):
    """constant members of a tuple / list / set literal"""
    if isinstance(e, (ast.Tuple, ast.List, ast.Set)):
        vals = [const_value(x) for x in e.elts]
        if all(isinstance(v, (str, int)) for v in vals):
            return set(vals)
    return None


def rule_pragmas(ctx: Ctx) -> None:
    repo = ctx.repo
    fi = repo.method("Database", "_initial_statements", DB)
    cfg = ctx.cfg(fi)
    prag = []
    for c in calls(fi):
        if call_name(c) in ("execute", "executescript"):
            s = _sql_of(c, fi)
            m = re.match(r"\s*PRAGMA\s+(\w+)\s*=\s*(\w+)", s, re.I)
            if m:
                prag.append((m.group(1).lower(), m.group(2).upper(), c))
    jm = [(v, c) for k, v, c in prag if k == "journal_mode"]
    sy = [(v, c) for k, v, c in prag if k == "synchronous"]
    ctx.check(sorted(v for v, _ in jm) == ["DELETE", "WAL"], "pragmas", fi, fi.node, "journal_mode is set only to DELETE (temporarily) and WAL", f"journal_mode pragmas: {[v for v, _ in jm]}")
    ctx.check([v for v, _ in sy] == ["NORMAL"], "pragmas", fi, fi.node, "synchronous is only ever set to NORMAL", f"synchronous pragmas: {[v for v, _ in sy]} (durability weakened)")
    wal = [c for v, c in jm if v == "WAL"]
    dele = [c for v, c in jm if v == "DELETE"]
    if wal:
        fs = facts_at(cfg, wal[0])
        # guard: not (journal_mode == "WAL" or file_path == ":memory:")
        eqs = [(f, *_eq_const(f, fi)) for f in fs]
        a = any(not f.pos and l == "journal_mode" and v == "WAL" for f, l, v in eqs)
        b = any(not f.pos and l == "self._file_path" and v == ":memory:" for f, l, v in eqs)
        extra = [f for f, l, v in eqs if not (not f.pos and (l, v) in (("journal_mode", "WAL"), ("self._file_path", ":memory:")))]
        ctx.check(a and b and not extra, "pragmas", fi, wal[0], "WAL is switched on exactly when the mode is not WAL and the database is a file",
                  "the WAL switch depends on another condition: file databases can stay in a rollback-journal mode that was not chosen", [str(f) for f in fs])
    if dele and wal:
        # after the temporary DELETE mode the local mode variable is updated so that the WAL branch fires
        upd = [s for s in walk_no_nested(fi.node) if isinstance(s, ast.Assign) and norm(s.targets[0]) == "journal_mode" and const_value(s.value) == "DELETE"]
        dn = cfg.nodes_for(dele[0])
        un = [n for s in upd for n in cfg.nodes_for(s)]
        ok = bool(un) and all(cfg.always_followed_by(n, un) for n in dn)
        wn = cfg.nodes_for(wal[0])
        # after `journal_mode = "DELETE"` (checked: always follows the pragma, no later rebinding) the test
        # `journal_mode == "WAL"` is false, so its true edge is infeasible on these paths
        after_upd = cfg.reach([v for n in un for v, lab in n.succ if lab != "exc"])
        later = [d for d in local_defs(fi, "journal_mode") if d[0] not in upd and any(n in after_upd for n in cfg.nodes_for(d[0]))]
        ok = ok and not later

        def mem_true(u, v, lab) -> bool:
            # the edge on which `journal_mode == "WAL"` / `self._file_path == ":memory:"` holds (either spelling of the test)
            if u.kind != "cond" or lab not in (True, False):
                return False
            f = fact_of(u.ast, lab)
            return f.pos and _eq_const(f, fi) in (("journal_mode", "WAL"), ("self._file_path", ":memory:"))
        r = cfg.reach([v for n in un for v, lab in n.succ if lab != "exc"], cut_nodes=wn, cut_edge=mem_true, follow_exc=False)
        ok = ok and cfg.exit not in r
        ctx.check(ok, "pragmas", fi, dele[0], "the temporary DELETE journal mode is always followed by the switch back to WAL (file databases)",
                  "after changing the page size a file database can be left in DELETE journal mode")
    if sy:
        fs = facts_at(cfg, sy[0][1])
        ok = any(f.op == "in" and not f.pos and norm(f.left) == "synchronous" and _members(resolve(fi, f.right)) == {"NORMAL", 1} for f in fs) and len(fs) == 1
        ctx.check(ok, "pragmas", fi, sy[0][1], "synchronous is forced to NORMAL whenever it is anything else", "synchronous can stay at a weaker (OFF) or is forced under an unrelated condition")
    # nobody else touches these pragmas
    n = 0
    for m in repo.modules.values():
        for node in ast.walk(m.tree):
            if isinstance(node, ast.Constant) and isinstance(node.value, str) and re.search(r"PRAGMA\s+(journal_mode|synchronous|locking_mode)\s*=", node.value, re.I):
                f2 = repo.function_of(node)
                n += 1
                ctx.check(f2 is not None and f2.qualname == "Database._initial_statements", "pragmas", f2 or m.relpath, node.value.strip(),
                          "journal/synchronous pragmas only in Database._initial_statements", "journal or synchronous settings are changed outside _initial_statements")
    ctx.floor("pragmas", n, 3)
    op = repo.method("Database", "open", DB)
    cfgo = ctx.cfg(op)
    isc = [c for c in calls(op, "self._initial_statements")]
    ok = bool(isc) and all(any(f.op == "truthy" and f.pos and chain(f.left) == "initial_statements" for f in facts_at(cfgo, c)) and len(facts_at(cfgo, c)) == 1 for c in isc)
    defaults = {a.arg: const_value(d) for a, d in zip(op.node.args.args[-len(op.node.args.defaults):], op.node.args.defaults)}
    ok = ok and defaults.get("initial_statements") is True and defaults.get("prepare_visioning") is True
    ctx.check(ok, "pragmas", op, op.node, "open() applies the initial statements by default", "open() does not apply the journal settings by default")
    for m, f2, c in repo.callers_of_name("open"):
        if f2 is None or not m.relpath.startswith("ipv8/attestation/"):
            continue
        recv = chain(c.func) or ""
        if "database" in recv:
            ok = not any(const_value(a) is False for a in c.args) and not any(const_value(k.value) is False for k in c.keywords)
            ctx.check(ok, "pragmas", f2, c, "identity/attestation databases are opened with default arguments", "a database is opened with the journal settings or versioning switched off")


_COLS = re.compile(r"\(([^()]*)\)")


def _insert_columns(sql: str) -> list[str]:
    m = re.search(r"INTO\s+[\w{}]+\s*\(([^)]*)\)", sql, re.I)
    return [c.strip() for c in m.group(1).split(",")] if m else []


def _select_columns(sql: str) -> list[str]:
    m = re.search(r"SELECT\s+(.*?)\s+FROM", sql, re.I | re.S)
    return [c.strip() for c in m.group(1).split(",")] if m else []


def _tdt_fields(tdt: FuncInfo) -> list[str] | None:
    """attribute names returned (in order) by to_database_tuple; None when the returns are not one readable tuple"""
    shapes = set()
    for r in walk_no_nested(tdt.node):
        if not isinstance(r, ast.Return):
            continue
        v = resolve(tdt, r.value) if r.value is not None else None
        if not isinstance(v, (ast.Tuple, ast.List)) or any(isinstance(x, ast.Starred) for x in v.elts):
            return None
        names = []
        for x in v.elts:
            c = rchain(tdt, x) or norm(x)
            names.append(c[5:] if c.startswith("self.") and c.count(".") == 1 else c)
        shapes.add(tuple(names))
    return list(next(iter(shapes))) if len(shapes) == 1 else None


def _is_tdt_call(fi: FuncInfo, e: ast.AST | None) -> bool:
    e = resolve(fi, e) if e is not None else None
    return isinstance(e, ast.Call) and call_name(e) == "to_database_tuple" and not e.args and not e.keywords


def _bind_source(fi: FuncInfo, x: ast.AST, depth: int = 0) -> tuple:
    """Where one bound value comes from: ("field", j) = element j of <obj>.to_database_tuple(), ("key", p) = p.key_to_bin()
    of parameter p, ("other", text) otherwise.  Local names do not matter, only what they were assigned from."""
    x = strip_cast(x)
    if isinstance(x, ast.Name) and depth < 6:
        d = single_def(fi, x.id)
        if d is not None:
            v, j = d
            if j is not None:
                return ("field", j) if _is_tdt_call(fi, v) else ("other", norm(x))
            return _bind_source(fi, v, depth + 1)
        return ("other", norm(x))
    if isinstance(x, ast.Subscript) and _is_tdt_call(fi, x.value):
        j = _is_int(x.slice)
        if j is not None and j >= 0:
            return ("field", j)
    if isinstance(x, ast.Call) and isinstance(x.func, ast.Attribute) and x.func.attr == "key_to_bin" and not x.args and not x.keywords:
        base = rchain(fi, x.func.value)
        if base in fi.params():
            return ("key", base)
    return ("other", norm(x))


def _bind_items(fi: FuncInfo, e: ast.AST | None, nfields: int, depth: int = 0) -> list[tuple] | None:
    """the bindings expression of an execute call as a flat list of sources (tuple / list literal, through a local,
    `(k,) + t`, `(k, *t)`, tuple(...)); None when it cannot be read"""
    if e is None or depth > 6:
        return None
    e = resolve(fi, e)
    if isinstance(e, (ast.Tuple, ast.List)):
        out: list[tuple] = []
        for x in e.elts:
            if isinstance(x, ast.Starred):
                sub = _bind_items(fi, x.value, nfields, depth + 1)
                if sub is None:
                    return None
                out += sub
            else:
                out.append(_bind_source(fi, x))
        return out
    if isinstance(e, ast.BinOp) and isinstance(e.op, ast.Add):
        l, r = _bind_items(fi, e.left, nfields, depth + 1), _bind_items(fi, e.right, nfields, depth + 1)
        return None if l is None or r is None else l + r
    if isinstance(e, ast.Call) and chain(e.func) in ("tuple", "list") and len(e.args) == 1 and not e.keywords:
        return _bind_items(fi, e.args[0], nfields, depth + 1)
    if _is_tdt_call(fi, e):
        return [("field", j) for j in range(nfields)]
    return None


_WRAP = ("list", "tuple", "sorted", "set", "frozenset", "iter", "reversed")


def _is_token_read(fi: FuncInfo, e: ast.AST | None, depth: int = 0) -> bool:
    """e evaluates to what get_tokens_for returned (possibly re-packed by list()/sorted()/...: same members)"""
    e = resolve(fi, e) if e is not None else None
    if not isinstance(e, ast.Call) or depth > 4:
        return False
    if call_name(e) == "get_tokens_for":
        return True
    return chain(e.func) in _WRAP and bool(e.args) and _is_token_read(fi, e.args[0], depth + 1)


def _keyed_store(fi: FuncInfo, st: ast.AST, base: str, var: str) -> bool:
    """st is `<base>[<var>.get_hash()] = <var>` (aliases of the base / the hash followed)"""
    if not isinstance(st, ast.Assign) or len(st.targets) != 1 or not isinstance(st.targets[0], ast.Subscript):
        return False
    t = st.targets[0]
    k = resolve(fi, t.slice)
    v = strip_cast(st.value)
    return rchain(fi, t.value) == base and isinstance(v, ast.Name) and v.id == var and isinstance(k, ast.Call) \
        and call_name(k) == "get_hash" and not k.args and isinstance(k.func, ast.Attribute) and isinstance(k.func.value, ast.Name) and k.func.value.id == var


def _callee_always_stores(ctx: Ctx, h: FuncInfo, pos: int, kw: str | None) -> bool:
    """the method stores its token parameter under its hash in self.elements on every normal path (like TokenTree._append)"""
    ps = [p for p in h.params() if p not in ("self", "cls")]
    var = kw if kw in ps else ps[pos] if kw is None and 0 <= pos < len(ps) else None
    if var is None or local_defs(h, var):
        return False
    cfg = ctx.cfg(h)
    sn = [n for st in walk_no_nested(h.node) if _keyed_store(h, st, "self.elements", var) for n in cfg.nodes_for(st)]
    return bool(sn) and cfg.exit not in cfg.reach(cut_nodes=sn, follow_exc=False)


def _reload_keeps_every_token(ctx: Ctx, pm: FuncInfo) -> None:
    """
    The rebuilt pseudonym must contain every stored token: PseudonymManager.__init__ puts each token read back by
    get_tokens_for into tree.elements under its hash, on every iteration, without a filter and without going through the
    network intake path.  TokenTree.gather_token is that intake path: it only chains a token whose predecessor is already
    present and parks the others in `unchained`, a buffer capped at unchained_max_size that evicts its oldest entry.
    get_tokens_for returns a set (arbitrary order), so on reload children usually precede their parents; for a long chain
    stored tokens are evicted and never reach the tree - records whose insert had returned are missing after reopen and
    the credentials that point to them no longer verify.
    """
    cfg = ctx.cfg(pm)
    what = "pseudonym reload puts every stored token into tree.elements (no filter, no bounded intake buffer)"
    n_seen = 0
    for loop in [n for n in walk_no_nested(pm.node) if isinstance(n, (ast.For, ast.AsyncFor)) and _is_token_read(pm, n.iter)]:
        n_seen += 1
        if not isinstance(loop.target, ast.Name):
            raise AnalysisError("undecided: reload loop over get_tokens_for does not bind a single name")
        var = loop.target.id
        heads = cfg.nodes_for(loop)
        good = [n for st in walk_no_nested(loop) if _keyed_store(pm, st, "self.tree.elements", var) for n in cfg.nodes_for(st)]
        through = []          # calls that hand the token to another method
        for c in calls(loop):
            idx = next((i for i, a in enumerate(c.args) if isinstance(strip_cast(a), ast.Name) and strip_cast(a).id == var), None)
            kw = next((k.arg for k in c.keywords if isinstance(strip_cast(k.value), ast.Name) and strip_cast(k.value).id == var), None)
            if idx is None and kw is None:
                continue
            targets = ctx.repo.resolve_call(pm, c) if rchain(pm, c.func.value if isinstance(c.func, ast.Attribute) else c.func) == "self.tree" else []
            if targets and all(_callee_always_stores(ctx, h, idx if idx is not None else -1, kw) for h in targets):
                good += cfg.nodes_for(c)
            else:
                through.append(c)
        # every iteration (normal paths from the loop head into the body back to the head / out of the loop) stores the token
        body_first = [v for h in heads for v, lab in h.succ if lab is True]
        r = cfg.reach(body_first, cut_nodes=good, follow_exc=False)
        ok = bool(good) and not any(h in r for h in heads) and cfg.exit not in r and not cfg_conditional(ctx, pm, loop)
        via_tree = [c for c in through if isinstance(c.func, ast.Attribute) and rchain(pm, c.func.value) == "self.tree"]
        if ok:
            ctx.check(True, "schema-reopen", pm, loop, what)
        elif via_tree or (through and not good):
            c = (via_tree or through)[0]
            ctx.check(False, "schema-reopen", pm, c, what,
                      f"PseudonymManager.__init__ rebuilds the token tree through `{chain(c.func)}` instead of placing every stored token in tree.elements: "
                      "that path only chains a token whose predecessor is already present and parks the rest in the bounded `unchained` buffer (oldest evicted); "
                      "tokens come back from the database in arbitrary (set) order, so stored tokens are dropped and the rebuilt pseudonym does not verify")
        elif good:
            ctx.check(False, "schema-reopen", pm, loop, what,
                      "PseudonymManager.__init__ skips some of the tokens read back from the database: stored records are missing from the rebuilt pseudonym")
        else:
            raise AnalysisError("undecided: cannot see how PseudonymManager.__init__ places the tokens read from the database into the tree")
    # one-statement spellings: tree.elements.update({t.get_hash(): t for t in tokens}) / tree.elements = {...}
    for st in walk_no_nested(pm.node):
        d = None
        if isinstance(st, ast.Assign) and len(st.targets) == 1 and rchain(pm, st.targets[0]) == "self.tree.elements":
            d = resolve(pm, st.value)
        elif isinstance(st, ast.AugAssign) and isinstance(st.op, ast.BitOr) and rchain(pm, st.target) == "self.tree.elements":
            d = resolve(pm, st.value)
        elif isinstance(st, ast.Expr) and isinstance(st.value, ast.Call) and call_name(st.value) == "update" and isinstance(st.value.func, ast.Attribute) \
                and rchain(pm, st.value.func.value) == "self.tree.elements" and len(st.value.args) == 1:
            d = resolve(pm, st.value.args[0])
        if isinstance(d, ast.DictComp) and len(d.generators) == 1 and _is_token_read(pm, d.generators[0].iter):
            n_seen += 1
            g = d.generators[0]
            v = g.target.id if isinstance(g.target, ast.Name) else None
            k = d.key
            ok = v is not None and not g.ifs and isinstance(d.value, ast.Name) and d.value.id == v and isinstance(k, ast.Call) and call_name(k) == "get_hash" \
                and isinstance(k.func, ast.Attribute) and isinstance(k.func.value, ast.Name) and k.func.value.id == v and not cfg_conditional(ctx, pm, st)
            ctx.check(ok, "schema-reopen", pm, st, what, "PseudonymManager.__init__ filters or re-keys the tokens read back from the database: stored records are missing from the rebuilt pseudonym")
    if not n_seen:
        raise AnalysisError("undecided: PseudonymManager.__init__ calls get_tokens_for but the use of its result is not recognised")


def cfg_conditional(ctx: Ctx, fi: FuncInfo, st: ast.AST) -> bool:
    """the statement can be skipped on a normal path through the function"""
    cfg = ctx.cfg(fi)
    ns = cfg.nodes_for(st)
    return not ns or cfg.exit in cfg.reach(cut_nodes=ns, follow_exc=False)


def rule_schema(ctx: Ctx) -> None:
    repo = ctx.repo
    idb = repo.cls("IdentityDatabase", IDB)
    wdb = repo.cls("AttestationsDB", WDB)
    for c in (idb, wdb):
        gs = c.methods["get_schema"]
        texts = [n.value for n in ast.walk(gs.node) if isinstance(n, ast.Constant) and isinstance(n.value, str) and "CREATE TABLE" in n.value]
        texts += ["".join(v.value for v in n.values if isinstance(v, ast.Constant)) for n in ast.walk(gs.node) if isinstance(n, ast.JoinedStr)]
        creates = re.findall(r"CREATE\s+TABLE\s+(IF\s+NOT\s+EXISTS\s+)?", " ".join(texts), re.I)
        ctx.check(bool(creates) and all(x for x in creates), "schema-reopen", gs, gs.node, f"{c.name}: every CREATE TABLE is IF NOT EXISTS",
                  f"{c.name}: reopening an existing database fails or recreates tables (CREATE TABLE without IF NOT EXISTS)")
        ctx.check(not re.search(r"DROP\s+TABLE|DELETE\s+FROM\s+(?!option)", " ".join(texts), re.I), "schema-reopen", gs, gs.node, f"{c.name}: schema never drops data",
                  f"{c.name}: the schema script deletes stored records on open")
        cd = c.methods["check_database"]
        cfg = ctx.cfg(cd)
        cm = [n for k in calls(cd, "self.commit") for n in cfg.nodes_for(k)]
        es = [n for k in calls(cd, "self.executescript") for n in cfg.nodes_for(k)]
        ok = bool(cm) and bool(es) and all(cfg.always_followed_by(n, cm) for n in es)
        ctx.check(ok, "schema-reopen", cd, cd.node, f"{c.name}.check_database commits the schema", f"{c.name}.check_database leaves the schema uncommitted")
    # keyed tables: INSERT OR IGNORE
    for fi in insert_functions(ctx):
        if fi.cls is idb:
            for e in [c for c in calls(fi) if (chain(c.func) or "").startswith("self.") and c.args and re.match(r"\s*INSERT", _sql_of(c, fi), re.I)]:
                s = _sql_of(e, fi)
                ctx.check(bool(re.match(r"\s*INSERT\s+OR\s+IGNORE", s, re.I)), "schema-reopen", fi, e, f"{fi.name}: INSERT OR IGNORE on a keyed table",
                          f"{fi.name}: a duplicate insert raises IntegrityError (and the following commit is skipped)")
    # column agreement: to_database_tuple -> INSERT columns; SELECT columns -> from_database_tuple
    pairs = [("insert_token", "Token", "ipv8/attestation/tokentree/token.py", "get_tokens_for"),
             ("insert_metadata", "Metadata", "ipv8/attestation/identity/metadata.py", "get_metadata_for"),
             ("insert_attestation", "Attestation", "ipv8/attestation/identity/attestation.py", "get_attestations_for")]
    for ins, cls, rel, getter in pairs:
        fi = idb.methods[ins]
        obj = repo.cls(cls, rel)
        tdt = obj.methods["to_database_tuple"]
        fdt = obj.methods["from_database_tuple"]
        fields = _tdt_fields(tdt)
        if fields is None:
            raise AnalysisError(f"undecided: {tdt.qualname} does not return one tuple of fields")
        writes = [c for c in calls(fi) if (chain(c.func) or "").startswith("self.") and (c.args or c.keywords) and re.match(r"\s*INSERT", _sql_of(c, fi), re.I)]
        if not writes:
            ctx.check(False, "schema-reopen", fi, fi.node, f"{ins} issues an INSERT statement", f"{ins} has no recognisable INSERT statement")
            continue
        for e in writes:
            cols = _insert_columns(_sql_of(e, fi))
            items = _bind_items(fi, arg(e, 1, "bindings"), len(fields))
            if items is None:
                raise AnalysisError(f"undecided: cannot read the bindings of the INSERT in {fi.qualname}: `{norm(e)[:120]}`")
            # every column gets the value that belongs to it: a to_database_tuple field goes to the column of the same name
            # (whatever the local is called, wherever the column stands), a key column gets that key parameter's key_to_bin()
            want = [("field", fields.index(c)) if c in fields else ("key", c) for c in cols]
            ok = bool(cols) and items == want and sorted(c for c in cols if c in fields) == sorted(fields)
            shown = [fields[i[1]] if i[0] == "field" and i[1] < len(fields) else f"{i[1]}.key_to_bin()" if i[0] == "key" else i[1] for i in items]
            ctx.check(ok, "schema-reopen", fi, e, f"{ins}: to_database_tuple fields {fields} are bound to the same-named columns",
                      f"{ins}: column list {cols} / bindings {shown} do not match to_database_tuple {fields}: a reloaded record differs from the stored object")
        g = idb.methods[getter]
        reads = [c for c in calls(g) if (chain(c.func) or "").startswith("self.") and re.match(r"\s*SELECT", _sql_of(c, g), re.I)]
        if not reads:
            raise AnalysisError(f"undecided: no SELECT statement recognised in {g.qualname}")
        sql = _sql_of(reads[0], g)
        sel = _select_columns(sql)
        params = [p for p in fdt.params() if p != "cls"]
        ok = sel == params
        ctx.check(ok, "schema-reopen", g, g.node, f"{getter}: SELECT {sel} matches from_database_tuple{tuple(params)}",
                  f"{getter}: selected columns {sel} do not match from_database_tuple parameters {params}")
        where = re.search(r"WHERE\s+(\w+)\s*=", sql, re.I)
        ctx.check(where is not None and where.group(1) == "public_key", "schema-reopen", g, g.node, f"{getter} selects by public_key", f"{getter} does not select by owner key")
    # a record is written after the records it points to: token before its metadata, metadata before attestations over it
    ac = repo.method("PseudonymManager", "add_credential", "ipv8/attestation/identity/manager.py")
    cfga = ctx.cfg(ac)
    tok = [n for c in calls(ac) if call_name(c) == "insert_token" for n in cfga.nodes_for(c)]
    md = [c for c in calls(ac) if call_name(c) == "insert_metadata"]
    ok = bool(tok) and bool(md) and all(cfga.must_complete(n, tok) for c in md for n in cfga.nodes_for(c))
    ctx.check(ok, "schema-reopen", ac, md[0] if md else ac.node, "add_credential commits the token before the metadata that points to it",
              "the metadata row is committed before the token it points to: a kill between the two commits leaves a credential whose token is missing after reopen")
    # reload path reads the same tables the inserts write
    pm = repo.method("PseudonymManager", "__init__", "ipv8/attestation/identity/manager.py")
    ok = any(call_name(c) == "get_tokens_for" for c in calls(pm)) and any(call_name(c) == "get_credentials_for" for c in calls(pm))
    ctx.check(ok, "schema-reopen", pm, pm.node, "pseudonym reload reads tokens and credentials back from the database", "the pseudonym is not rebuilt from the stored tokens/credentials")
    if ok:
        _reload_keeps_every_token(ctx, pm)


def run(ctx: Ctx) -> None:
    rule_commit_after_insert(ctx)
    rule_no_deferred(ctx)
    rule_pragmas(ctx)
    rule_schema(ctx)
    ctx.assume("SQLite's atomic commit in WAL mode with synchronous=NORMAL: a committed transaction survives a process kill; partial transactions are rolled back on reopen (trusted)")
    ctx.assume("power loss (as opposed to process kill) may lose the last WAL commits with synchronous=NORMAL; the property speaks of process kills")


WITNESSES = [
    {"name": "insert_token returns before commit on duplicate", "file": IDB, "rule": "commit-after-insert",
     "old": "                     (public_key.key_to_bin(), previous_token_hash, signature, content_hash, content))\n        self.commit()",
     "new": "                     (public_key.key_to_bin(), previous_token_hash, signature, content_hash, content))\n        if content is not None:\n            self.commit()"},
    {"name": "wallet insert without commit", "file": WDB, "rule": "commit-after-insert",
     "old": "             id_format.encode()))\n        self.commit()", "new": "             id_format.encode()))"},
    {"name": "manager batches inserts in with-block", "file": "ipv8/attestation/identity/manager.py", "rule": "no-deferred-commit",
     "old": "        if self.tree.gather_token(token) is not None:\n            self.database.insert_token(self.public_key, token)\n",
     "new": "        if self.tree.gather_token(token) is not None:\n            with self.database:\n                self.database.insert_token(self.public_key, token)\n"},
    {"name": "commit skipped when exiting", "file": DB, "rule": "no-deferred-commit",
     "old": "        self._logger.debug(\"commit [%s]\", self._file_path)\n        cast(\"Connection\", self._connection).commit()\n        return True",
     "new": "        self._logger.debug(\"commit [%s]\", self._file_path)\n        if exiting:\n            cast(\"Connection\", self._connection).commit()\n        return True"},
    {"name": "databases start deferred", "file": DB, "rule": "no-deferred-commit",
     "old": "        self._pending_commits = 0\n\n    def _assert", "new": "        self._pending_commits = 1\n\n    def _assert"},
    {"name": "synchronous switched off", "file": DB, "rule": "pragmas",
     "old": "            cursor.execute(\"PRAGMA synchronous = NORMAL\")", "new": "            cursor.execute(\"PRAGMA synchronous = OFF\")"},
    {"name": "WAL only for small pages", "file": DB, "rule": "pragmas",
     "old": "        if not (journal_mode == \"WAL\" or self._file_path == \":memory:\"):", "new": "        if not (journal_mode == \"WAL\" or self._file_path == \":memory:\") and page_size > 8192:"},
    {"name": "DELETE mode not recorded", "file": DB, "rule": "pragmas",
     "old": "                cursor.executescript(\"PRAGMA journal_mode = DELETE\")\n                journal_mode = \"DELETE\"", "new": "                cursor.executescript(\"PRAGMA journal_mode = DELETE\")"},
    {"name": "pragma elsewhere", "file": IDB, "rule": "pragmas",
     "old": "        self.executescript(self.get_schema(database_version_num))\n        self.commit()",
     "new": "        self.executescript(self.get_schema(database_version_num))\n        self.execute(\"PRAGMA synchronous = OFF\")\n        self.commit()"},
    {"name": "schema recreates tables", "file": IDB, "rule": "schema-reopen",
     "old": "                 CREATE TABLE IF NOT EXISTS Metadata(", "new": "                 DROP TABLE IF EXISTS Metadata;\n                 CREATE TABLE IF NOT EXISTS Metadata("},
    {"name": "check_database does not commit", "file": IDB, "rule": "schema-reopen",
     "old": "        self.executescript(self.get_schema(database_version_num))\n        self.commit()", "new": "        self.executescript(self.get_schema(database_version_num))"},
    {"name": "token columns swapped", "file": IDB, "rule": "schema-reopen",
     "old": "                     \"(public_key, previous_token_hash, signature, content_hash, content) \"",
     "new": "                     \"(public_key, previous_token_hash, content_hash, signature, content) \""},
    {"name": "select order differs from from_database_tuple", "file": IDB, "rule": "schema-reopen",
     "old": "        metadata = to_list(self.execute(\"SELECT token_pointer, signature, serialized_json_dict \"",
     "new": "        metadata = to_list(self.execute(\"SELECT signature, token_pointer, serialized_json_dict \""},
    {"name": "plain INSERT on keyed table", "file": IDB, "rule": "schema-reopen",
     "old": "        self.execute(\"INSERT OR IGNORE INTO Metadata \"", "new": "        self.execute(\"INSERT INTO Metadata \""},
    {"name": "nested with-block forgets deferred commits", "file": DB, "rule": "no-deferred-commit",
     "old": "        self._pending_commits = max(1, self._pending_commits)\n", "new": "        self._pending_commits = 1\n"},
    {"name": "reload through the bounded intake path", "file": "ipv8/attestation/identity/manager.py", "rule": "schema-reopen",
     "old": "            self.tree.elements[token.get_hash()] = token\n", "new": "            self.tree.gather_token(token)\n"},
    {"name": "owner and authority keys bound to each other's column", "file": IDB, "rule": "schema-reopen",
     "old": "(public_key.key_to_bin(), authority_key.key_to_bin(), metadata_pointer, signature))",
     "new": "(authority_key.key_to_bin(), public_key.key_to_bin(), metadata_pointer, signature))"},
]
