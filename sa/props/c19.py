"""C19 - Stored identity data survives a crash at any point (the application's half of durability)."""
from __future__ import annotations

import ast
import re

from ..core import Ctx
from ..match import arg, call_name, calls, facts_at, local_defs, mentions, resolve, single_def, stores
from ..model import AnalysisError, ClassInfo, FuncInfo, ancestors, chain, const_value, enclosing_stmt, norm, parent, strip_cast, walk_no_nested

LEVEL = "other"
EXPLANATION = (
    "The application's half of durability: in every insert_* of IdentityDatabase and AttestationsDB each normal path from "
    "the INSERT to the return passes self.commit(); no `with <database>:` block (which defers commits) exists anywhere, "
    "so commit() reaches connection.commit(); _pending_commits is touched only by the deferral mechanism; the journal "
    "settings are tracked through _initial_statements (file databases end in WAL and synchronous NORMAL, the temporary "
    "DELETE mode is always followed by WAL) and no other code issues journal/synchronous pragmas; schemas are "
    "CREATE TABLE IF NOT EXISTS, keyed inserts are INSERT OR IGNORE, check_database commits, and the column order of "
    "INSERT / SELECT agrees with to_database_tuple / from_database_tuple so a reopened database rebuilds the same "
    "objects. SQLite's atomic commit and behaviour at each kill point are trusted, not explored."
)

DB = "ipv8/database.py"
IDB = "ipv8/attestation/identity/database.py"
WDB = "ipv8/attestation/wallet/database.py"


def _sql_of(call: ast.Call, fi: FuncInfo) -> str:
    a = arg(call, 0)
    if a is None:
        return ""
    if isinstance(a, ast.Constant) and isinstance(a.value, str):
        return a.value
    if isinstance(a, ast.JoinedStr):
        return "".join(v.value if isinstance(v, ast.Constant) else "{}" for v in a.values)
    r = resolve(fi, a)
    if isinstance(r, ast.Constant) and isinstance(r.value, str):
        return r.value
    return norm(a)


def insert_functions(ctx: Ctx) -> list[FuncInfo]:
    out = []
    for rel in (IDB, WDB):
        for fi in ctx.repo.module(rel).all_functions:
            if fi.cls is not None and fi.cls.is_subclass_of("Database") and fi.name.startswith("insert_"):
                out.append(fi)
    return out


def rule_commit_after_insert(ctx: Ctx) -> None:
    ins = insert_functions(ctx)
    ctx.floor("commit-after-insert", len(ins), 4)
    for fi in ins:
        cfg = ctx.cfg(fi)
        ex = [c for c in calls(fi, "self.execute") if re.match(r"\s*(INSERT|REPLACE|UPDATE|DELETE)", _sql_of(c, fi), re.I)]
        # the write may be issued by a helper of the same class that is handed the statement (one level)
        helper_sites = []
        if not ex and fi.cls is not None:
            for c in calls(fi):
                ch = chain(c.func) or ""
                if ch.startswith("self.") and ch.count(".") == 1 and c.args and re.match(r"\s*(INSERT|REPLACE|UPDATE|DELETE)", _sql_of(c, fi), re.I):
                    h = fi.cls.lookup(call_name(c))
                    if h is not None:
                        for e in calls(h, ["self.execute", "self.executemany"]):
                            helper_sites.append((h, e, c))
        ctx.check(bool(ex) or bool(helper_sites), "commit-after-insert", fi, fi.node, f"{fi.qualname} issues its INSERT through self.execute", f"{fi.qualname} has no recognisable write statement")
        cm = [n for c in calls(fi, "self.commit") for n in cfg.nodes_for(c)]
        for e in ex:
            ok = bool(cm) and all(cfg.always_followed_by(n, cm) for n in cfg.nodes_for(e))
            ctx.check(ok, "commit-after-insert", fi, e, f"{fi.qualname}: every normal path from the INSERT to the return passes self.commit()",
                      f"{fi.qualname} can return after its INSERT without committing: a record whose insert call returned is lost by a crash")
        for h, e, c in helper_sites:
            hcfg = ctx.cfg(h)
            hcm = [n for k in calls(h, "self.commit") for n in hcfg.nodes_for(k)]
            ok = (bool(hcm) and all(hcfg.always_followed_by(n, hcm) for n in hcfg.nodes_for(e))) or \
                (bool(cm) and all(cfg.always_followed_by(n, cm) for n in cfg.nodes_for(c)))
            ctx.check(ok, "commit-after-insert", fi, c, f"{fi.qualname}: the helper {h.name} (or the caller) commits on every normal path after the INSERT",
                      f"{fi.qualname} writes through {h.qualname}, which can return after the INSERT without committing (the commit is conditional): "
                      "a record whose insert call returned is lost by a crash")
        for c in calls(fi, "self.commit"):
            ctx.check(not c.args and not c.keywords, "commit-after-insert", fi, c, "plain commit()", "commit is called with arguments that change its meaning")
        ctx.check(not fi.is_async and not fi.node.decorator_list, "commit-after-insert", fi, fi.node, f"{fi.qualname} is a plain synchronous method",
                  f"{fi.qualname} is wrapped/async: the commit may not have happened when the call returns")


def rule_no_deferred(ctx: Ctx) -> None:
    repo = ctx.repo
    dbcls = repo.cls("Database", DB)
    n_with = 0
    for m in repo.modules.values():
        for node in ast.walk(m.tree):
            if isinstance(node, (ast.With, ast.AsyncWith)):
                n_with += 1
                for it in node.items:
                    e = strip_cast(it.context_expr)
                    fi = repo.function_of(node)
                    t = repo.type_of_expr(fi, e) if fi is not None else None
                    looks = (chain(e) or "").split(".")[-1] in ("database", "db", "_database") or (t is not None and (t is dbcls or t.is_subclass_of("Database")))
                    if isinstance(e, ast.Name) and e.id == "self" and fi is not None and fi.cls is not None and fi.cls.is_subclass_of("Database"):
                        looks = True
                    ctx.check(not looks, "no-deferred-commit", fi or m.relpath, node, "no `with <database>:` block (commits are never deferred)",
                              "a `with database:` block defers commit(): inserts inside it return before their data is committed")
    ctx.floor("no-deferred-commit.with-statements-scanned", n_with, 20)
    # _pending_commits only in the deferral mechanism
    for m, fi, a in repo.attribute_uses("_pending_commits"):
        if isinstance(a.ctx, ast.Store):
            ctx.check(fi is not None and fi.qualname in ("Database.__init__", "Database.__enter__", "Database.__exit__", "Database.commit"), "no-deferred-commit",
                      fi or m.relpath, enclosing_stmt(a), "_pending_commits written only by __init__/__enter__/__exit__/commit", "_pending_commits is set elsewhere: commits can be deferred silently")
    # leaving a `with database:` block always ends the deferral, also when the body raised
    ex_ = repo.method("Database", "__exit__", DB)
    cfge = ctx.cfg(ex_)
    resets = [n for s_ in walk_no_nested(ex_.node) if isinstance(s_, ast.Assign) and any("self._pending_commits" in norm(t) for t in s_.targets)
              and (norm(s_.value) in ("0", "(0, self._pending_commits)")) for n in cfge.nodes_for(s_)]
    ok = bool(resets) and cfge.exit not in cfge.reach(cut_nodes=resets, follow_exc=False)
    ctx.check(ok, "no-deferred-commit", ex_, ex_.node, "__exit__ resets _pending_commits to 0 on every path (also when the body raised)",
              "a `with database:` block whose body raises leaves the database in deferred-commit mode: every later insert returns without being committed")
    init = repo.method("Database", "__init__", DB)
    ok = any(norm(s.value) == "0" for s, t in stores(init, "self._pending_commits"))
    ctx.check(ok, "no-deferred-commit", init, init.node, "_pending_commits starts at 0", "databases start in deferred-commit mode")
    cm = repo.method("Database", "commit", DB)
    cfg = ctx.cfg(cm)
    cc = [c for c in calls(cm) if call_name(c) == "commit" and "_connection" in norm(c.func)]
    ctx.anchor(cc, "connection.commit() in Database.commit")
    for c in cc:
        fs = facts_at(cfg, c)
        only = [f for f in fs if not (f.op == "truthy" and not f.pos and chain(f.left) == "self._pending_commits")]
        ctx.check(any(f.op == "truthy" and not f.pos and chain(f.left) == "self._pending_commits" for f in fs) and not only, "no-deferred-commit", cm, c,
                  "connection.commit() runs whenever no commits are pending", "Database.commit() skips the real commit for another reason than a pending with-block", [str(f) for f in fs])
    rets = [r for r in walk_no_nested(cm.node) if isinstance(r, ast.Return) and const_value(r.value) is True]
    cn = [n for c in cc for n in cfg.nodes_for(c)]
    ctx.check(bool(rets) and all(cfg.must_complete(n, cn) for r in rets for n in cfg.nodes_for(r)), "no-deferred-commit", cm, cm.node,
              "commit() returns True only after connection.commit()", "commit() reports success without committing")
    cl = repo.method("Database", "close", DB)
    cfgc = ctx.cfg(cl)
    cmt = [c for c in calls(cl, "self.commit")]
    ok = bool(cmt) and all(any(f.op == "truthy" and f.pos and chain(f.left) == "commit" for f in facts_at(cfgc, c)) for c in cmt)
    clos = [n for c in calls(cl) if call_name(c) == "close" for n in cfgc.nodes_for(c)]
    ok = ok and all(not any(x in cfgc.reach([v for n in clos for v, lab in n.succ]) for x in cfgc.nodes_for(c)) for c in cmt)
    d = [a for a in cl.node.args.defaults]
    ok = ok and d and const_value(d[-1]) is True
    ctx.check(ok, "no-deferred-commit", cl, cl.node, "close(commit=True) commits before closing the connection", "close() does not commit before closing")


def rule_pragmas(ctx: Ctx) -> None:
    repo = ctx.repo
    fi = repo.method("Database", "_initial_statements", DB)
    cfg = ctx.cfg(fi)
    prag = []
    for c in calls(fi):
        if call_name(c) in ("execute", "executescript"):
            s = _sql_of(c, fi)
            m = re.match(r"\s*PRAGMA\s+(\w+)\s*=\s*(\w+)", s, re.I)
            if m:
                prag.append((m.group(1).lower(), m.group(2).upper(), c))
    jm = [(v, c) for k, v, c in prag if k == "journal_mode"]
    sy = [(v, c) for k, v, c in prag if k == "synchronous"]
    ctx.check(sorted(v for v, _ in jm) == ["DELETE", "WAL"], "pragmas", fi, fi.node, "journal_mode is set only to DELETE (temporarily) and WAL", f"journal_mode pragmas: {[v for v, _ in jm]}")
    ctx.check([v for v, _ in sy] == ["NORMAL"], "pragmas", fi, fi.node, "synchronous is only ever set to NORMAL", f"synchronous pragmas: {[v for v, _ in sy]} (durability weakened)")
    wal = [c for v, c in jm if v == "WAL"]
    dele = [c for v, c in jm if v == "DELETE"]
    if wal:
        fs = facts_at(cfg, wal[0])
        # guard: not (journal_mode == "WAL" or file_path == ":memory:")
        a = any(f.op == "eq" and not f.pos and norm(f.left) == "journal_mode" and const_value(f.right) == "WAL" for f in fs)
        b = any(f.op == "eq" and not f.pos and norm(f.left) == "self._file_path" and const_value(f.right) == ":memory:" for f in fs)
        extra = [f for f in fs if not ((f.op == "eq" and not f.pos and norm(f.left) in ("journal_mode", "self._file_path")))]
        ctx.check(a and b and not extra, "pragmas", fi, wal[0], "WAL is switched on exactly when the mode is not WAL and the database is a file",
                  "the WAL switch depends on another condition: file databases can stay in a rollback-journal mode that was not chosen", [str(f) for f in fs])
    if dele and wal:
        # after the temporary DELETE mode the local mode variable is updated so that the WAL branch fires
        upd = [s for s in walk_no_nested(fi.node) if isinstance(s, ast.Assign) and norm(s.targets[0]) == "journal_mode" and const_value(s.value) == "DELETE"]
        dn = cfg.nodes_for(dele[0])
        un = [n for s in upd for n in cfg.nodes_for(s)]
        ok = bool(un) and all(cfg.always_followed_by(n, un) for n in dn)
        wn = cfg.nodes_for(wal[0])
        # after `journal_mode = "DELETE"` (checked: always follows the pragma, no later rebinding) the test
        # `journal_mode == "WAL"` is false, so its true edge is infeasible on these paths
        later = [d for d in local_defs(fi, "journal_mode") if upd and d[0].lineno > upd[0].lineno]
        ok = ok and not later
        mem_true = lambda u, v, lab: (u.kind == "cond" and lab is True and norm(u.ast) in ("self._file_path == ':memory:'", "journal_mode == 'WAL'"))  # noqa: E731
        r = cfg.reach([v for n in un for v, lab in n.succ if lab != "exc"], cut_nodes=wn, cut_edge=mem_true, follow_exc=False)
        ok = ok and cfg.exit not in r
        ctx.check(ok, "pragmas", fi, dele[0], "the temporary DELETE journal mode is always followed by the switch back to WAL (file databases)",
                  "after changing the page size a file database can be left in DELETE journal mode")
    if sy:
        fs = facts_at(cfg, sy[0][1])
        ok = any(f.op == "in" and not f.pos and norm(f.left) == "synchronous" and const_value(f.right) == ("NORMAL", 1) for f in fs) and len(fs) == 1
        ctx.check(ok, "pragmas", fi, sy[0][1], "synchronous is forced to NORMAL whenever it is anything else", "synchronous can stay at a weaker (OFF) or is forced under an unrelated condition")
    # nobody else touches these pragmas
    n = 0
    for m in repo.modules.values():
        for node in ast.walk(m.tree):
            if isinstance(node, ast.Constant) and isinstance(node.value, str) and re.search(r"PRAGMA\s+(journal_mode|synchronous|locking_mode)\s*=", node.value, re.I):
                f2 = repo.function_of(node)
                n += 1
                ctx.check(f2 is not None and f2.qualname == "Database._initial_statements", "pragmas", f2 or m.relpath, node.value.strip(),
                          "journal/synchronous pragmas only in Database._initial_statements", "journal or synchronous settings are changed outside _initial_statements")
    ctx.floor("pragmas", n, 3)
    op = repo.method("Database", "open", DB)
    cfgo = ctx.cfg(op)
    isc = [c for c in calls(op, "self._initial_statements")]
    ok = bool(isc) and all(any(f.op == "truthy" and f.pos and chain(f.left) == "initial_statements" for f in facts_at(cfgo, c)) and len(facts_at(cfgo, c)) == 1 for c in isc)
    defaults = {a.arg: const_value(d) for a, d in zip(op.node.args.args[-len(op.node.args.defaults):], op.node.args.defaults)}
    ok = ok and defaults.get("initial_statements") is True and defaults.get("prepare_visioning") is True
    ctx.check(ok, "pragmas", op, op.node, "open() applies the initial statements by default", "open() does not apply the journal settings by default")
    for m, f2, c in repo.callers_of_name("open"):
        if f2 is None or not m.relpath.startswith("ipv8/attestation/"):
            continue
        recv = chain(c.func) or ""
        if "database" in recv:
            ok = not any(const_value(a) is False for a in c.args) and not any(const_value(k.value) is False for k in c.keywords)
            ctx.check(ok, "pragmas", f2, c, "identity/attestation databases are opened with default arguments", "a database is opened with the journal settings or versioning switched off")


_COLS = re.compile(r"\(([^()]*)\)")


def _insert_columns(sql: str) -> list[str]:
    m = re.search(r"INTO\s+[\w{}]+\s*\(([^)]*)\)", sql, re.I)
    return [c.strip() for c in m.group(1).split(",")] if m else []


def _select_columns(sql: str) -> list[str]:
    m = re.search(r"SELECT\s+(.*?)\s+FROM", sql, re.I | re.S)
    return [c.strip() for c in m.group(1).split(",")] if m else []


def rule_schema(ctx: Ctx) -> None:
    repo = ctx.repo
    idb = repo.cls("IdentityDatabase", IDB)
    wdb = repo.cls("AttestationsDB", WDB)
    for c in (idb, wdb):
        gs = c.methods["get_schema"]
        texts = [n.value for n in ast.walk(gs.node) if isinstance(n, ast.Constant) and isinstance(n.value, str) and "CREATE TABLE" in n.value]
        texts += ["".join(v.value for v in n.values if isinstance(v, ast.Constant)) for n in ast.walk(gs.node) if isinstance(n, ast.JoinedStr)]
        creates = re.findall(r"CREATE\s+TABLE\s+(IF\s+NOT\s+EXISTS\s+)?", " ".join(texts), re.I)
        ctx.check(bool(creates) and all(x for x in creates), "schema-reopen", gs, gs.node, f"{c.name}: every CREATE TABLE is IF NOT EXISTS",
                  f"{c.name}: reopening an existing database fails or recreates tables (CREATE TABLE without IF NOT EXISTS)")
        ctx.check(not re.search(r"DROP\s+TABLE|DELETE\s+FROM\s+(?!option)", " ".join(texts), re.I), "schema-reopen", gs, gs.node, f"{c.name}: schema never drops data",
                  f"{c.name}: the schema script deletes stored records on open")
        cd = c.methods["check_database"]
        cfg = ctx.cfg(cd)
        cm = [n for k in calls(cd, "self.commit") for n in cfg.nodes_for(k)]
        es = [n for k in calls(cd, "self.executescript") for n in cfg.nodes_for(k)]
        ok = bool(cm) and bool(es) and all(cfg.always_followed_by(n, cm) for n in es)
        ctx.check(ok, "schema-reopen", cd, cd.node, f"{c.name}.check_database commits the schema", f"{c.name}.check_database leaves the schema uncommitted")
    # keyed tables: INSERT OR IGNORE
    for fi in insert_functions(ctx):
        if fi.cls is idb:
            for e in [c for c in calls(fi) if (chain(c.func) or "").startswith("self.") and c.args and re.match(r"\s*INSERT", _sql_of(c, fi), re.I)]:
                s = _sql_of(e, fi)
                ctx.check(bool(re.match(r"\s*INSERT\s+OR\s+IGNORE", s, re.I)), "schema-reopen", fi, e, f"{fi.name}: INSERT OR IGNORE on a keyed table",
                          f"{fi.name}: a duplicate insert raises IntegrityError (and the following commit is skipped)")
    # column agreement: to_database_tuple -> INSERT columns; SELECT columns -> from_database_tuple
    pairs = [("insert_token", "Token", "ipv8/attestation/tokentree/token.py", "get_tokens_for"),
             ("insert_metadata", "Metadata", "ipv8/attestation/identity/metadata.py", "get_metadata_for"),
             ("insert_attestation", "Attestation", "ipv8/attestation/identity/attestation.py", "get_attestations_for")]
    for ins, cls, rel, getter in pairs:
        fi = idb.methods[ins]
        obj = repo.cls(cls, rel)
        tdt = obj.methods["to_database_tuple"]
        fdt = obj.methods["from_database_tuple"]
        ret = [r for r in walk_no_nested(tdt.node) if isinstance(r, ast.Return)][0]
        fields = [norm(e).replace("self.", "") for e in (ret.value.elts if isinstance(ret.value, ast.Tuple) else [ret.value])]
        writes = [c for c in calls(fi) if (chain(c.func) or "").startswith("self.") and c.args and re.match(r"\s*INSERT", _sql_of(c, fi), re.I)]
        if not writes:
            ctx.check(False, "schema-reopen", fi, fi.node, f"{ins} issues an INSERT statement", f"{ins} has no recognisable INSERT statement")
            continue
        e = writes[0]
        cols = _insert_columns(_sql_of(e, fi))
        binds = arg(e, 1)
        bnames = [norm(b) for b in binds.elts] if isinstance(binds, ast.Tuple) else []
        # unpacking of to_database_tuple into locals
        un = [s for s in walk_no_nested(fi.node) if isinstance(s, ast.Assign) and isinstance(s.value, ast.Call) and call_name(s.value) == "to_database_tuple"]
        locs = [norm(x) for x in un[0].targets[0].elts] if un and isinstance(un[0].targets[0], ast.Tuple) else []
        data_cols = [c for c in cols if c not in ("public_key", "authority_key")]
        data_binds = [b for b in bnames if not b.endswith(".key_to_bin()")]
        ok = locs == fields and data_binds == locs and data_cols == fields and len(cols) == len(bnames)
        ctx.check(ok, "schema-reopen", fi, e, f"{ins}: to_database_tuple fields {fields} are bound to the same-named columns in order",
                  f"{ins}: column list {cols} / bindings {bnames} do not match to_database_tuple {fields}: a reloaded record differs from the stored object")
        g = idb.methods[getter]
        sel = _select_columns(_sql_of(calls(g, "self.execute")[0], g))
        params = [p for p in fdt.params() if p != "cls"]
        ok = sel == params
        ctx.check(ok, "schema-reopen", g, g.node, f"{getter}: SELECT {sel} matches from_database_tuple{tuple(params)}",
                  f"{getter}: selected columns {sel} do not match from_database_tuple parameters {params}")
        where = re.search(r"WHERE\s+(\w+)\s*=", _sql_of(calls(g, "self.execute")[0], g), re.I)
        ctx.check(where is not None and where.group(1) == "public_key", "schema-reopen", g, g.node, f"{getter} selects by public_key", f"{getter} does not select by owner key")
    # a record is written after the records it points to: token before its metadata, metadata before attestations over it
    ac = repo.method("PseudonymManager", "add_credential", "ipv8/attestation/identity/manager.py")
    cfga = ctx.cfg(ac)
    tok = [n for c in calls(ac) if call_name(c) == "insert_token" for n in cfga.nodes_for(c)]
    md = [c for c in calls(ac) if call_name(c) == "insert_metadata"]
    ok = bool(tok) and bool(md) and all(cfga.must_complete(n, tok) for c in md for n in cfga.nodes_for(c))
    ctx.check(ok, "schema-reopen", ac, md[0] if md else ac.node, "add_credential commits the token before the metadata that points to it",
              "the metadata row is committed before the token it points to: a kill between the two commits leaves a credential whose token is missing after reopen")
    # reload path reads the same tables the inserts write
    pm = repo.method("PseudonymManager", "__init__", "ipv8/attestation/identity/manager.py")
    ok = any(call_name(c) == "get_tokens_for" for c in calls(pm)) and any(call_name(c) == "get_credentials_for" for c in calls(pm))
    ctx.check(ok, "schema-reopen", pm, pm.node, "pseudonym reload reads tokens and credentials back from the database", "the pseudonym is not rebuilt from the stored tokens/credentials")


def run(ctx: Ctx) -> None:
    rule_commit_after_insert(ctx)
    rule_no_deferred(ctx)
    rule_pragmas(ctx)
    rule_schema(ctx)
    ctx.assume("SQLite's atomic commit in WAL mode with synchronous=NORMAL: a committed transaction survives a process kill; partial transactions are rolled back on reopen (trusted)")
    ctx.assume("power loss (as opposed to process kill) may lose the last WAL commits with synchronous=NORMAL; the property speaks of process kills")


WITNESSES = [
    {"name": "insert_token returns before commit on duplicate", "file": IDB, "rule": "commit-after-insert",
     "old": "                     (public_key.key_to_bin(), previous_token_hash, signature, content_hash, content))\n        self.commit()",
     "new": "                     (public_key.key_to_bin(), previous_token_hash, signature, content_hash, content))\n        if content is not None:\n            self.commit()"},
    {"name": "wallet insert without commit", "file": WDB, "rule": "commit-after-insert",
     "old": "             id_format.encode()))\n        self.commit()", "new": "             id_format.encode()))"},
    {"name": "manager batches inserts in with-block", "file": "ipv8/attestation/identity/manager.py", "rule": "no-deferred-commit",
     "old": "        if self.tree.gather_token(token) is not None:\n            self.database.insert_token(self.public_key, token)\n",
     "new": "        if self.tree.gather_token(token) is not None:\n            with self.database:\n                self.database.insert_token(self.public_key, token)\n"},
    {"name": "commit skipped when exiting", "file": DB, "rule": "no-deferred-commit",
     "old": "        self._logger.debug(\"commit [%s]\", self._file_path)\n        cast(\"Connection\", self._connection).commit()\n        return True",
     "new": "        self._logger.debug(\"commit [%s]\", self._file_path)\n        if exiting:\n            cast(\"Connection\", self._connection).commit()\n        return True"},
    {"name": "databases start deferred", "file": DB, "rule": "no-deferred-commit",
     "old": "        self._pending_commits = 0\n\n    def _assert", "new": "        self._pending_commits = 1\n\n    def _assert"},
    {"name": "synchronous switched off", "file": DB, "rule": "pragmas",
     "old": "            cursor.execute(\"PRAGMA synchronous = NORMAL\")", "new": "            cursor.execute(\"PRAGMA synchronous = OFF\")"},
    {"name": "WAL only for small pages", "file": DB, "rule": "pragmas",
     "old": "        if not (journal_mode == \"WAL\" or self._file_path == \":memory:\"):", "new": "        if not (journal_mode == \"WAL\" or self._file_path == \":memory:\") and page_size > 8192:"},
    {"name": "DELETE mode not recorded", "file": DB, "rule": "pragmas",
     "old": "                cursor.executescript(\"PRAGMA journal_mode = DELETE\")\n                journal_mode = \"DELETE\"", "new": "                cursor.executescript(\"PRAGMA journal_mode = DELETE\")"},
    {"name": "pragma elsewhere", "file": IDB, "rule": "pragmas",
     "old": "        self.executescript(self.get_schema(database_version_num))\n        self.commit()",
     "new": "        self.executescript(self.get_schema(database_version_num))\n        self.execute(\"PRAGMA synchronous = OFF\")\n        self.commit()"},
    {"name": "schema recreates tables", "file": IDB, "rule": "schema-reopen",
     "old": "                 CREATE TABLE IF NOT EXISTS Metadata(", "new": "                 DROP TABLE IF EXISTS Metadata;\n                 CREATE TABLE IF NOT EXISTS Metadata("},
    {"name": "check_database does not commit", "file": IDB, "rule": "schema-reopen",
     "old": "        self.executescript(self.get_schema(database_version_num))\n        self.commit()", "new": "        self.executescript(self.get_schema(database_version_num))"},
    {"name": "token columns swapped", "file": IDB, "rule": "schema-reopen",
     "old": "                     \"(public_key, previous_token_hash, signature, content_hash, content) \"",
     "new": "                     \"(public_key, previous_token_hash, content_hash, signature, content) \""},
    {"name": "select order differs from from_database_tuple", "file": IDB, "rule": "schema-reopen",
     "old": "        metadata = to_list(self.execute(\"SELECT token_pointer, signature, serialized_json_dict \"",
     "new": "        metadata = to_list(self.execute(\"SELECT signature, token_pointer, serialized_json_dict \""},
    {"name": "plain INSERT on keyed table", "file": IDB, "rule": "schema-reopen",
     "old": "        self.execute(\"INSERT OR IGNORE INTO Metadata \"", "new": "        self.execute(\"INSERT INTO Metadata \""},
]
