"""C06 - An exit node never emits traffic its exit policy forbids."""
from __future__ import annotations

import ast
import copy
import itertools
import re

from ..boolfn import Opaque, TableEvaluator
from ..cfg import call_may_raise
from ..core import Ctx
from ..lengths import LengthAnalysis, protected
from ..match import arg, call_name, calls, fact_of, facts_at, local_defs, same_expr, single_def, stores
from ..model import NOCONST, AnalysisError, FuncInfo, chain, const_value, norm, strip_cast, walk_no_nested

LEVEL = "other"
EXPLANATION = (
    "Exhaustive over the policy abstraction and over all paths: is_allowed is evaluated for all 32 assignments of its "
    "five atoms (bt, ipv8, BT-flag, IPV8-flag, own-prefix) and must equal (bt&BT)|(v8&V8)|(v8&own); every path of "
    "TunnelExitSocket.sendto to transport.sendto and of datagram_received to tunnel_data passes a truthy "
    "is_allowed(<the very data emitted>); closed sets of callers for transport.sendto / exit_socket.sendto / enable / "
    "tunnel_data; exit_data dominated by destination != ('0.0.0.0', 0) and transport.sendto dominated by the same test on the address "
    "actually emitted (after domain-name resolution re-entered sendto); enable() dominated by the previous-hop IP "
    "comparison; the DataChecker classifiers are decision tables over the inspected quantities (length, byte slices, "
    "unpacked header fields) evaluated on every region their comparisons can distinguish, with guarded reads."
)

ES = "ipv8/messaging/anonymization/exit_socket.py"
TC = "ipv8/messaging/anonymization/community.py"
FLAGS = "self.overlay.settings.peer_flags"


# ------------------------------------------------------------------------------------------ alias expansion
# Rules compare expressions after replacing single-assignment locals by the expression they were assigned (deeply), so
# `sock = self.exit_sockets[cid]; sock.enable()` is read as `self.exit_sockets[cid].enable()`.  Only values whose
# re-evaluation has no effect are substituted: constants, names, attribute / subscript paths, arithmetic, comparisons and
# calls of the pure getters / classifiers below.  A single-assignment local read before its assignment raises
# UnboundLocalError, so no dominance test is needed: wherever the use evaluates, the definition has been evaluated.
_PURE_CALLS = {"len", "bool", "bytes", "unpack_from", "struct.unpack_from", "self.overlay.get_prefix", "self.is_allowed"}
_IMPURE_NODES = (ast.Await, ast.Yield, ast.YieldFrom, ast.NamedExpr, ast.Lambda, ast.ListComp, ast.SetComp, ast.DictComp,
                 ast.GeneratorExp, ast.Starred)


def _alias_value_ok(v: ast.AST) -> bool:
    for n in ast.walk(v):
        if isinstance(n, _IMPURE_NODES):
            return False
        if isinstance(n, ast.Call):
            c = chain(n.func) or ""
            if not (c in _PURE_CALLS or c.startswith("DataChecker.could_be_") or c.endswith(".get")):
                return False
    return True


def _expand(fi: FuncInfo, e: ast.AST, depth: int = 6) -> ast.AST:
    """Fresh copy of e in which every single-assignment local alias is replaced by its defining expression."""
    def sub(n: ast.AST, depth: int) -> ast.AST:
        n = strip_cast(n)
        if isinstance(n, ast.Name):
            if isinstance(n.ctx, ast.Load) and depth > 0:
                d = single_def(fi, n.id)
                if d is not None and d[0] is not None and _alias_value_ok(d[0]):
                    v = sub(d[0], depth - 1)
                    if d[1] is None:
                        return v
                    return ast.Subscript(value=v, slice=ast.Constant(value=d[1]), ctx=ast.Load())
            return ast.Name(id=n.id, ctx=ast.Load())
        new = copy.copy(n)
        for field, val in ast.iter_fields(n):
            if isinstance(val, ast.AST):
                setattr(new, field, sub(val, depth))
            elif isinstance(val, list):
                setattr(new, field, [sub(x, depth) if isinstance(x, ast.AST) else x for x in val])
        return new
    return sub(e, depth)


class _Canon(ast.NodeTransformer):
    """Equivalent spellings -> one spelling (only applied to the private copies made by _expand)."""

    def __init__(self, dict_get: bool = False, rename: dict[str, str] | None = None) -> None:
        self.dict_get = dict_get
        self.rename = rename or {}

    def visit_Name(self, n: ast.Name) -> ast.AST:
        if n.id in self.rename:
            n.id = self.rename[n.id]
        return n

    def visit_Slice(self, n: ast.Slice) -> ast.AST:
        self.generic_visit(n)
        if isinstance(n.lower, ast.Constant) and n.lower.value == 0 and not isinstance(n.lower.value, bool):
            n.lower = None              # x[0:k] == x[:k]
        return n

    def visit_Call(self, n: ast.Call) -> ast.AST:
        self.generic_visit(n)
        c = chain(n.func)
        if c == "struct.unpack_from":
            n.func = ast.Name(id="unpack_from", ctx=ast.Load())
            c = "unpack_from"
        if c == "unpack_from":
            off = [k for k in n.keywords if k.arg == "offset"]
            if off and len(n.args) == 2:
                n.args = [*n.args, off[0].value]
                n.keywords = [k for k in n.keywords if k.arg != "offset"]
            if len(n.args) == 3 and isinstance(n.args[2], ast.Constant) and n.args[2].value == 0:
                n.args = n.args[:2]     # offset 0 is the default
        if self.dict_get and isinstance(n.func, ast.Attribute) and n.func.attr == "get" and not n.keywords and (
                len(n.args) == 1 or (len(n.args) == 2 and isinstance(n.args[1], ast.Constant) and n.args[1].value is None)):
            # d.get(k) denotes d[k] wherever the result is known to be truthy / not None (the rules ask for that fact)
            return ast.Subscript(value=n.func.value, slice=n.args[0], ctx=ast.Load())
        return n


def _canon(e: ast.AST, *, dict_get: bool = False, rename: dict[str, str] | None = None) -> ast.AST:
    return _Canon(dict_get, rename).visit(e)


def _xnorm(fi: FuncInfo, e: ast.AST, *, dict_get: bool = False) -> str:
    return norm(_canon(_expand(fi, e), dict_get=dict_get))


def _param_root(fi: FuncInfo, e: ast.AST | None) -> str | None:
    """The never-rebound parameter that e denotes (directly or through pure single-assignment aliases), else None."""
    if e is None:
        return None
    x = _expand(fi, e)
    if isinstance(x, ast.Name) and x.id in fi.params() and not local_defs(fi, x.id):
        return x.id
    return None


class _Table(TableEvaluator):
    """TableEvaluator that reads `a not in b` / `a != b` as the negation of the atom `a in b` / `a == b`."""

    @staticmethod
    def _twin(e: ast.AST) -> ast.AST | None:
        if isinstance(e, ast.Compare) and len(e.ops) == 1 and isinstance(e.ops[0], (ast.NotIn, ast.NotEq)):
            op = ast.In() if isinstance(e.ops[0], ast.NotIn) else ast.Eq()
            return ast.Compare(left=e.left, ops=[op], comparators=e.comparators)
        return None

    def discover(self) -> list[str]:
        super().discover()
        for n in ast.walk(self.fi.node):
            t = self._twin(n)
            if t is not None:
                k = self.atom_of(t)
                if k is not None:
                    self.atoms_seen.add(k)
        return sorted(self.atoms_seen)

    def eval(self, e, env):
        t = self._twin(strip_cast(e))
        if t is not None and self.atom_of(t) is not None:
            return not self.truth(super().eval(t, env))
        return super().eval(e, env)


# ------------------------------------------------------------------------------------------ policy
def _atom_is_allowed(fi: FuncInfo):
    data = fi.params()[1]

    def atom(e):
        e = strip_cast(e)
        if not isinstance(e, (ast.Name, ast.Call, ast.Compare)):
            return None
        if isinstance(e, ast.Name) and not isinstance(e.ctx, ast.Load):
            return None
        e = _canon(_expand(fi, e))
        if isinstance(e, ast.Call) and chain(e.func) in ("DataChecker.could_be_bt", "DataChecker.could_be_ipv8") \
                and len(e.args) == 1 and not e.keywords and chain(e.args[0]) == data:
            return "bt" if chain(e.func).endswith("bt") else "v8"
        if isinstance(e, ast.Compare) and len(e.ops) == 1:
            l, op, r = e.left, e.ops[0], e.comparators[0]
            if isinstance(op, ast.In) and chain(r) == FLAGS and chain(l) in ("PEER_FLAG_EXIT_BT", "PEER_FLAG_EXIT_IPV8"):
                return "BT" if chain(l) == "PEER_FLAG_EXIT_BT" else "V8"
            if isinstance(op, ast.Eq):
                sides = {norm(l), norm(r)}
                if sides == {"self.overlay.get_prefix()", f"{data}[:22]"}:
                    return "own"
        return None
    return atom


def rule_policy_table(ctx: Ctx) -> None:
    fi = ctx.repo.method("TunnelExitSocket", "is_allowed", ES)
    data = fi.params()[1]
    ctx.check(not local_defs(fi, data), "policy-table", fi, fi.node, "is_allowed judges the data it was given",
              "is_allowed rebinds its data parameter before classifying it")
    ev = _Table(fi, _atom_is_allowed(fi))
    atoms = ["bt", "v8", "BT", "V8", "own"]
    found = ev.discover()
    ctx.check(set(found) == set(atoms), "policy-table", fi, fi.node, f"atoms of is_allowed = {atoms}",
              f"is_allowed no longer depends on exactly the atoms {atoms}: found {found}")
    if set(found) - set(atoms):
        return
    bad = []
    n = 0
    for vals in itertools.product([False, True], repeat=5):
        env = dict(zip(atoms, vals))
        try:
            got = ev.run(env)
        except AnalysisError:
            raise
        if isinstance(got, Opaque):
            raise AnalysisError(f"is_allowed returns an expression the table evaluator cannot decide: {got}")
        want = (env["bt"] and env["BT"]) or (env["v8"] and env["V8"]) or (env["v8"] and env["own"])
        n += 1
        ok = bool(got) == bool(want) and got is not None
        ctx.instance("policy-table", fi.where, f"row {env} -> {got} (spec {want})", ok=ok)
        if not ok:
            bad.append((env, got, want))
    if bad:
        env, got, want = bad[0]
        ctx.violation("policy-table", fi, fi.node,
                      f"is_allowed differs from (bt&BT)|(v8&V8)|(v8&own) on {len(bad)} of 32 rows, e.g. {env}: returns {got}, policy says {want}")
    # the flag constants are the ones the tunnel module defines (bt -> EXIT_BT, ipv8 -> EXIT_IPV8)
    for name in ("PEER_FLAG_EXIT_BT", "PEER_FLAG_EXIT_IPV8"):
        r = ctx.repo.resolve_name(fi.module, name)
        ctx.check(isinstance(r, tuple) and r[0] == "const" and r[1].relpath == "ipv8/messaging/anonymization/tunnel.py",
                  "policy-table", fi, name, f"{name} is the tunnel module's constant",
                  f"{name} no longer resolves to ipv8/messaging/anonymization/tunnel.py")
    t = ctx.repo.module("ipv8/messaging/anonymization/tunnel.py")
    vals = {k: ctx.repo.resolve_const(t, t.constants[k]) for k in ("PEER_FLAG_RELAY", "PEER_FLAG_EXIT_BT", "PEER_FLAG_EXIT_IPV8", "PEER_FLAG_SPEED_TEST") if k in t.constants}
    ctx.check(len(set(vals.values())) == len(vals) == 4, "policy-table", t.relpath, "PEER_FLAG_*",
              f"peer flags are distinct constants {vals}", f"peer flag constants collide: {vals}")


def _gate_fact(fi: FuncInfo, facts, data_expr: ast.AST) -> bool:
    """A dominating truthy `self.is_allowed(p)` (possibly held in a local) where p is the never-rebound parameter that the
    emitted expression denotes."""
    root = _param_root(fi, data_expr)
    if root is None:
        return False
    for f in facts:
        if f.op == "truthy" and f.pos:
            e = _expand(fi, f.left)
            if isinstance(e, ast.Call) and chain(e.func) == "self.is_allowed" and len(e.args) == 1 and not e.keywords \
                    and isinstance(e.args[0], ast.Name) and e.args[0].id == root:
                return True
    return False


def rule_gates(ctx: Ctx) -> None:
    repo = ctx.repo
    sendto = repo.method("TunnelExitSocket", "sendto", ES)
    cfg = ctx.cfg(sendto)
    emit = [c for c in calls(sendto) if call_name(c) == "sendto" and chain(c.func) != "self.sendto"]
    ctx.anchor(emit, "transport.sendto call in TunnelExitSocket.sendto")
    for c in emit:
        facts = facts_at(cfg, c)
        ok = _gate_fact(sendto, facts, arg(c, 0, "data"))
        ctx.check(ok, "gate-out", sendto, c, "transport.sendto(data, ..) dominated by truthy is_allowed(data) on the same data",
                  "data can reach the outside socket without passing the exit policy (or a different buffer is checked)",
                  [str(f) for f in facts])
        # the address actually handed to the transport (after any domain-name resolution re-entered sendto) is not the null address
        dest = arg(c, 1, "addr")
        xdest = _expand(sendto, dest) if dest is not None else None
        null_ok = False
        for f in facts:
            if f.op == "eq" and not f.pos and xdest is not None:
                sides = [_expand(sendto, f.left), _expand(sendto, f.right)]
                if any(same_expr(x, xdest) for x in sides) and any(const_value(x) == ("0.0.0.0", 0) for x in sides):
                    null_ok = True
        ctx.check(null_ok and isinstance(xdest, ast.Name) and xdest.id in sendto.params() and not local_defs(sendto, xdest.id),
                  "null-destination", sendto, c, "transport.sendto(data, destination) dominated by destination != ('0.0.0.0', 0) on the emitted address",
                  "the address handed to the outside socket is not re-checked: a domain name that resolves to 0.0.0.0 (e.g. '0') with port 0 "
                  "passes on_data's test and is emitted towards 0.0.0.0:0", [str(f) for f in facts])
    # queued / re-entrant sends go through sendto again (and are re-checked there)
    for c in calls(sendto, "self.queue.append"):
        ctx.check(True, "gate-out", sendto, c, "queued data is replayed through self.sendto (re-checked)")
    # nested resolution callback re-enters self.sendto
    for sub in [f for f in sendto.module.all_functions if f.qualname.startswith("TunnelExitSocket.sendto.")]:
        for c in calls(sub):
            if call_name(c) == "sendto":
                ctx.check(chain(c.func) == "self.sendto", "gate-out", sub, c, "resolution callback re-enters self.sendto",
                          "the DNS resolution callback emits without re-entering the policy gate")
    # who may call what
    n = 0
    for fi in repo.all_functions():
        if not fi.module.relpath.startswith("ipv8/messaging/anonymization/"):
            continue
        for c in calls(fi):
            if call_name(c) != "sendto":
                continue
            n += 1
            ch = chain(c.func) or ""
            if ch == "self.sendto":
                ok = fi.qualname.startswith("TunnelExitSocket.")
                why = "self.sendto used outside TunnelExitSocket"
            elif "exit_sockets" in ch or _is_exit_socket_alias(fi, c):
                ok = fi.qualname == "TunnelCommunity.exit_data"
                why = "exit_socket.sendto called outside TunnelCommunity.exit_data (previous-hop / null-destination checks bypassed)"
            else:
                ok = fi.qualname == "TunnelExitSocket.sendto"
                why = "a transport's sendto is called outside TunnelExitSocket.sendto (exit policy bypassed)"
            ctx.check(ok, "gate-out.who", fi, c, f"sendto caller {fi.qualname}: {ch}", why)
    ctx.floor("gate-out.who", n, 4)
    for m, fi, a in repo.attribute_uses("transport_ipv4"):
        ctx.check(fi is not None and fi.qualname.startswith("TunnelExitSocket."), "gate-out.who", fi or m.relpath, a,
                  "transport_ipv4 used only inside TunnelExitSocket", "exit transport accessed from outside TunnelExitSocket")
    for m, fi, a in repo.attribute_uses("transport_ipv6"):
        ctx.check(fi is not None and fi.qualname.startswith("TunnelExitSocket."), "gate-out.who", fi or m.relpath, a,
                  "transport_ipv6 used only inside TunnelExitSocket", "exit transport accessed from outside TunnelExitSocket")

    # ---- inbound
    dr = repo.method("TunnelExitSocket", "datagram_received", ES)
    cfg = ctx.cfg(dr)
    td = ctx.anchor(calls(dr, "self.tunnel_data"), "tunnel_data call in datagram_received")
    for c in td:
        facts = facts_at(cfg, c)
        data_arg = arg(c, 1, "data")
        ok = data_arg is not None and _gate_fact(dr, facts, data_arg)
        ctx.check(ok, "gate-in", dr, c, "tunnel_data(source, data) dominated by truthy is_allowed(data) on the same data",
                  "data from the outside can enter the tunnel without passing the exit policy", [str(f) for f in facts])
    for m, fi, c in repo.callers_of_name("tunnel_data"):
        if chain(c.func) == "self.tunnel_data" and fi is not None and fi.cls is not None and fi.cls.name == "TunnelExitSocket":
            ctx.check(fi.qualname == "TunnelExitSocket.datagram_received", "gate-in.who", fi, c,
                      "TunnelExitSocket.tunnel_data called only from datagram_received",
                      "tunnel_data is called around the inbound policy gate")
        elif fi is not None and (fi.cls is None or not fi.cls.is_subclass_of("TunnelCommunity")):
            ctx.check(False, "gate-in.who", fi, c, "no foreign caller of tunnel_data", "tunnel_data called from unexpected place")
    # datagram_received_ipv4/6 forward to datagram_received
    for name in ("datagram_received_ipv4", "datagram_received_ipv6"):
        f2 = repo.method("TunnelExitSocket", name, ES)
        fw = calls(f2, "self.datagram_received")
        # anything that may have an effect besides the forward (logging / len / str / address constructors have none here)
        others = [c for c in calls(f2) if chain(c.func) not in ("self.datagram_received", "UDPv4Address", "UDPv6Address")
                  and call_may_raise(c)]
        ctx.check(bool(fw) and not others, "gate-in", f2, f2.node, f"{name} only forwards to datagram_received",
                  f"{name} does something other than forwarding to the gated datagram_received")
        for c in fw:
            ctx.check(_param_root(f2, arg(c, 0, "data")) == f2.params()[1], "gate-in", f2, c,
                      f"{name} forwards the received data unchanged",
                      "the inbound callback forwards different data than it received")


def _is_exit_socket_alias(fi: FuncInfo, c: ast.Call) -> bool:
    f = c.func
    if isinstance(f, ast.Attribute) and isinstance(f.value, ast.Name):
        for _, v, _ in local_defs(fi, f.value.id):
            if v is not None and "exit_sockets" in (chain(v) or norm(v)):
                return True
        for p in fi.node.args.args:
            if p.arg == f.value.id and p.annotation is not None and "TunnelExitSocket" in norm(p.annotation):
                return True
    return False


def _enabled_edge(u, lab, is_enabled) -> bool:
    """Does leaving cond node u by the edge `lab` establish that the registered socket is enabled?"""
    if u.kind != "cond" or lab not in (True, False):
        return False
    f = fact_of(u.ast, lab)
    if f.op == "truthy":
        return f.pos and is_enabled(f.left)
    if f.op in ("is", "eq"):
        for a, b in ((f.left, f.right), (f.right, f.left)):
            if is_enabled(a) and isinstance(b, ast.Constant) and isinstance(b.value, bool):
                return f.pos == b.value
    return False


def rule_null_and_prev_hop(ctx: Ctx) -> None:
    repo = ctx.repo
    on_data = repo.method("TunnelCommunity", "on_data", TC)
    cfg = ctx.cfg(on_data)
    ed = ctx.anchor(calls(on_data, "self.exit_data"), "exit_data call in on_data")
    for c in ed:
        dest = arg(c, 2, "destination")
        facts = facts_at(cfg, c)
        ok = False
        xdest = _expand(on_data, dest) if dest is not None else None
        for f in facts:
            if f.op == "eq" and not f.pos and dest is not None:
                sides = [_expand(on_data, f.left), _expand(on_data, f.right)]
                if any(same_expr(s, xdest) for s in sides) and any(const_value(s) == ("0.0.0.0", 0) for s in sides):
                    ok = True
        # destination is the payload's dest_address
        src_ok = xdest is not None and (chain(xdest) or "").endswith(".dest_address")
        ctx.check(ok and src_ok, "null-destination", on_data, c, "exit_data dominated by destination != ('0.0.0.0', 0)",
                  "data addressed to 0.0.0.0:0 can be handed to the exit socket", [str(f) for f in facts])
    for m, fi, c in repo.callers_of_name("exit_data"):
        ctx.check(fi is not None and fi.qualname == "TunnelCommunity.on_data", "null-destination.who", fi or m.relpath, c,
                  "exit_data called only from on_data", "exit_data is called around the null-destination check")

    ex = repo.method("TunnelCommunity", "exit_data", TC)
    cfg = ctx.cfg(ex)
    params = ex.params()
    cid, sock = params[1], params[2]
    reg = f"self.exit_sockets[{cid}]"          # the socket registered under the cell's circuit id

    def X(e: ast.AST) -> str:
        return _xnorm(ex, e, dict_get=True)

    # the comparison must be about the address / circuit id the caller passed and about the registered hop, not about
    # something exit_data itself wrote just before
    for p in (cid, sock):
        ctx.check(not local_defs(ex, p), "previous-hop", ex, ex.node, f"exit_data judges the {p} it was given",
                  f"exit_data rebinds its parameter {p}: the previous-hop comparison no longer concerns the caller's value")
    en = ctx.anchor([c for c in calls(ex) if call_name(c) == "enable"], "enable() call in exit_data")
    sends = [c for c in calls(ex) if call_name(c) == "sendto"]
    sinks = {n for c in [*en, *sends] for n in cfg.nodes_for(c)}
    for st, tgt in stores(ex, lambda c: True):
        if isinstance(tgt, ast.Name) or not X(tgt).startswith("self.exit_sockets"):
            continue
        before = any(s in cfg.reach(cfg.nodes_for(st)) for s in sinks)
        ctx.check(not before, "previous-hop", ex, st, "exit_data does not rewrite the registered socket / hop before using it",
                  "exit_data overwrites the registered exit socket or its hop address before the previous-hop comparison / send")
    for c in en:
        facts = facts_at(cfg, c)
        ok_recv = X(c.func.value) == reg
        ok = False
        for f in facts:
            if f.op == "eq" and f.pos:
                sides = {X(f.left), X(f.right)}
                if sides == {f"{sock}[0]", f"{reg}.hop.address[0]"}:
                    ok = True
        ctx.check(ok and ok_recv, "previous-hop", ex, c, "enable() dominated by sock_addr[0] == exit_sockets[cid].hop.address[0]",
                  "the outside socket can be opened by data that did not come from the circuit's previous hop",
                  [str(f) for f in facts])
    # the send itself: either socket already enabled or just enabled by the checked branch
    en_nodes = [n for e in en for n in cfg.nodes_for(e)]
    for c in sends:
        facts = facts_at(cfg, c)
        known = False
        for f in facts:
            if f.op == "in" and f.pos and X(f.left) == cid and chain(_expand(ex, f.right)) == "self.exit_sockets":
                known = True
            # `s = self.exit_sockets.get(cid)` + `s` truthy / `s is not None`
            if f.op == "truthy" and f.pos and X(f.left) == reg:
                known = True
            if f.op == "is" and not f.pos and {X(f.left), X(f.right)} == {reg, "None"}:
                known = True
        ctx.check(known and X(c.func.value) == reg, "previous-hop", ex, c,
                  "sendto only on the exit socket registered under this circuit id",
                  "data is handed to an exit socket other than the one registered for the cell's circuit id")
        # reaching sendto with a disabled socket must have gone through the IP comparison: every path to sendto
        # passes either `enabled` truthy or the enable() call
        enabled_edges = lambda u, v, lab: _enabled_edge(u, lab, lambda e: X(e) == f"{reg}.enabled")  # noqa: E731
        for sn in cfg.nodes_for(c):
            r = cfg.reach(cut_nodes=en_nodes, cut_edge=enabled_edges)
            ctx.check(sn not in r, "previous-hop", ex, c, "send requires an enabled socket or the checked enable()",
                      "data can be sent through a socket that was not enabled by the previous-hop check")
    for m, fi, c in repo.callers_of_name("enable"):
        if fi is None or not fi.module.relpath.startswith("ipv8/messaging/anonymization/"):
            continue
        ctx.check(fi.qualname == "TunnelCommunity.exit_data", "previous-hop.who", fi, c, "enable() called only from exit_data",
                  "an exit socket is enabled around the previous-hop check")
    # `enabled` written only by enable()
    for m in repo.modules.values():
        if not m.relpath.startswith("ipv8/messaging/anonymization/"):
            continue
        for n in ast.walk(m.tree):
            if isinstance(n, (ast.Assign, ast.AnnAssign, ast.AugAssign)):
                tgts = n.targets if isinstance(n, ast.Assign) else [n.target]
                for t in [e for t in tgts for e in (t.elts if isinstance(t, (ast.Tuple, ast.List)) else [t])]:
                    if isinstance(t, ast.Attribute) and t.attr == "enabled":
                        fi = repo.function_of(n)
                        ok = fi is not None and fi.qualname in ("TunnelExitSocket.enable", "TunnelExitSocket.__init__")
                        if fi is not None and fi.qualname == "TunnelExitSocket.__init__":
                            ok = isinstance(n.value, ast.Constant) and n.value.value is False
                        ctx.check(ok, "previous-hop.who", fi or m.relpath, n, "`enabled` set only by enable() (False initially)",
                                  "`enabled` is set outside TunnelExitSocket.enable")


# ------------------------------------------------------------------------------------------ classifiers
# A classifier is a function of a few inspected QUANTITIES of its argument (its length, constant byte slices, fields unpacked
# at constant offsets, bit fields of those) that are only ever compared with constants.  The documented behaviour is a
# predicate over those quantities.  Each quantity gets the finite set of values {c-1, c, c+1 : c a constant it is compared
# with, in the code or in the documentation} (integers) / {the constants, one other value} (byte strings): every region the
# comparisons can tell apart contains one of them, so agreement on the product of these sets is agreement on all inputs (the
# quantities are treated as independent, which only adds rows).  How the comparisons are spelt, ordered, negated, split over
# guard clauses or held in locals does not matter.
_L, _B0, _B1, _BL = "len(data)", "data[:1]", "data[1:2]", "data[-1:]"
_T, _V, _E = "unpack_from('!BB', data)[0] >> 4", "unpack_from('!BB', data)[0] & 15", "unpack_from('!BB', data)[1]"
_A0, _A8 = "unpack_from('!I', data)[0]", "unpack_from('!I', data, 8)[0]"
CLASSIFIER_SPEC = {
    # name: ({quantity: constants of the documented tests}, documented predicate over the quantities)
    "could_be_ipv8": ({_L: [23], _B0: [b"\x00"], _B1: [b"\x01", b"\x02"]},
                      lambda v: v[_L] >= 23 and v[_B0] == b"\x00" and v[_B1] in (b"\x01", b"\x02")),
    "could_be_dht": ({_L: [1], _B0: [b"d"], _BL: [b"e"]},
                     lambda v: v[_L] > 1 and v[_B0] == b"d" and v[_BL] == b"e"),
    "could_be_utp": ({_L: [20], _T: [0, 4], _V: [1], _E: [0, 3]},
                     lambda v: v[_L] >= 20 and 0 <= v[_T] <= 4 and v[_V] == 1 and 0 <= v[_E] <= 3),
    "could_be_udp_tracker": ({_L: [8, 12], _A0: [0, 3], _A8: [0, 3]},
                             lambda v: (v[_L] >= 8 and 0 <= v[_A0] <= 3) or (v[_L] >= 12 and 0 <= v[_A8] <= 3)),
}
_INT_OPS = (ast.RShift, ast.LShift, ast.BitAnd, ast.BitOr, ast.BitXor, ast.Add, ast.Sub, ast.Mult, ast.FloorDiv, ast.Mod)


def _is_int_const(e: ast.AST) -> bool:
    return isinstance(e, ast.Constant) and isinstance(e.value, int) and not isinstance(e.value, bool)


def _quantity_kind(x: ast.AST) -> str | None:
    """'int' / 'bytes' for a canonical quantity of `data`, None for anything the table cannot give a value domain."""
    if isinstance(x, ast.Call) and chain(x.func) == "len" and len(x.args) == 1 and chain(x.args[0]) == "data":
        return "int"
    if isinstance(x, ast.Subscript):
        if chain(x.value) == "data":
            if isinstance(x.slice, ast.Slice):
                bounds = [b for b in (x.slice.lower, x.slice.upper) if b is not None]
                if x.slice.step is None and all(const_value(b) is not NOCONST for b in bounds):
                    return "bytes"
                return None
            return "int" if const_value(x.slice) is not NOCONST else None
        v = x.value
        if isinstance(v, ast.Call) and chain(v.func) == "unpack_from" and 2 <= len(v.args) <= 3 and not v.keywords \
                and isinstance(v.args[0], ast.Constant) and chain(v.args[1]) == "data" \
                and all(_is_int_const(a) for a in v.args[2:]) and _is_int_const(x.slice):
            return "int"
        return None
    if isinstance(x, ast.BinOp) and isinstance(x.op, _INT_OPS):
        if _is_int_const(x.right) and _quantity_kind(x.left) == "int":
            return "int"
        if _is_int_const(x.left) and _quantity_kind(x.right) == "int":
            return "int"
    return None


def _shape(text: str) -> str:
    """A quantity with its numbers blanked: `data[1:2]` and `data[2:3]` are the same kind of quantity."""
    return re.sub(r"\b\d+\b", "#", text)


class _QuantityTable(TableEvaluator):
    """Evaluates a classifier body for concrete values of its quantities (env['__atoms__']: quantity text -> value)."""

    def __init__(self, repo, fi: FuncInfo) -> None:
        super().__init__(fi, lambda e: None, on_effect=_classifier_effect)
        self.repo = repo
        self.dname = fi.params()[0]

    # -- operands
    def operand(self, e: ast.AST):
        """('const', value) | ('quantity', text, kind)"""
        x = _canon(_expand(self.fi, e), rename={self.dname: "data"} if self.dname != "data" else None)
        v = const_value(x)
        if v is NOCONST and isinstance(x, (ast.List, ast.Set, ast.Tuple)):
            vs = [const_value(el) for el in x.elts]
            if all(el is not NOCONST for el in vs):
                v = tuple(vs)
        if v is not NOCONST:
            return ("const", v)
        if not any(isinstance(n, ast.Name) and n.id == "data" for n in ast.walk(x)):
            v = self.repo.resolve_const(self.fi.module, e, self.fi.cls)
            if v is not NOCONST:
                return ("const", v)
        kind = _quantity_kind(x)
        if kind is None:
            raise AnalysisError(f"undecided: classifier {self.fi.name} compares `{norm(x)}`, not a length / constant slice / "
                                f"unpacked field of its argument")
        return ("quantity", norm(x), kind)

    def compares(self):
        for n in walk_no_nested(self.fi.node):
            if isinstance(n, ast.Compare):
                yield n, [self.operand(o) for o in [n.left, *n.comparators]]

    def quantities(self) -> dict[str, tuple[str, set]]:
        """quantity text -> (kind, constants it is compared with)"""
        out: dict[str, tuple[str, set]] = {}
        for n, ops in self.compares():
            qs = [o for o in ops if o[0] == "quantity"]
            consts = set()
            for o in ops:
                if o[0] == "const":
                    consts |= set(o[1]) if isinstance(o[1], tuple) else {o[1]}
            for i, o in enumerate(ops):
                if o[0] != "quantity":
                    continue
                nb = [ops[j] for j in (i - 1, i + 1) if 0 <= j < len(ops)]
                if any(b[0] == "quantity" for b in nb):
                    raise AnalysisError(f"undecided: classifier {self.fi.name} compares two inspected quantities with each "
                                        f"other in `{norm(n)}`")
                out.setdefault(o[1], (o[2], set()))[1].update(consts)
            if not qs:
                continue
            for op, (a, b) in zip(n.ops, zip(ops, ops[1:])):
                q = a if a[0] == "quantity" else b
                if q[0] == "quantity" and q[2] == "bytes" and not isinstance(op, (ast.Eq, ast.NotEq, ast.In, ast.NotIn)):
                    raise AnalysisError(f"undecided: classifier {self.fi.name} orders a byte slice in `{norm(n)}`")
                if isinstance(op, (ast.Is, ast.IsNot)):
                    raise AnalysisError(f"undecided: identity test `{norm(n)}` in classifier {self.fi.name}")
        return out

    # -- evaluation
    def eval(self, e, env):
        e0 = strip_cast(e)
        if isinstance(e0, ast.Compare):
            vals = []
            for o in [e0.left, *e0.comparators]:
                r = self.operand(o)
                if r[0] == "const":
                    vals.append(r[1])
                elif r[1] in env["__atoms__"]:
                    vals.append(env["__atoms__"][r[1]])
                else:
                    raise AnalysisError(f"decision table: quantity {r[1]} has no value")
            try:
                for op, a, b in zip(e0.ops, vals, vals[1:]):
                    if not _CMP[type(op)](a, b):
                        return False
            except (TypeError, KeyError) as ex:
                raise AnalysisError(f"undecided: cannot evaluate `{norm(e0)}` in classifier {self.fi.name}: {ex}") from None
            return True
        return super().eval(e, env)


_CMP = {ast.Eq: lambda a, b: a == b, ast.NotEq: lambda a, b: a != b, ast.Lt: lambda a, b: a < b, ast.LtE: lambda a, b: a <= b,
        ast.Gt: lambda a, b: a > b, ast.GtE: lambda a, b: a >= b, ast.In: lambda a, b: a in b, ast.NotIn: lambda a, b: a not in b}


def _domain(kind: str, consts) -> list:
    if kind == "int":
        cs = [c for c in consts if isinstance(c, int) and not isinstance(c, bool)]
        return sorted({c + d for c in cs for d in (-1, 0, 1)}) or [0]
    cs = sorted(c for c in consts if isinstance(c, bytes))
    other = b"\xfe"
    while other in cs:
        other += b"\xfe"
    return [*cs, other]


class _AliasLengths(LengthAnalysis):
    """LengthAnalysis that also reads a length guard through a local holding `len(x)` (`size = len(data); if size >= 8`)."""

    def _len_of(self, e: ast.AST) -> str | None:
        return super()._len_of(_expand(self.fi, e))


def rule_classifiers(ctx: Ctx) -> None:
    repo = ctx.repo
    dc = repo.cls("DataChecker", ES)
    # could_be_bt = utp or tracker or dht on the same data
    bt = dc.methods.get("could_be_bt")
    ctx.anchor(bt, "DataChecker.could_be_bt")
    data = bt.params()[0]
    ctx.check(not local_defs(bt, data), "classifier-shape", bt, bt.node, "could_be_bt inspects its own argument",
              "could_be_bt rebinds its data parameter")

    def bt_atom(e):
        e = strip_cast(e)
        if not (isinstance(e, ast.Call) or (isinstance(e, ast.Name) and isinstance(e.ctx, ast.Load))):
            return None
        x = _expand(bt, e)
        if isinstance(x, ast.Call) and len(x.args) == 1 and not x.keywords and chain(x.args[0]) == data:
            tg = {t.qualname for t in repo.resolve_call(bt, x)}
            if len(tg) == 1 and next(iter(tg)).startswith("DataChecker.could_be_"):
                return next(iter(tg)).split(".", 1)[1]
        return None
    want_atoms = ["could_be_dht", "could_be_udp_tracker", "could_be_utp"]
    ev = _Table(bt, bt_atom)
    found = ev.discover()
    ok = found == want_atoms
    if ok:
        for vals in itertools.product([False, True], repeat=3):
            got = ev.run(dict(zip(want_atoms, vals)))
            if isinstance(got, Opaque):
                raise AnalysisError(f"could_be_bt returns an expression the table evaluator cannot decide: {got}")
            ok = ok and bool(got) == any(vals)
    ctx.check(ok, "classifier-shape", bt, bt.node, "could_be_bt = utp(data) or udp_tracker(data) or dht(data)",
              "could_be_bt is no longer exactly the disjunction of the three BitTorrent classifiers on its argument")
    for name, (spec_q, spec) in CLASSIFIER_SPEC.items():
        fi = dc.methods.get(name)
        ctx.anchor(fi, f"DataChecker.{name}")
        dname = fi.params()[0]
        ctx.check(not local_defs(fi, dname), "classifier-shape", fi, fi.node, f"{name} inspects its own argument",
                  f"{name} rebinds its data parameter")
        ev = _QuantityTable(repo, fi)
        code_q = ev.quantities()
        kinds = {q: ("bytes" if isinstance(cs[0], bytes) else "int") for q, cs in spec_q.items()}
        consts = {q: set(cs) for q, cs in spec_q.items()}
        for q, (kind, cs) in code_q.items():
            if q in kinds and kinds[q] != kind:
                raise AnalysisError(f"classifier {name}: quantity {q} changed its type")
            kinds.setdefault(q, kind)
            consts.setdefault(q, set()).update(cs)
        qs = sorted(kinds)
        doms = [_domain(kinds[q], consts[q]) for q in qs]
        rows = 1
        for d in doms:
            rows *= len(d)
        if rows > 50000:
            raise AnalysisError(f"undecided: classifier {name} has a decision table of {rows} rows")
        bad = None
        nbad = 0
        for vals in itertools.product(*doms):
            env = dict(zip(qs, vals))
            got = ev.run(env)
            if isinstance(got, Opaque):
                raise AnalysisError(f"classifier {name} returns undecidable expression {got}")
            want = spec(env)
            if bool(got) != bool(want):
                nbad += 1
                if bad is None:
                    bad = (env, got, want)
        extra = [q for q in code_q if q not in spec_q]
        if bad and any(_shape(q) not in {_shape(s) for s in spec_q} for q in extra):
            # a quantity of a kind the documentation does not mention: cannot tell a re-spelling from a change
            raise AnalysisError(f"undecided: classifier {name} tests {extra}, not among the documented quantities {sorted(spec_q)}")
        ctx.instance("classifier-shape", fi.where,
                     f"{name}: {rows} rows over {qs} agree with the documented table", ok=bad is None)
        if bad:
            missing = [q for q in spec_q if q not in code_q]
            ctx.violation("classifier-shape", fi, fi.node,
                          f"{name} disagrees with its documented decision table on {nbad} of {rows} rows, e.g. {bad[0]} -> "
                          f"{bad[1]} (documented {bad[2]})"
                          + (f"; documented quantities no longer tested: {missing}" if missing else "")
                          + (f"; undocumented quantities tested: {extra}" if extra else ""))
        # guarded reads
        la = _AliasLengths(repo, fi, ctx.cfg(fi), {})
        for node, base, need in [*la.index_sites(), *la.unpack_sites()]:
            if protected(node, fi):
                continue
            have, used = la.min_len(base, node)
            ctx.check(have >= need, "classifier-shape", fi, node, f"{name}: `{norm(node)}` needs {need} bytes, guarded with >= {have}",
                      f"{name} reads `{norm(node)}` (needs {need} bytes) with only len >= {have} established: short payloads raise inside the policy gate", used)


def _classifier_effect(s, env, ev) -> None:
    # `byte1, byte2 = unpack_from("!BB", data)` and try/except wrappers are structural, not decisions
    if isinstance(s, ast.Assign) and isinstance(s.targets[0], ast.Tuple):
        return
    if isinstance(s, ast.Try):
        ev._block(s.body, env)
        return
    raise AnalysisError(f"classifier: unsupported statement `{norm(s)[:60]}`")


def run(ctx: Ctx) -> None:
    rule_policy_table(ctx)
    rule_gates(ctx)
    rule_null_and_prev_hop(ctx)
    rule_classifiers(ctx)
    ctx.assume("the DataChecker byte tests are the definition of BitTorrent-/IPv8-shaped traffic (documented in their docstrings)")
    ctx.assume("asyncio DatagramTransport.sendto is the only emission primitive of an exit socket (checked: transports are used only inside TunnelExitSocket)")


WITNESSES = [
    {"name": "ipv8 allowed under BT flag", "file": ES, "rule": "policy-table",
     "old": "and not (is_ipv8 and PEER_FLAG_EXIT_IPV8 in self.overlay.settings.peer_flags)",
     "new": "and not (is_ipv8 and PEER_FLAG_EXIT_BT in self.overlay.settings.peer_flags)"},
    {"name": "own-prefix clause without ipv8 shape", "file": ES, "rule": "policy-table",
     "old": "and not (is_ipv8 and self.overlay.get_prefix() == data[:22]):",
     "new": "and not (self.overlay.get_prefix() == data[:22]):"},
    {"name": "policy returns True on drop path", "file": ES, "rule": "policy-table",
     "old": "            self.logger.warning(\"Dropping data packets, refusing to be an exit node (BT=%s, IPv8=%s)\", is_bt, is_ipv8)\n            return False",
     "new": "            self.logger.warning(\"Dropping data packets, refusing to be an exit node (BT=%s, IPv8=%s)\", is_bt, is_ipv8)\n            return is_bt"},
    {"name": "sendto gate removed", "file": ES, "rule": "gate-out",
     "old": "        if not self.is_allowed(data):\n            return\n\n        # Since this call", "new": "        # Since this call"},
    {"name": "queue drained straight to transport", "file": ES, "rule": "gate-out",
     "old": "                    self.sendto(*self.queue.popleft())",
     "new": "                    queued, dest = self.queue.popleft()\n                    self.transport_ipv4.sendto(queued, dest)"},
    {"name": "inbound gate checks other buffer", "file": ES, "rule": "gate-in",
     "old": "        if self.is_allowed(data):\n            try:\n                self.tunnel_data(source, data)",
     "new": "        if self.is_allowed(data[:64]):\n            try:\n                self.tunnel_data(source, data)"},
    {"name": "resolved address not re-checked (defect fixed by 9e93f06)", "file": ES, "rule": "null-destination",
     "old": """        if destination == ("0.0.0.0", 0):
            # A domain name can resolve to the null address as well.
            self.logger.warning("Cannot exit data, destination is 0.0.0.0:0")
            return

""", "new": ""},
    {"name": "null destination check dropped", "file": TC, "rule": "null-destination",
     "old": "            if destination != (\"0.0.0.0\", 0):\n                self.exit_data(circuit_id, sock_addr, destination, data)",
     "new": "            if destination:\n                self.exit_data(circuit_id, sock_addr, destination, data)"},
    {"name": "previous hop compares port instead of ip", "file": TC, "rule": "previous-hop",
     "old": "if sock_addr[0] == self.exit_sockets[circuit_id].hop.address[0]:",
     "new": "if sock_addr[1] == self.exit_sockets[circuit_id].hop.address[1]:"},
    {"name": "enable on mismatch too", "file": TC, "rule": "previous-hop",
     "old": "                self.logger.error(\"Dropping outbound relayed packet: IP's are %s != %s\",\n                                  str(sock_addr), str(self.exit_sockets[circuit_id].hop.address))\n                return",
     "new": "                self.logger.error(\"Dropping outbound relayed packet: IP's are %s != %s\",\n                                  str(sock_addr), str(self.exit_sockets[circuit_id].hop.address))"},
    {"name": "previous hop compared with itself", "file": TC, "rule": "previous-hop",
     "old": "        if circuit_id not in self.exit_sockets:\n            self.logger.error(\"Dropping data packets with unknown circuit_id\")",
     "new": "        sock_addr = self.exit_sockets[circuit_id].hop.address\n        if circuit_id not in self.exit_sockets:\n            self.logger.error(\"Dropping data packets with unknown circuit_id\")"},
    {"name": "hop address overwritten before the comparison", "file": TC, "rule": "previous-hop",
     "old": "        if not self.exit_sockets[circuit_id].enabled:\n            # Check that we got the data from the correct IP.",
     "new": "        self.exit_sockets[circuit_id].hop.address = sock_addr\n        if not self.exit_sockets[circuit_id].enabled:\n            # Check that we got the data from the correct IP."},
    {"name": "ipv8 length guard clause one byte short", "file": ES, "rule": "classifier-shape",
     "old": "return len(data) >= 23 and data[0:1] == b\"\\x00\" and data[1:2] in [b\"\\x01\", b\"\\x02\"]",
     "new": "if 22 > len(data):\n            return False\n        return data[:1] == b\"\\x00\" and data[1:2] in (b\"\\x01\", b\"\\x02\")"},
    {"name": "exit socket enabled at join", "file": TC, "rule": "previous-hop.who",
     "old": "        self.exit_sockets[circuit_id] = TunnelExitSocket(circuit_id, Hop(peer, session_keys), self)\n",
     "new": "        self.exit_sockets[circuit_id] = TunnelExitSocket(circuit_id, Hop(peer, session_keys), self)\n        self.exit_sockets[circuit_id].enable()\n"},
    {"name": "ipv8 classifier accepts any version", "file": ES, "rule": "classifier-shape",
     "old": "return len(data) >= 23 and data[0:1] == b\"\\x00\" and data[1:2] in [b\"\\x01\", b\"\\x02\"]",
     "new": "return len(data) >= 23 and data[0:1] == b\"\\x00\""},
    {"name": "utp type bound widened", "file": ES, "rule": "classifier-shape",
     "old": "if not (0 <= (byte1 >> 4) <= 4 and (byte1 & 15) == 1):", "new": "if not (0 <= (byte1 >> 4) <= 15 and (byte1 & 15) == 1):"},
    {"name": "tracker length guard weakened", "file": ES, "rule": "classifier-shape",
     "old": "or (len(data) >= 12 and 0 <= unpack_from(\"!I\", data, 8)[0] <= 3))",
     "new": "or (len(data) >= 8 and 0 <= unpack_from(\"!I\", data, 8)[0] <= 3))"},
    {"name": "could_be_bt drops dht", "file": ES, "rule": "classifier-shape",
     "old": "                or DataChecker.could_be_udp_tracker(data)\n                or DataChecker.could_be_dht(data))",
     "new": "                or DataChecker.could_be_udp_tracker(data)\n                or DataChecker.could_be_ipv8(data))"},
]
