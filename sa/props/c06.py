"""C06 - An exit node never emits traffic its exit policy forbids."""
from __future__ import annotations

import ast
import itertools

from ..boolfn import Opaque, TableEvaluator
from ..core import Ctx
from ..lengths import LengthAnalysis
from ..match import arg, call_name, calls, facts_at, local_defs, same_expr, single_def
from ..model import AnalysisError, FuncInfo, chain, const_value, enclosing_stmt, norm, strip_cast, walk_no_nested

LEVEL = "other"
EXPLANATION = (
    "Exhaustive over the policy abstraction and over all paths: is_allowed is evaluated for all 32 assignments of its "
    "five atoms (bt, ipv8, BT-flag, IPV8-flag, own-prefix) and must equal (bt&BT)|(v8&V8)|(v8&own); every path of "
    "TunnelExitSocket.sendto to transport.sendto and of datagram_received to tunnel_data passes a truthy "
    "is_allowed(<the very data emitted>); closed sets of callers for transport.sendto / exit_socket.sendto / enable / "
    "tunnel_data; exit_data dominated by destination != ('0.0.0.0', 0); enable() dominated by the previous-hop IP "
    "comparison; the DataChecker classifiers are decision tables over their documented byte tests with guarded reads."
)

ES = "ipv8/messaging/anonymization/exit_socket.py"
TC = "ipv8/messaging/anonymization/community.py"
FLAGS = "self.overlay.settings.peer_flags"


def _atom_is_allowed(fi: FuncInfo):
    data = fi.params()[1]

    def atom(e):
        e = strip_cast(e)
        if isinstance(e, ast.Call) and chain(e.func) in ("DataChecker.could_be_bt", "DataChecker.could_be_ipv8") \
                and len(e.args) == 1 and chain(e.args[0]) == data:
            return "bt" if chain(e.func).endswith("bt") else "v8"
        if isinstance(e, ast.Compare) and len(e.ops) == 1:
            l, op, r = e.left, e.ops[0], e.comparators[0]
            if isinstance(op, ast.In) and chain(r) == FLAGS and chain(l) in ("PEER_FLAG_EXIT_BT", "PEER_FLAG_EXIT_IPV8"):
                return "BT" if chain(l) == "PEER_FLAG_EXIT_BT" else "V8"
            if isinstance(op, ast.Eq):
                sides = {norm(l), norm(r)}
                if sides == {"self.overlay.get_prefix()", f"{data}[:22]"}:
                    return "own"
        return None
    return atom


def rule_policy_table(ctx: Ctx) -> None:
    fi = ctx.repo.method("TunnelExitSocket", "is_allowed", ES)
    data = fi.params()[1]
    ctx.check(not local_defs(fi, data), "policy-table", fi, fi.node, "is_allowed judges the data it was given",
              "is_allowed rebinds its data parameter before classifying it")
    ev = TableEvaluator(fi, _atom_is_allowed(fi))
    atoms = ["bt", "v8", "BT", "V8", "own"]
    found = ev.discover()
    ctx.check(set(found) == set(atoms), "policy-table", fi, fi.node, f"atoms of is_allowed = {atoms}",
              f"is_allowed no longer depends on exactly the atoms {atoms}: found {found}")
    if set(found) - set(atoms):
        return
    bad = []
    n = 0
    for vals in itertools.product([False, True], repeat=5):
        env = dict(zip(atoms, vals))
        try:
            got = ev.run(env)
        except AnalysisError:
            raise
        if isinstance(got, Opaque):
            raise AnalysisError(f"is_allowed returns an expression the table evaluator cannot decide: {got}")
        want = (env["bt"] and env["BT"]) or (env["v8"] and env["V8"]) or (env["v8"] and env["own"])
        n += 1
        ok = bool(got) == bool(want) and got is not None
        ctx.instance("policy-table", fi.where, f"row {env} -> {got} (spec {want})", ok=ok)
        if not ok:
            bad.append((env, got, want))
    if bad:
        env, got, want = bad[0]
        ctx.violation("policy-table", fi, fi.node,
                      f"is_allowed differs from (bt&BT)|(v8&V8)|(v8&own) on {len(bad)} of 32 rows, e.g. {env}: returns {got}, policy says {want}")
    # the flag constants are the ones the tunnel module defines (bt -> EXIT_BT, ipv8 -> EXIT_IPV8)
    for name in ("PEER_FLAG_EXIT_BT", "PEER_FLAG_EXIT_IPV8"):
        r = ctx.repo.resolve_name(fi.module, name)
        ctx.check(isinstance(r, tuple) and r[0] == "const" and r[1].relpath == "ipv8/messaging/anonymization/tunnel.py",
                  "policy-table", fi, name, f"{name} is the tunnel module's constant",
                  f"{name} no longer resolves to ipv8/messaging/anonymization/tunnel.py")
    t = ctx.repo.module("ipv8/messaging/anonymization/tunnel.py")
    vals = {k: ctx.repo.resolve_const(t, t.constants[k]) for k in ("PEER_FLAG_RELAY", "PEER_FLAG_EXIT_BT", "PEER_FLAG_EXIT_IPV8", "PEER_FLAG_SPEED_TEST") if k in t.constants}
    ctx.check(len(set(vals.values())) == len(vals) == 4, "policy-table", t.relpath, "PEER_FLAG_*",
              f"peer flags are distinct constants {vals}", f"peer flag constants collide: {vals}")


def _gate_fact(fi: FuncInfo, facts, data_expr: ast.AST) -> bool:
    for f in facts:
        if f.op == "truthy" and f.pos:
            e = strip_cast(f.left)
            if isinstance(e, ast.Call) and chain(e.func) == "self.is_allowed" and len(e.args) == 1 \
                    and same_expr(e.args[0], data_expr) and isinstance(data_expr, ast.Name) \
                    and not local_defs(fi, data_expr.id):
                return True
    return False


def rule_gates(ctx: Ctx) -> None:
    repo = ctx.repo
    sendto = repo.method("TunnelExitSocket", "sendto", ES)
    cfg = ctx.cfg(sendto)
    emit = [c for c in calls(sendto) if call_name(c) == "sendto" and chain(c.func) != "self.sendto"]
    ctx.anchor(emit, "transport.sendto call in TunnelExitSocket.sendto")
    for c in emit:
        facts = facts_at(cfg, c)
        ok = bool(c.args) and _gate_fact(sendto, facts, c.args[0])
        ctx.check(ok, "gate-out", sendto, c, "transport.sendto(data, ..) dominated by truthy is_allowed(data) on the same data",
                  "data can reach the outside socket without passing the exit policy (or a different buffer is checked)",
                  [str(f) for f in facts])
    # queued / re-entrant sends go through sendto again (and are re-checked there)
    for c in calls(sendto, "self.queue.append"):
        ctx.check(True, "gate-out", sendto, c, "queued data is replayed through self.sendto (re-checked)")
    # nested resolution callback re-enters self.sendto
    for sub in [f for f in sendto.module.all_functions if f.qualname.startswith("TunnelExitSocket.sendto.")]:
        for c in calls(sub):
            if call_name(c) == "sendto":
                ctx.check(chain(c.func) == "self.sendto", "gate-out", sub, c, "resolution callback re-enters self.sendto",
                          "the DNS resolution callback emits without re-entering the policy gate")
    # who may call what
    n = 0
    for fi in repo.all_functions():
        if not fi.module.relpath.startswith("ipv8/messaging/anonymization/"):
            continue
        for c in calls(fi):
            if call_name(c) != "sendto":
                continue
            n += 1
            ch = chain(c.func) or ""
            if ch == "self.sendto":
                ok = fi.qualname.startswith("TunnelExitSocket.")
                why = "self.sendto used outside TunnelExitSocket"
            elif "exit_sockets" in ch or _is_exit_socket_alias(fi, c):
                ok = fi.qualname == "TunnelCommunity.exit_data"
                why = "exit_socket.sendto called outside TunnelCommunity.exit_data (previous-hop / null-destination checks bypassed)"
            else:
                ok = fi.qualname == "TunnelExitSocket.sendto"
                why = "a transport's sendto is called outside TunnelExitSocket.sendto (exit policy bypassed)"
            ctx.check(ok, "gate-out.who", fi, c, f"sendto caller {fi.qualname}: {ch}", why)
    ctx.floor("gate-out.who", n, 4)
    for m, fi, a in repo.attribute_uses("transport_ipv4"):
        ctx.check(fi is not None and fi.qualname.startswith("TunnelExitSocket."), "gate-out.who", fi or m.relpath, a,
                  "transport_ipv4 used only inside TunnelExitSocket", "exit transport accessed from outside TunnelExitSocket")
    for m, fi, a in repo.attribute_uses("transport_ipv6"):
        ctx.check(fi is not None and fi.qualname.startswith("TunnelExitSocket."), "gate-out.who", fi or m.relpath, a,
                  "transport_ipv6 used only inside TunnelExitSocket", "exit transport accessed from outside TunnelExitSocket")

    # ---- inbound
    dr = repo.method("TunnelExitSocket", "datagram_received", ES)
    cfg = ctx.cfg(dr)
    td = ctx.anchor(calls(dr, "self.tunnel_data"), "tunnel_data call in datagram_received")
    for c in td:
        facts = facts_at(cfg, c)
        data_arg = arg(c, 1, "data")
        ok = data_arg is not None and _gate_fact(dr, facts, data_arg)
        ctx.check(ok, "gate-in", dr, c, "tunnel_data(source, data) dominated by truthy is_allowed(data) on the same data",
                  "data from the outside can enter the tunnel without passing the exit policy", [str(f) for f in facts])
    for m, fi, c in repo.callers_of_name("tunnel_data"):
        if chain(c.func) == "self.tunnel_data" and fi is not None and fi.cls is not None and fi.cls.name == "TunnelExitSocket":
            ctx.check(fi.qualname == "TunnelExitSocket.datagram_received", "gate-in.who", fi, c,
                      "TunnelExitSocket.tunnel_data called only from datagram_received",
                      "tunnel_data is called around the inbound policy gate")
        elif fi is not None and (fi.cls is None or not fi.cls.is_subclass_of("TunnelCommunity")):
            ctx.check(False, "gate-in.who", fi, c, "no foreign caller of tunnel_data", "tunnel_data called from unexpected place")
    # datagram_received_ipv4/6 forward to datagram_received
    for name in ("datagram_received_ipv4", "datagram_received_ipv6"):
        f2 = repo.method("TunnelExitSocket", name, ES)
        fw = calls(f2, "self.datagram_received")
        others = [c for c in calls(f2) if chain(c.func) not in ("self.datagram_received", "UDPv4Address", "UDPv6Address")]
        ctx.check(bool(fw) and not others, "gate-in", f2, f2.node, f"{name} only forwards to datagram_received",
                  f"{name} does something other than forwarding to the gated datagram_received")
        for c in fw:
            ctx.check(chain(arg(c, 0)) == f2.params()[1], "gate-in", f2, c, f"{name} forwards the received data unchanged",
                      "the inbound callback forwards different data than it received")


def _is_exit_socket_alias(fi: FuncInfo, c: ast.Call) -> bool:
    f = c.func
    if isinstance(f, ast.Attribute) and isinstance(f.value, ast.Name):
        d = single_def(fi, f.value.id)
        if d is not None and "exit_sockets" in (chain(d[0]) or norm(d[0])):
            return True
        t = None
        for p in fi.node.args.args:
            if p.arg == f.value.id and p.annotation is not None and "TunnelExitSocket" in norm(p.annotation):
                return True
    return False


def rule_null_and_prev_hop(ctx: Ctx) -> None:
    repo = ctx.repo
    on_data = repo.method("TunnelCommunity", "on_data", TC)
    cfg = ctx.cfg(on_data)
    ed = ctx.anchor(calls(on_data, "self.exit_data"), "exit_data call in on_data")
    for c in ed:
        dest = arg(c, 2, "destination")
        facts = facts_at(cfg, c)
        ok = False
        for f in facts:
            if f.op == "eq" and not f.pos and dest is not None:
                sides = [f.left, f.right]
                if any(same_expr(s, dest) for s in sides) and any(const_value(s) == ("0.0.0.0", 0) for s in sides):
                    ok = True
        # destination is the payload's dest_address
        src_ok = False
        if isinstance(dest, ast.Name):
            d = single_def(on_data, dest.id)
            src_ok = d is not None and (chain(d[0]) or "").endswith(".dest_address")
        ctx.check(ok and src_ok, "null-destination", on_data, c, "exit_data dominated by destination != ('0.0.0.0', 0)",
                  "data addressed to 0.0.0.0:0 can be handed to the exit socket", [str(f) for f in facts])
    for m, fi, c in repo.callers_of_name("exit_data"):
        ctx.check(fi is not None and fi.qualname == "TunnelCommunity.on_data", "null-destination.who", fi or m.relpath, c,
                  "exit_data called only from on_data", "exit_data is called around the null-destination check")

    ex = repo.method("TunnelCommunity", "exit_data", TC)
    cfg = ctx.cfg(ex)
    params = ex.params()
    cid, sock = params[1], params[2]
    en = ctx.anchor([c for c in calls(ex) if call_name(c) == "enable"], "enable() call in exit_data")
    for c in en:
        facts = facts_at(cfg, c)
        recv = c.func.value
        ok_recv = norm(recv) == f"self.exit_sockets[{cid}]"
        ok = False
        for f in facts:
            if f.op == "eq" and f.pos:
                sides = {norm(f.left), norm(f.right)}
                if sides == {f"{sock}[0]", f"self.exit_sockets[{cid}].hop.address[0]"}:
                    ok = True
        ctx.check(ok and ok_recv, "previous-hop", ex, c, "enable() dominated by sock_addr[0] == exit_sockets[cid].hop.address[0]",
                  "the outside socket can be opened by data that did not come from the circuit's previous hop",
                  [str(f) for f in facts])
    # the send itself: either socket already enabled or just enabled by the checked branch
    for c in [c for c in calls(ex) if call_name(c) == "sendto"]:
        facts = facts_at(cfg, c)
        known = any(f.op == "in" and f.pos and norm(f.left) == cid and chain(f.right) == "self.exit_sockets" for f in facts)
        ctx.check(known and norm(c.func.value) == f"self.exit_sockets[{cid}]", "previous-hop", ex, c,
                  "sendto only on the exit socket registered under this circuit id",
                  "data is handed to an exit socket other than the one registered for the cell's circuit id")
        # reaching sendto with a disabled socket must have gone through the IP comparison: every path to sendto
        # passes either `enabled` truthy or the enable() call
        en_nodes = [n for e in en for n in cfg.nodes_for(e)]
        enabled_edges = lambda u, v, lab: (u.kind == "cond" and norm(u.ast) == f"self.exit_sockets[{cid}].enabled" and lab is True)  # noqa: E731
        for sn in cfg.nodes_for(c):
            r = cfg.reach(cut_nodes=en_nodes, cut_edge=enabled_edges)
            ctx.check(sn not in r, "previous-hop", ex, c, "send requires an enabled socket or the checked enable()",
                      "data can be sent through a socket that was not enabled by the previous-hop check")
    for m, fi, c in repo.callers_of_name("enable"):
        if fi is None or not fi.module.relpath.startswith("ipv8/messaging/anonymization/"):
            continue
        ctx.check(fi.qualname == "TunnelCommunity.exit_data", "previous-hop.who", fi, c, "enable() called only from exit_data",
                  "an exit socket is enabled around the previous-hop check")
    # `enabled` written only by enable()
    for m in repo.modules.values():
        if not m.relpath.startswith("ipv8/messaging/anonymization/"):
            continue
        for n in ast.walk(m.tree):
            if isinstance(n, ast.Assign):
                for t in n.targets:
                    if isinstance(t, ast.Attribute) and t.attr == "enabled":
                        fi = repo.function_of(n)
                        ok = fi is not None and fi.qualname in ("TunnelExitSocket.enable", "TunnelExitSocket.__init__")
                        if fi is not None and fi.qualname == "TunnelExitSocket.__init__":
                            ok = isinstance(n.value, ast.Constant) and n.value.value is False
                        ctx.check(ok, "previous-hop.who", fi or m.relpath, n, "`enabled` set only by enable() (False initially)",
                                  "`enabled` is set outside TunnelExitSocket.enable")


# ------------------------------------------------------------------------------------------ classifiers
def _canon_atom(data: str):
    def atom(e):
        e = strip_cast(e)
        if isinstance(e, ast.Compare):
            txt = norm(e)
            if data in {n.id for n in ast.walk(e) if isinstance(n, ast.Name)} or any(
                    isinstance(n, ast.Name) and n.id in ("byte1", "byte2") for n in ast.walk(e)):
                return txt
        return None
    return atom


CLASSIFIER_SPEC = {
    # name: (atoms in canonical text, spec function over atom dict)
    "could_be_ipv8": (["len(data) >= 23", "data[0:1] == b'\\x00'", "data[1:2] in [b'\\x01', b'\\x02']"],
                      lambda a: a["len(data) >= 23"] and a["data[0:1] == b'\\x00'"] and a["data[1:2] in [b'\\x01', b'\\x02']"]),
    "could_be_dht": (["len(data) > 1", "data[0:1] == b'd'", "data[-1:] == b'e'"],
                     lambda a: a["len(data) > 1"] and a["data[0:1] == b'd'"] and a["data[-1:] == b'e'"]),
    "could_be_utp": (["len(data) < 20", "0 <= byte1 >> 4 <= 4", "byte1 & 15 == 1", "0 <= byte2 <= 3"],
                     lambda a: (not a["len(data) < 20"]) and a["0 <= byte1 >> 4 <= 4"] and a["byte1 & 15 == 1"] and a["0 <= byte2 <= 3"]),
    "could_be_udp_tracker": (["len(data) >= 8", "0 <= unpack_from('!I', data, 0)[0] <= 3", "len(data) >= 12",
                              "0 <= unpack_from('!I', data, 8)[0] <= 3"],
                             lambda a: (a["len(data) >= 8"] and a["0 <= unpack_from('!I', data, 0)[0] <= 3"])
                             or (a["len(data) >= 12"] and a["0 <= unpack_from('!I', data, 8)[0] <= 3"])),
}


def _subject(atom_text: str) -> str:
    """The inspected quantity of a canonical atom, with the numeric bounds blanked."""
    import re
    return re.sub(r"\b\d+\b", "#", atom_text)


def rule_classifiers(ctx: Ctx) -> None:
    repo = ctx.repo
    dc = repo.cls("DataChecker", ES)
    # could_be_bt = utp or tracker or dht on the same data
    bt = dc.methods.get("could_be_bt")
    ctx.anchor(bt, "DataChecker.could_be_bt")
    data = bt.params()[0]
    rets = [n for n in walk_no_nested(bt.node) if isinstance(n, ast.Return)]
    ok = False
    if len(rets) == 1 and isinstance(rets[0].value, ast.BoolOp) and isinstance(rets[0].value.op, ast.Or):
        names = []
        for v in rets[0].value.values:
            v = strip_cast(v)
            if isinstance(v, ast.Call) and len(v.args) == 1 and chain(v.args[0]) == data:
                names.append(chain(v.func))
        ok = sorted(names) == ["DataChecker.could_be_dht", "DataChecker.could_be_udp_tracker", "DataChecker.could_be_utp"] \
            and len(rets[0].value.values) == 3
    ctx.check(ok, "classifier-shape", bt, bt.node, "could_be_bt = utp(data) or udp_tracker(data) or dht(data)",
              "could_be_bt is no longer exactly the disjunction of the three BitTorrent classifiers on its argument")
    for name, (atoms, spec) in CLASSIFIER_SPEC.items():
        fi = dc.methods.get(name)
        ctx.anchor(fi, f"DataChecker.{name}")
        dname = fi.params()[0]
        ctx.check(not local_defs(fi, dname), "classifier-shape", fi, fi.node, f"{name} inspects its own argument",
                  f"{name} rebinds its data parameter")
        canon = [a.replace("data", dname) for a in atoms]

        def atom_of(e, canon=canon, dname=dname):
            e = strip_cast(e)
            if isinstance(e, ast.Compare):
                t = norm(e)
                if t in canon:
                    return t
                names = {n.id for n in ast.walk(e) if isinstance(n, ast.Name)}
                if dname in names or names & {"byte1", "byte2"}:
                    return "?" + t
            return None
        ev = TableEvaluator(fi, atom_of, on_effect=_classifier_effect)
        found = ev.discover()
        unknown = [a[1:] for a in found if a.startswith("?")]
        if unknown:
            subjects = {_subject(a) for a in canon}
            for u in unknown:
                if _subject(u) in subjects:
                    ctx.check(False, "classifier-shape", fi, u, f"{name}: byte test `{u}`",
                              f"{name} tests `{u}`: same quantity as the documented test but different bounds "
                              f"(documented: {[a for a in canon if _subject(a) == _subject(u)]})")
                else:
                    raise AnalysisError(f"classifier {name}: unknown byte test `{u}` (not in the documented table)")
            continue
        missing = [a for a in canon if a not in found]
        if missing:
            ctx.check(False, "classifier-shape", fi, fi.node, f"{name}: all documented byte tests present",
                      f"{name} no longer performs the documented test(s) {missing}")
            continue
        bad = None
        for vals in itertools.product([False, True], repeat=len(canon)):
            env = dict(zip(canon, vals))
            got = ev.run(env)
            want = spec({a.replace(dname, "data"): v for a, v in env.items()})
            if isinstance(got, Opaque):
                raise AnalysisError(f"classifier {name} returns undecidable expression {got}")
            okr = bool(got) == bool(want)
            ctx.instance("classifier-shape", fi.where, f"{name} row {vals} -> {bool(got)}", ok=okr)
            if not okr and bad is None:
                bad = (env, got, want)
        if bad:
            ctx.violation("classifier-shape", fi, fi.node,
                          f"{name} disagrees with its documented decision table, e.g. {bad[0]} -> {bad[1]} (documented {bad[2]})")
        # guarded reads
        la = LengthAnalysis(repo, fi, ctx.cfg(fi), {})
        for node, base, need in [*la.index_sites(), *la.unpack_sites()]:
            from ..lengths import protected
            if protected(node, fi):
                continue
            have, used = la.min_len(base, node)
            ctx.check(have >= need, "classifier-shape", fi, node, f"{name}: `{norm(node)}` needs {need} bytes, guarded with >= {have}",
                      f"{name} reads `{norm(node)}` (needs {need} bytes) with only len >= {have} established: short payloads raise inside the policy gate", used)


def _classifier_effect(s, env, ev) -> None:
    # `byte1, byte2 = unpack_from("!BB", data)` and try/except wrappers are structural, not decisions
    if isinstance(s, ast.Assign) and isinstance(s.targets[0], ast.Tuple):
        return
    if isinstance(s, ast.Try):
        ev._block(s.body, env)
        return
    raise AnalysisError(f"classifier: unsupported statement `{norm(s)[:60]}`")


def run(ctx: Ctx) -> None:
    rule_policy_table(ctx)
    rule_gates(ctx)
    rule_null_and_prev_hop(ctx)
    rule_classifiers(ctx)
    ctx.assume("the DataChecker byte tests are the definition of BitTorrent-/IPv8-shaped traffic (documented in their docstrings)")
    ctx.assume("asyncio DatagramTransport.sendto is the only emission primitive of an exit socket (checked: transports are used only inside TunnelExitSocket)")


WITNESSES = [
    {"name": "ipv8 allowed under BT flag", "file": ES, "rule": "policy-table",
     "old": "and not (is_ipv8 and PEER_FLAG_EXIT_IPV8 in self.overlay.settings.peer_flags)",
     "new": "and not (is_ipv8 and PEER_FLAG_EXIT_BT in self.overlay.settings.peer_flags)"},
    {"name": "own-prefix clause without ipv8 shape", "file": ES, "rule": "policy-table",
     "old": "and not (is_ipv8 and self.overlay.get_prefix() == data[:22]):",
     "new": "and not (self.overlay.get_prefix() == data[:22]):"},
    {"name": "policy returns True on drop path", "file": ES, "rule": "policy-table",
     "old": "            self.logger.warning(\"Dropping data packets, refusing to be an exit node (BT=%s, IPv8=%s)\", is_bt, is_ipv8)\n            return False",
     "new": "            self.logger.warning(\"Dropping data packets, refusing to be an exit node (BT=%s, IPv8=%s)\", is_bt, is_ipv8)\n            return is_bt"},
    {"name": "sendto gate removed", "file": ES, "rule": "gate-out",
     "old": "        if not self.is_allowed(data):\n            return\n\n        # Since this call", "new": "        # Since this call"},
    {"name": "queue drained straight to transport", "file": ES, "rule": "gate-out",
     "old": "                    self.sendto(*self.queue.popleft())",
     "new": "                    queued, dest = self.queue.popleft()\n                    self.transport_ipv4.sendto(queued, dest)"},
    {"name": "inbound gate checks other buffer", "file": ES, "rule": "gate-in",
     "old": "        if self.is_allowed(data):\n            try:\n                self.tunnel_data(source, data)",
     "new": "        if self.is_allowed(data[:64]):\n            try:\n                self.tunnel_data(source, data)"},
    {"name": "null destination check dropped", "file": TC, "rule": "null-destination",
     "old": "            if destination != (\"0.0.0.0\", 0):\n                self.exit_data(circuit_id, sock_addr, destination, data)",
     "new": "            if destination:\n                self.exit_data(circuit_id, sock_addr, destination, data)"},
    {"name": "previous hop compares port instead of ip", "file": TC, "rule": "previous-hop",
     "old": "if sock_addr[0] == self.exit_sockets[circuit_id].hop.address[0]:",
     "new": "if sock_addr[1] == self.exit_sockets[circuit_id].hop.address[1]:"},
    {"name": "enable on mismatch too", "file": TC, "rule": "previous-hop",
     "old": "                self.logger.error(\"Dropping outbound relayed packet: IP's are %s != %s\",\n                                  str(sock_addr), str(self.exit_sockets[circuit_id].hop.address))\n                return",
     "new": "                self.logger.error(\"Dropping outbound relayed packet: IP's are %s != %s\",\n                                  str(sock_addr), str(self.exit_sockets[circuit_id].hop.address))"},
    {"name": "exit socket enabled at join", "file": TC, "rule": "previous-hop.who",
     "old": "        self.exit_sockets[circuit_id] = TunnelExitSocket(circuit_id, Hop(peer, session_keys), self)\n",
     "new": "        self.exit_sockets[circuit_id] = TunnelExitSocket(circuit_id, Hop(peer, session_keys), self)\n        self.exit_sockets[circuit_id].enable()\n"},
    {"name": "ipv8 classifier accepts any version", "file": ES, "rule": "classifier-shape",
     "old": "return len(data) >= 23 and data[0:1] == b\"\\x00\" and data[1:2] in [b\"\\x01\", b\"\\x02\"]",
     "new": "return len(data) >= 23 and data[0:1] == b\"\\x00\""},
    {"name": "utp type bound widened", "file": ES, "rule": "classifier-shape",
     "old": "if not (0 <= (byte1 >> 4) <= 4 and (byte1 & 15) == 1):", "new": "if not (0 <= (byte1 >> 4) <= 15 and (byte1 & 15) == 1):"},
    {"name": "tracker length guard weakened", "file": ES, "rule": "classifier-shape",
     "old": "or (len(data) >= 12 and 0 <= unpack_from(\"!I\", data, 8)[0] <= 3))",
     "new": "or (len(data) >= 8 and 0 <= unpack_from(\"!I\", data, 8)[0] <= 3))"},
    {"name": "could_be_bt drops dht", "file": ES, "rule": "classifier-shape",
     "old": "                or DataChecker.could_be_udp_tracker(data)\n                or DataChecker.could_be_dht(data))",
     "new": "                or DataChecker.could_be_udp_tracker(data)\n                or DataChecker.could_be_ipv8(data))"},
]
