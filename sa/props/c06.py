"""C06 - An exit node never emits traffic its exit policy forbids."""
from __future__ import annotations

import ast
import copy
import itertools

from ..cfg import call_may_raise
from ..core import Ctx
from ..lengths import protected
from ..match import Fact, _atoms_with_polarity, arg, call_name, calls, fact_of, local_defs, single_def, stores, unreachable_assuming
from ..model import (NOCONST, AnalysisError, FuncInfo, chain, clone, const_value, enclosing_function, norm, parent, strip_cast,
                     walk_no_nested)

LEVEL = "other"
EXPLANATION = (
    "Exhaustive over the policy abstraction and over all feasible paths (path-sensitive walk of the CFG with a symbolic "
    "state; calls of functions the reviewed tree does not have are followed with their parameters bound; result objects - NamedTuple / "
    "dataclass constructions, Enum members, tuples matched by `match` - module- and class-level tables, precompiled struct.Struct objects "
    "and operator / functools / itertools spellings are read as the values and operations they denote): is_allowed is "
    "walked for all 32 assignments of its five atoms (bt, ipv8, BT-flag, IPV8-flag, own-prefix) and must return "
    "(bt&BT)|(v8&V8)|(v8&own), reading the flags from the node's live settings (not from a copy stored on the socket) - a decision on a value the walk could not read "
    "(an opaque loop variable, the result of an unknown call) leaves the table undecided, only a dependency on code that was read is reported; every path of TunnelExitSocket.sendto to transport.sendto and of datagram_received to "
    "tunnel_data has established a truthy is_allowed(<the very data emitted>); closed sets of callers for transport.sendto / "
    "exit_socket.sendto / enable / tunnel_data / exit_data / join_circuit; every path to exit_data has established "
    "destination != ('0.0.0.0', 0) and every path to transport.sendto the same for the address actually emitted (after "
    "domain-name resolution re-entered sendto); every path to enable() has established the previous-hop IP comparison (or "
    "an already enabled socket), made on the address on_data received the cell from (exit_data's sender argument is on_data's own source-address parameter), every path to exit_socket.sendto an enabled socket; the exit socket's hop is a Peer built "
    "in join_circuit from the CREATE cell's source address; the DataChecker classifiers are decision tables over their base "
    "quantities (length, bytes, big-endian fields at constant offsets) evaluated on every region their comparisons can "
    "distinguish (bytes that enter arithmetic: all 256 values), with every fixed-width read guarded by the length it needs."
)

_RULE_ATTRS = ("enabled",)
_CLASSIFIER_NAMES = ("could_be_bt", "could_be_ipv8", "could_be_utp", "could_be_udp_tracker", "could_be_dht")
ES = "ipv8/messaging/anonymization/exit_socket.py"
TC = "ipv8/messaging/anonymization/community.py"
FLAGS = "self.overlay.settings.peer_flags"


# ------------------------------------------------------------------------------------------ alias expansion
# Rules compare expressions after replacing single-assignment locals by the expression they were assigned (deeply), so
# `sock = self.exit_sockets[cid]; sock.enable()` is read as `self.exit_sockets[cid].enable()`.  Only values whose
# re-evaluation has no effect are substituted: constants, names, attribute / subscript paths, arithmetic, comparisons and
# calls of the pure getters / classifiers below.  A single-assignment local read before its assignment raises
# UnboundLocalError, so no dominance test is needed: wherever the use evaluates, the definition has been evaluated.
_PURE_CALLS = {"len", "bool", "bytes", "unpack_from", "struct.unpack_from", "self.overlay.get_prefix", "self.is_allowed"}
_IMPURE_NODES = (ast.Await, ast.Yield, ast.YieldFrom, ast.NamedExpr, ast.Lambda, ast.ListComp, ast.SetComp, ast.DictComp,
                 ast.GeneratorExp, ast.Starred)


def _alias_value_ok(v: ast.AST) -> bool:
    for n in ast.walk(v):
        if isinstance(n, _IMPURE_NODES):
            return False
        if isinstance(n, ast.Call):
            c = chain(n.func) or ""
            if not (c in _PURE_CALLS or c.startswith("DataChecker.could_be_") or c.endswith(".get")):
                return False
    return True


def _expand(fi: FuncInfo, e: ast.AST, depth: int = 6) -> ast.AST:
    """Fresh copy of e in which every single-assignment local alias is replaced by its defining expression."""
    def sub(n: ast.AST, depth: int) -> ast.AST:
        n = strip_cast(n)
        if isinstance(n, ast.Name):
            if isinstance(n.ctx, ast.Load) and depth > 0:
                d = single_def(fi, n.id)
                if d is not None and d[0] is not None and _alias_value_ok(d[0]):
                    v = sub(d[0], depth - 1)
                    if d[1] is None:
                        return v
                    return ast.Subscript(value=v, slice=ast.Constant(value=d[1]), ctx=ast.Load())
            return ast.Name(id=n.id, ctx=ast.Load())
        new = copy.copy(n)
        for field, val in ast.iter_fields(n):
            if isinstance(val, ast.AST):
                setattr(new, field, sub(val, depth))
            elif isinstance(val, list):
                setattr(new, field, [sub(x, depth) if isinstance(x, ast.AST) else x for x in val])
        return new
    return sub(e, depth)


class _Canon(ast.NodeTransformer):
    """Equivalent spellings -> one spelling (only applied to the private copies made by _expand)."""

    def __init__(self, dict_get: bool = False, rename: dict[str, str] | None = None) -> None:
        self.dict_get = dict_get
        self.rename = rename or {}

    def visit_Name(self, n: ast.Name) -> ast.AST:
        if n.id in self.rename:
            n.id = self.rename[n.id]
        return n

    def visit_Slice(self, n: ast.Slice) -> ast.AST:
        self.generic_visit(n)
        if isinstance(n.lower, ast.Constant) and n.lower.value == 0 and not isinstance(n.lower.value, bool):
            n.lower = None              # x[0:k] == x[:k]
        return n

    def visit_Call(self, n: ast.Call) -> ast.AST:
        self.generic_visit(n)
        return self._call_post(n)

    def _call_post(self, n: ast.Call) -> ast.AST:
        c = chain(n.func)
        if c == "struct.unpack_from":
            n.func = ast.Name(id="unpack_from", ctx=ast.Load())
            c = "unpack_from"
        if c == "unpack_from":
            off = [k for k in n.keywords if k.arg == "offset"]
            if off and len(n.args) == 2:
                n.args = [*n.args, off[0].value]
                n.keywords = [k for k in n.keywords if k.arg != "offset"]
            if len(n.args) == 3 and isinstance(n.args[2], ast.Constant) and n.args[2].value == 0:
                n.args = n.args[:2]     # offset 0 is the default
        if self.dict_get and isinstance(n.func, ast.Attribute) and n.func.attr == "get" and not n.keywords and (
                len(n.args) == 1 or (len(n.args) == 2 and isinstance(n.args[1], ast.Constant) and n.args[1].value is None)):
            # d.get(k) denotes d[k] wherever the result is known to be truthy / not None (the rules ask for that fact)
            return ast.Subscript(value=n.func.value, slice=n.args[0], ctx=ast.Load())
        return n


def _canon(e: ast.AST, *, dict_get: bool = False, rename: dict[str, str] | None = None) -> ast.AST:
    return _Canon(dict_get, rename).visit(e)


def _xnorm(fi: FuncInfo, e: ast.AST, *, dict_get: bool = False) -> str:
    return norm(_canon(_expand(fi, e), dict_get=dict_get))


def _param_root(fi: FuncInfo, e: ast.AST | None) -> str | None:
    """The never-rebound parameter that e denotes (directly or through pure single-assignment aliases), else None."""
    if e is None:
        return None
    x = _expand(fi, e)
    if isinstance(x, ast.Name) and x.id in fi.params() and not local_defs(fi, x.id):
        return x.id
    return None


# ------------------------------------------------------------------------------------------ path-sensitive walk
# The gate / guard rules ask "does P hold on EVERY feasible path to this call?".  How the guard is spelt (nested ifs, flat
# guard clauses, one compound test, a flag local, a ternary, a decision helper that returns a bool, a for-loop over a tuple
# of checks) does not matter for that question, so it is decided by walking the paths of the function's CFG with a symbolic
# state:   env    local name -> the expression (over parameters / attribute paths / constants) it currently holds,
#          facts  outcome of every condition atom met so far, keyed by its canonical text (after substituting env).
# A path whose conditions contradict each other is dropped (a flag tested twice, `if a and b: return` followed by `if a:`).
# Calls to functions the reviewed tree does not have (sa/tables/local_names.json) and that the loader could not inline are
# FOLLOWED: the helper's paths are walked with its parameters bound to the caller's arguments, its return value is what
# the caller's condition / assignment sees.  Expressions are treated as stable between two evaluations unless something on
# the path in between stores into a prefix of them, calls enable() (sets `.enabled`), or awaits.
_SIM_PURE = _PURE_CALLS | {"isinstance", "str", "tuple", "int", "repr", "min", "max", "sum", "abs", "memoryview", "bytearray", "type", "id", "hash", "all", "any", "set",
                          "frozenset", "list", "dict", "sorted", "getattr", "hasattr", "be", "range", "divmod", "ord", "int.from_bytes",
                          "unpack", "struct.unpack", "Peer", "Hop"}
_LIBS = ("operator", "functools", "itertools")
_TABLE_ATTRS = ("self.exit_sockets", "self.circuits", "self.relay_from_to")
_FOLLOW_DEPTH = 6
_NEST = (ast.Lambda, ast.ListComp, ast.SetComp, ast.DictComp, ast.GeneratorExp, ast.FunctionDef, ast.AsyncFunctionDef, ast.ClassDef)


def _lit(v) -> ast.AST | None:
    if isinstance(v, tuple):
        elts = [_lit(x) for x in v]
        return None if any(e is None for e in elts) else ast.Tuple(elts=elts, ctx=ast.Load())
    if v is None or isinstance(v, (bool, int, str, bytes, float)):
        return ast.Constant(value=v)
    return None


def _fkey(f: Fact) -> tuple:
    l = norm(f.left)
    r = norm(f.right) if f.right is not None else None
    if f.op in ("eq", "is") and r is not None and r < l:
        l, r = r, l
    return (f.op, l, r)


def _uncond(e: ast.AST):
    """sub-expressions of e that are evaluated whenever e is evaluated without raising (no short-circuited operands, no
    ternary branches, no nested scopes)"""
    stack = [e]
    while stack:
        n = stack.pop()
        if isinstance(n, _NEST):
            continue
        yield n
        if isinstance(n, ast.BoolOp):
            stack.append(n.values[0])
        elif isinstance(n, ast.IfExp):
            stack.append(n.test)
        else:
            stack.extend(ast.iter_child_nodes(n))


def _all_exprs(e: ast.AST):
    stack = [e]
    while stack:
        n = stack.pop()
        if isinstance(n, _NEST):
            continue
        yield n
        stack.extend(ast.iter_child_nodes(n))


def _all_exprs_with_comprehensions(e: ast.AST):
    """like _all_exprs, but also yields (without entering) the comprehensions met"""
    stack = [e]
    while stack:
        n = stack.pop()
        if isinstance(n, (ast.GeneratorExp, ast.ListComp)):
            yield n
            continue
        if isinstance(n, _NEST):
            continue
        yield n
        stack.extend(ast.iter_child_nodes(n))


def _own_exprs(u) -> list[ast.AST]:
    """the expressions a CFG node evaluates itself (not those of the statements nested in it)"""
    a = u.ast
    if a is None or u.kind not in ("stmt", "cond"):
        return []
    if isinstance(a, ast.expr):
        return [a]
    if isinstance(a, (ast.With, ast.AsyncWith)):
        return [i.context_expr for i in a.items]
    if isinstance(a, (ast.Return, ast.Expr)):
        return [a.value] if a.value is not None else []
    if isinstance(a, ast.Assign):
        return [a.value, *[t for t in a.targets if not isinstance(t, ast.Name)]]
    if isinstance(a, ast.AnnAssign):
        return ([a.value] if a.value is not None else []) + ([a.target] if not isinstance(a.target, ast.Name) else [])
    if isinstance(a, ast.AugAssign):
        return [a.value, a.target]
    if isinstance(a, ast.Raise):
        return [x for x in (a.exc, a.cause) if x is not None]
    if isinstance(a, ast.Delete):
        return list(a.targets)
    if isinstance(a, ast.Assert):
        return [a.msg] if a.msg is not None else []
    return []


class _St:
    __slots__ = ("env", "facts", "fobj", "iters", "ret", "stored", "assumed", "trail", "epoch", "fepoch", "gens")

    def __init__(self) -> None:
        self.env: dict[str, ast.AST] = {}
        self.facts: dict[tuple, bool] = {}
        self.fobj: dict[tuple, Fact] = {}
        self.iters: dict[tuple, int] = {}
        self.ret: ast.AST | None = None
        self.stored: tuple[str, ...] = ()        # canonical texts of the attribute / item targets written on this path
        self.assumed: tuple[str, ...] = ()       # conditions this path had to guess (neither seeded nor implied)
        self.trail: tuple = ()                   # the same as (canonical condition, outcome) pairs
        self.epoch = 0                           # number of calls with unknown effects passed so far
        self.fepoch: dict[tuple, int] = {}       # fact key -> epoch in which it was established
        self.gens: dict[tuple, tuple] = {}       # for-loop over a walked generator helper -> where that generator is suspended

    def copy(self) -> "_St":
        s = _St()
        s.env, s.facts, s.fobj, s.iters, s.ret = dict(self.env), dict(self.facts), dict(self.fobj), dict(self.iters), self.ret
        s.stored, s.assumed, s.trail = self.stored, self.assumed, self.trail
        s.epoch, s.fepoch, s.gens = self.epoch, dict(self.fepoch), dict(self.gens)
        return s

    def known(self, op: str, left: str, right: str | None = None) -> bool | None:
        """established outcome of the atom `left op right` (canonical texts), None when the path says nothing about it"""
        if op in ("eq", "is") and right is not None and right < left:
            left, right = right, left
        return self.facts.get((op, left, right))

    def holds(self, pred) -> bool:
        """pred(Fact) for some established fact (Fact.pos is the established outcome)"""
        for k, f in self.fobj.items():
            try:
                if pred(f):
                    return True
            except Exception:  # noqa: BLE001
                continue
        return False

    def describe(self) -> list[str]:
        return sorted(str(f) for f in self.fobj.values())


class _Frame:
    _n = 0

    def __init__(self, fi: FuncInfo, cfg, parent: "_Frame | None" = None, call: ast.Call | None = None) -> None:
        _Frame._n += 1
        self.key = _Frame._n
        self.fi, self.cfg, self.parent, self.call = fi, cfg, parent, call
        self.depth = 0 if parent is None else parent.depth + 1
        self.is_gen = False

    def chain(self):
        f = self
        while f is not None:
            yield f
            f = f.parent

    @property
    def root(self) -> "_Frame":
        f = self
        while f.parent is not None:
            f = f.parent
        return f


_CMP_CONST = {ast.Eq: lambda a, b: a == b, ast.NotEq: lambda a, b: a != b, ast.In: lambda a, b: a in b, ast.NotIn: lambda a, b: a not in b,
              ast.Is: lambda a, b: a is b or (a == b and isinstance(a, str)), ast.IsNot: lambda a, b: not (a is b or (a == b and isinstance(a, str)))}


def _never_none(x: ast.AST) -> bool:
    """the expression cannot evaluate to None"""
    if isinstance(x, ast.Constant):
        return x.value is not None
    if isinstance(x, (ast.Tuple, ast.List, ast.Dict, ast.Set, ast.Compare, ast.BinOp, ast.JoinedStr)):
        return True
    if isinstance(x, ast.UnaryOp):
        return True
    if isinstance(x, ast.Call):
        return (chain(x.func) or "") in ("len", "be", "int", "bool", "str", "bytes", "isinstance", "tuple", "list", "set", "dict", "Peer", "Hop")
    if isinstance(x, ast.IfExp):
        return _never_none(x.body) and _never_none(x.orelse)
    return False


def _subst_names(e: ast.AST, mapping: dict[str, ast.AST]) -> ast.AST:
    class T(ast.NodeTransformer):
        def visit_Name(self, n: ast.Name) -> ast.AST:
            return clone(mapping[n.id]) if n.id in mapping else n
    return T().visit(clone(e))


def _literal_items(e: ast.AST) -> list[ast.AST] | None:
    """the items of a literal sequence, or of a generator / list comprehension that maps one over a literal sequence"""
    if isinstance(e, (ast.Tuple, ast.List, ast.Set)) and not any(isinstance(x, ast.Starred) for x in e.elts):
        return list(e.elts)
    if isinstance(e, ast.Call) and not e.keywords and e.args and not any(isinstance(a, ast.Starred) for a in e.args):
        c, a = chain(e.func) or "", e.args
        if c in ("tuple", "list", "iter", "reversed", "frozenset") and len(a) == 1:
            items = _literal_items(a[0])
            return None if items is None or (c == "frozenset" and not isinstance(a[0], (ast.Tuple, ast.List))) else items[::-1] if c == "reversed" else items
        if c == "itertools.chain":
            parts = [_literal_items(x) for x in a]
            return None if any(p is None for p in parts) else [x for p in parts for x in p]
        if c == "itertools.chain.from_iterable" and len(a) == 1:
            outer = _literal_items(a[0])
            parts = [_literal_items(x) for x in outer] if outer is not None else [None]
            return None if any(p is None for p in parts) else [x for p in parts for x in p]
        if c == "itertools.islice" and 2 <= len(a) <= 4 and all(x is None or (isinstance(x, int) and not isinstance(x, bool) and x >= 0)
                                                                 for x in (const_value(y) for y in a[1:])):
            items = _literal_items(a[0])
            return None if items is None else items[slice(*[const_value(y) for y in a[1:]])]
        if c == "zip":
            parts = [_literal_items(x) for x in a]
            return None if any(p is None for p in parts) else [ast.Tuple(elts=list(t), ctx=ast.Load()) for t in zip(*parts)]
        if c == "enumerate" and len(a) <= 2 and (len(a) == 1 or _is_int_const(a[1])):
            items = _literal_items(a[0])
            k0 = a[1].value if len(a) == 2 else 0
            return None if items is None else [ast.Tuple(elts=[ast.Constant(value=k0 + i), x], ctx=ast.Load()) for i, x in enumerate(items)]
        if c in ("map", "itertools.starmap") and len(a) >= 2:
            parts = [_literal_items(x) for x in a[1:]]
            if any(p is None for p in parts) or (c != "map" and len(a) != 2):
                return None
            rows = [list(t) for t in zip(*parts)] if c == "map" else [list(t.elts) if isinstance(t, (ast.Tuple, ast.List)) else None for t in parts[0]]
            if any(r is None or any(isinstance(x, ast.Starred) for x in r) for r in rows):
                return None
            f = a[0]
            out = []
            for r in rows:
                if isinstance(f, ast.Lambda):
                    ps = f.args
                    if ps.vararg or ps.kwarg or ps.kwonlyargs or ps.defaults or len(ps.posonlyargs + ps.args) != len(r):
                        return None
                    out.append(_subst_names(f.body, {q.arg: x for q, x in zip(ps.posonlyargs + ps.args, r)}))
                else:
                    out.append(ast.Call(func=clone(f), args=[clone(x) for x in r], keywords=[]))
            return out
        if c == "filter" and len(a) == 2 and isinstance(a[0], ast.Constant) and a[0].value is None:
            return None                     # (which items remain depends on their truth values)
    if isinstance(e, (ast.GeneratorExp, ast.ListComp)) and len(e.generators) == 1:
        g = e.generators[0]
        src_items = _literal_items(g.iter)
        if src_items is None or g.ifs or g.is_async:
            return None
        out = []
        for it in src_items:
            if isinstance(g.target, ast.Name):
                m = {g.target.id: it}
            elif isinstance(g.target, ast.Tuple) and isinstance(it, ast.Tuple) and len(it.elts) == len(g.target.elts) \
                    and all(isinstance(t, ast.Name) for t in g.target.elts):
                m = {t.id: v for t, v in zip(g.target.elts, it.elts)}
            else:
                return None
            out.append(_subst_names(e.elt, m))
        return out
    return None


_SEQ_FUNCS = ("itertools.chain", "itertools.chain.from_iterable", "itertools.islice", "itertools.starmap", "zip", "enumerate", "map", "reversed")


def _target_bindings(t: ast.AST, val: ast.AST) -> dict[str, ast.AST] | None:
    """name -> item for binding the loop target t to the (canonical) item val; None when the shapes do not fit"""
    if isinstance(t, ast.Name):
        return {t.id: val}
    if isinstance(t, (ast.Tuple, ast.List)) and isinstance(val, (ast.Tuple, ast.List)) and len(t.elts) == len(val.elts) \
            and not any(isinstance(x, ast.Starred) for x in [*t.elts, *val.elts]):
        out: dict[str, ast.AST] = {}
        for a, b in zip(t.elts, val.elts):
            sub = _target_bindings(a, b)
            if sub is None:
                return None
            out.update(sub)
        return out
    return None


def _be_field(buf: ast.AST, off: int, width: int) -> ast.AST:
    """canonical spelling of the unsigned big-endian field of `width` bytes at offset `off` of buf"""
    if width == 1:
        return ast.Subscript(value=buf, slice=ast.Constant(value=off), ctx=ast.Load())
    return ast.Call(func=ast.Name(id="be", ctx=ast.Load()), args=[buf, ast.Constant(value=off), ast.Constant(value=width)], keywords=[])


def _unpacked_field(call: ast.Call, idx: int) -> ast.AST | None:
    """unpack_from(fmt, buf[, off])[idx] / struct.unpack(fmt, buf[a:b])[idx] for a big-endian unsigned format -> _be_field"""
    c = chain(call.func) or ""
    if c not in ("unpack_from", "struct.unpack_from", "unpack", "struct.unpack") or call.keywords or len(call.args) < 2:
        return None
    fmt = const_value(call.args[0])
    if not isinstance(fmt, str) or fmt[:1] not in ("!", ">"):
        return None
    buf, off = call.args[1], 0
    if c.endswith("unpack_from"):
        if len(call.args) == 3:
            if not _is_int_const(call.args[2]) or call.args[2].value < 0:
                return None
            off = call.args[2].value
        elif len(call.args) != 2:
            return None
    else:
        if len(call.args) != 2 or not (isinstance(buf, ast.Subscript) and isinstance(buf.slice, ast.Slice) and buf.slice.step is None):
            return None
        lo = 0 if buf.slice.lower is None else buf.slice.lower.value if _is_int_const(buf.slice.lower) else None
        if lo is None or lo < 0:
            return None
        buf, off = buf.value, lo
    widths: list[int | None] = []
    rep = ""
    for ch in fmt[1:]:
        if ch.isdigit():
            rep += ch
            continue
        w = {"B": 1, "H": 2, "I": 4, "L": 4, "Q": 8, "x": None}.get(ch, 0)
        if w == 0:
            return None                 # signed / float / string fields: not an unsigned integer field
        for _ in range(int(rep) if rep else 1):
            widths.append(w if ch != "x" else -1)
        rep = ""
    pos = off
    k = 0
    for w in widths:
        if w == -1:
            pos += 1
            continue
        if k == idx:
            return _be_field(buf, pos, w)
        pos += w
        k += 1
    return None


def _slice_bytes(o: ast.AST) -> list[int] | None:
    """the byte indices a constant-bounded slice `d[a:b]` / `d[:b]` / `d[-k:]` covers"""
    if not (isinstance(o, ast.Subscript) and isinstance(o.slice, ast.Slice) and o.slice.step is None):
        return None
    lo, hi = o.slice.lower, o.slice.upper
    lo_v = 0 if lo is None else const_value(lo)
    hi_v = None if hi is None else const_value(hi)
    if not isinstance(lo_v, int) or isinstance(lo_v, bool) or (hi is not None and (not isinstance(hi_v, int) or isinstance(hi_v, bool))):
        return None
    if lo_v >= 0 and hi_v is not None and hi_v > lo_v and hi_v - lo_v <= 8:
        return list(range(lo_v, hi_v))
    if -8 <= lo_v < 0 and hi_v is None:
        return list(range(lo_v, 0))
    return None


def _single_bytes(n: ast.Compare) -> ast.AST:
    """`d[a:b] == b"xy"` says `d[a] == ord("x") and d[a+1] == ord("y")` about the bytes (wherever d is long enough for the slice
    to be whole, which is all the decision table looks at: it treats the length as an independent quantity); likewise `in`
    over constants of that width, `!=` / `not in` negated, and (x, y) == (1, 2) element by element."""
    if len(n.ops) != 1 or not isinstance(n.ops[0], (ast.Eq, ast.NotEq, ast.In, ast.NotIn)):
        return n
    op, left, right = n.ops[0], n.left, n.comparators[0]
    neg = isinstance(op, (ast.NotEq, ast.NotIn))

    def wrap(e: ast.AST) -> ast.AST:
        return ast.UnaryOp(op=ast.Not(), operand=e) if neg else e
    if isinstance(op, (ast.Eq, ast.NotEq)) and isinstance(left, ast.Tuple) and isinstance(right, ast.Tuple) and len(left.elts) == len(right.elts) > 0 \
            and not any(isinstance(e, ast.Starred) for e in [*left.elts, *right.elts]):
        parts = [_single_bytes(ast.Compare(left=a, ops=[ast.Eq()], comparators=[b])) for a, b in zip(left.elts, right.elts)]
        return wrap(parts[0] if len(parts) == 1 else ast.BoolOp(op=ast.And(), values=parts))
    if isinstance(op, (ast.Eq, ast.NotEq)) and _slice_bytes(right) is not None and _slice_bytes(left) is None:
        left, right = right, left
    idx = _slice_bytes(left)
    if idx is None:
        return n

    def equals(c: ast.AST) -> ast.AST | None:
        if not (isinstance(c, ast.Constant) and isinstance(c.value, bytes) and len(c.value) == len(idx)):
            return None
        parts = [ast.Compare(left=ast.Subscript(value=clone(left.value), slice=ast.Constant(value=i), ctx=ast.Load()), ops=[ast.Eq()],
                             comparators=[ast.Constant(value=b)]) for i, b in zip(idx, c.value)]
        return parts[0] if len(parts) == 1 else ast.BoolOp(op=ast.And(), values=parts)
    if isinstance(op, (ast.Eq, ast.NotEq)):
        e = equals(right)
        if e is None:
            return n
        if neg and isinstance(e, ast.Compare):
            return ast.Compare(left=e.left, ops=[ast.NotEq()], comparators=e.comparators)
        return wrap(e)
    if not isinstance(right, (ast.Tuple, ast.List, ast.Set)) or not right.elts:
        return n
    alts = [equals(c) for c in right.elts]
    if any(a is None for a in alts):
        return n
    if len(idx) == 1:
        return ast.Compare(left=alts[0].left, ops=[op], comparators=[ast.Tuple(elts=[a.comparators[0] for a in alts], ctx=ast.Load())])
    return wrap(alts[0] if len(alts) == 1 else ast.BoolOp(op=ast.Or(), values=alts))


def _struct_format(e: ast.AST) -> str | None:
    """the format of a `Struct(fmt)` / `struct.Struct(fmt)` construction with a constant format"""
    if isinstance(e, ast.Call) and chain(e.func) in ("Struct", "struct.Struct") and len(e.args) == 1 and not e.keywords:
        v = const_value(e.args[0])
        return v if isinstance(v, (str, bytes)) and not isinstance(v, bytes) else (v.decode("ascii", "replace") if isinstance(v, bytes) else None)
    return None


class _Canon2(_Canon):
    """_Canon plus the rewrites that only make sense for the path walk's `maybe-None` reading of table lookups."""

    def __init__(self, hop_address: bool, sym: "_Sym | None" = None) -> None:
        super().__init__(dict_get=True)
        self.hop_address = hop_address
        self.sym = sym

    def visit_Call(self, n: ast.Call) -> ast.AST:
        self.generic_visit(n)
        f = n.func
        if isinstance(f, ast.Attribute) and f.attr in ("unpack_from", "unpack", "pack", "iter_unpack") and _struct_format(f.value) is not None:
            # a precompiled struct.Struct(fmt) object: S.unpack_from(buf, off) is unpack_from(fmt, buf, off)
            n = ast.Call(func=ast.Name(id=f.attr, ctx=ast.Load()), args=[ast.Constant(value=_struct_format(f.value)), *n.args], keywords=n.keywords)
        r = self._call_post(n)
        if not isinstance(r, ast.Call):
            return r
        lib = self._library_call(r)
        if lib is not None:
            return lib
        c = chain(r.func) or ""
        if c in ("calcsize", "struct.calcsize") and len(r.args) == 1 and not r.keywords and isinstance(const_value(r.args[0]), (str, bytes)):
            try:
                import struct
                return ast.Constant(value=struct.calcsize(const_value(r.args[0])))      # a derived constant is the number it evaluates to
            except Exception:  # noqa: BLE001
                return r
        if c == "len" and len(r.args) == 1 and not r.keywords:
            v = const_value(r.args[0])
            if isinstance(v, (str, bytes, tuple)):
                return ast.Constant(value=len(v))
            if isinstance(r.args[0], (ast.Tuple, ast.List)) and not any(isinstance(x, ast.Starred) for x in r.args[0].elts):
                return ast.Constant(value=len(r.args[0].elts))
        if c in ("bytes", "bytearray", "memoryview") and len(r.args) == 1 and not r.keywords and (
                (isinstance(r.args[0], ast.Subscript) and isinstance(r.args[0].slice, ast.Slice)) or
                (isinstance(r.args[0], ast.Name) and r.args[0].id == "data" and c == "memoryview") or
                (isinstance(r.args[0], ast.Call) and chain(r.args[0].func) in ("bytes", "bytearray", "memoryview"))):
            return r.args[0]                # a copy / view of a slice of a buffer compares and indexes like the slice
        if c == "isinstance" and len(r.args) == 2 and not r.keywords and isinstance(r.args[0], ast.Call) and self.sym is not None \
                and chain(r.args[0].func) is not None and chain(r.args[0].func) == chain(r.args[1]) and self.sym._record(r.args[0].func) is not None:
            return ast.Constant(value=True)          # a record object is an instance of the class whose constructor made it
        if isinstance(r.func, ast.Attribute) and r.func.attr == "issubset" and len(r.args) == 1 \
                and not r.keywords and isinstance(r.func.value, ast.Set) and len(r.func.value.elts) == 1:
            return self.visit_Compare(ast.Compare(left=r.func.value.elts[0], ops=[ast.In()], comparators=[r.args[0]]))
        if c == "int.from_bytes" and r.args and isinstance(r.args[0], ast.Subscript) and isinstance(r.args[0].slice, ast.Slice):
            order = r.args[1] if len(r.args) > 1 else next((k.value for k in r.keywords if k.arg == "byteorder"), ast.Constant(value="big"))
            signed = next((k.value for k in r.keywords if k.arg == "signed"), ast.Constant(value=False))
            s = r.args[0].slice
            lo = 0 if s.lower is None else s.lower.value if _is_int_const(s.lower) else None
            hi = s.upper.value if s.upper is not None and _is_int_const(s.upper) else None
            if const_value(order) == "big" and const_value(signed) is False and s.step is None and lo is not None and lo >= 0 \
                    and hi is not None and hi > lo:
                return _be_field(r.args[0].value, lo, hi - lo)                # a fixed-width big-endian field
        if isinstance(r.func, ast.Attribute) and r.func.attr in ("startswith", "endswith") and 1 <= len(r.args) <= 2 and not r.keywords:
            # b.startswith(p) is b[:len(p)] == p, b.startswith(p, s) is b[s:s + len(p)] == p (s >= 0), b.startswith((p, q)) is one of them
            start = 0 if len(r.args) == 1 else r.args[1].value if _is_int_const(r.args[1]) and r.args[1].value >= 0 \
                and r.func.attr == "startswith" else None
            alts = [r.args[0]] if isinstance(r.args[0], ast.Constant) else list(r.args[0].elts) if isinstance(r.args[0], ast.Tuple) else None
            if start is not None and alts is not None and all(isinstance(a, ast.Constant) and isinstance(a.value, bytes) and a.value for a in alts):
                if not alts:
                    return ast.Constant(value=False)
                parts = []
                for a in alts:
                    k = len(a.value)
                    if r.func.attr == "startswith":
                        sl = ast.Slice(lower=ast.Constant(value=start) if start else None, upper=ast.Constant(value=start + k), step=None)
                    else:
                        sl = ast.Slice(lower=ast.Constant(value=-k), upper=None, step=None)
                    parts.append(self.visit_Compare(ast.Compare(left=ast.Subscript(value=clone(r.func.value), slice=sl, ctx=ast.Load()),
                                                                ops=[ast.Eq()], comparators=[a])))
                return parts[0] if len(parts) == 1 else ast.BoolOp(op=ast.Or(), values=parts)
        if c == "divmod" and len(r.args) == 2 and not r.keywords:
            return ast.Tuple(elts=[self.visit_BinOp(ast.BinOp(left=r.args[0], op=ast.FloorDiv(), right=r.args[1])),
                                   self.visit_BinOp(ast.BinOp(left=clone(r.args[0]), op=ast.Mod(), right=clone(r.args[1])))], ctx=ast.Load())
        return r

    _OP_CMP = {"eq": ast.Eq, "ne": ast.NotEq, "lt": ast.Lt, "le": ast.LtE, "gt": ast.Gt, "ge": ast.GtE, "is_": ast.Is, "is_not": ast.IsNot}
    _OP_BIN = {"and_": ast.BitAnd, "or_": ast.BitOr, "xor": ast.BitXor, "lshift": ast.LShift, "rshift": ast.RShift, "add": ast.Add, "sub": ast.Sub,
               "mul": ast.Mult, "floordiv": ast.FloorDiv, "mod": ast.Mod}

    def _library_call(self, r: ast.Call) -> ast.AST | None:
        """operator.* / functools.partial / dunder spellings of an operation -> the operation itself (arguments are already canonical)"""
        plain = not r.keywords and not any(isinstance(a, ast.Starred) for a in r.args)
        f = r.func
        if isinstance(f, ast.Call) and not any(isinstance(a, ast.Starred) for a in [*f.args, *r.args]):
            fc = chain(f.func) or ""
            if fc == "operator.itemgetter" and f.args and not f.keywords and plain and len(r.args) == 1:
                items = [self.visit_Subscript(ast.Subscript(value=clone(r.args[0]), slice=a, ctx=ast.Load())) for a in f.args]
                return items[0] if len(items) == 1 else ast.Tuple(elts=items, ctx=ast.Load())
            if fc == "operator.attrgetter" and len(f.args) == 1 and not f.keywords and plain and len(r.args) == 1 \
                    and isinstance(const_value(f.args[0]), str) and all(p.isidentifier() for p in const_value(f.args[0]).split(".")):
                out = r.args[0]
                for part in const_value(f.args[0]).split("."):
                    out = self.visit_Attribute(ast.Attribute(value=out, attr=part, ctx=ast.Load()))
                return out
            if fc == "operator.methodcaller" and f.args and isinstance(const_value(f.args[0]), str) and const_value(f.args[0]).isidentifier() \
                    and plain and len(r.args) == 1:
                return self.visit_Call(ast.Call(func=ast.Attribute(value=r.args[0], attr=const_value(f.args[0]), ctx=ast.Load()),
                                                args=list(f.args[1:]), keywords=list(f.keywords)))
            if fc == "functools.partial" and f.args and not any(k.arg is None for k in [*f.keywords, *r.keywords]):
                kw = {k.arg: k.value for k in f.keywords}
                kw.update({k.arg: k.value for k in r.keywords})
                return self.visit_Call(ast.Call(func=f.args[0], args=[*f.args[1:], *r.args], keywords=[ast.keyword(arg=k, value=v) for k, v in kw.items()]))
        c = chain(f) or ""
        if c.startswith("operator.") and plain:
            name, a = c[len("operator."):], r.args
            if name in self._OP_CMP and len(a) == 2:
                return self.visit_Compare(ast.Compare(left=a[0], ops=[self._OP_CMP[name]()], comparators=[a[1]]))
            if name == "contains" and len(a) == 2:
                return self.visit_Compare(ast.Compare(left=a[1], ops=[ast.In()], comparators=[a[0]]))
            if name in self._OP_BIN and len(a) == 2:
                return self.visit_BinOp(ast.BinOp(left=a[0], op=self._OP_BIN[name](), right=a[1]))
            if name == "not_" and len(a) == 1:
                return ast.UnaryOp(op=ast.Not(), operand=a[0])
            if name == "truth" and len(a) == 1:
                return ast.Call(func=ast.Name(id="bool", ctx=ast.Load()), args=[a[0]], keywords=[])
            if name in ("neg", "inv", "invert") and len(a) == 1:
                return ast.UnaryOp(op=ast.USub() if name == "neg" else ast.Invert(), operand=a[0])
            if name == "getitem" and len(a) == 2:
                return self.visit_Subscript(ast.Subscript(value=a[0], slice=a[1], ctx=ast.Load()))
        if isinstance(f, ast.Attribute) and plain and len(r.args) == 1:
            one = r.args[0].elts[0] if isinstance(r.args[0], ast.Set) and len(r.args[0].elts) == 1 and not isinstance(r.args[0].elts[0], ast.Starred) else None
            own = f.value.elts[0] if isinstance(f.value, ast.Set) and len(f.value.elts) == 1 and not isinstance(f.value.elts[0], ast.Starred) else None
            if f.attr == "__contains__":
                return self.visit_Compare(ast.Compare(left=r.args[0], ops=[ast.In()], comparators=[f.value]))
            if f.attr == "__getitem__":
                return self.visit_Subscript(ast.Subscript(value=f.value, slice=r.args[0], ctx=ast.Load()))
            if f.attr == "issuperset" and one is not None:
                return self.visit_Compare(ast.Compare(left=one, ops=[ast.In()], comparators=[f.value]))           # s.issuperset({x})
            if f.attr == "isdisjoint" and (one is not None or own is not None):
                x, cont = (one, f.value) if one is not None else (own, r.args[0])
                return self.visit_Compare(ast.Compare(left=x, ops=[ast.NotIn()], comparators=[cont]))             # s.isdisjoint({x})
        return None

    def visit_BinOp(self, n: ast.BinOp) -> ast.AST:
        self.generic_visit(n)
        if _is_int_const(n.left) and _is_int_const(n.right) and type(n.op) in _BINOPS:
            try:
                v = _BINOPS[type(n.op)](n.left.value, n.right.value)
                if isinstance(v, int) and abs(v) < 1 << 64:
                    return ast.Constant(value=v)
            except Exception:  # noqa: BLE001
                pass
        if isinstance(n.op, (ast.FloorDiv, ast.Mod)) and _is_int_const(n.right) and n.right.value >= 2 \
                and n.right.value & (n.right.value - 1) == 0:
            if isinstance(n.op, ast.FloorDiv):      # x // 2**k == x >> k and x % 2**k == x & (2**k - 1) for every int x
                return ast.BinOp(left=n.left, op=ast.RShift(), right=ast.Constant(value=n.right.value.bit_length() - 1))
            return ast.BinOp(left=n.left, op=ast.BitAnd(), right=ast.Constant(value=n.right.value - 1))
        return n

    def visit_IfExp(self, n: ast.IfExp) -> ast.AST:
        self.generic_visit(n)
        # `d[k] if k in d else None` is d.get(k): it denotes d[k] wherever the result is known to be truthy / not None / is
        # successfully used as a receiver (the rules ask for exactly that)
        for val, other in ((n.body, n.orelse), (n.orelse, n.body)):
            if isinstance(other, ast.Constant) and other.value is None and not isinstance(val, ast.Constant):
                return val
        return n

    def visit_BoolOp(self, n: ast.BoolOp) -> ast.AST:
        self.generic_visit(n)
        if isinstance(n.op, ast.Or) and len(n.values) == 2 and isinstance(n.values[1], ast.Constant) and n.values[1].value is None:
            return n.values[0]          # `x or None`
        return n

    def visit_Subscript(self, n: ast.Subscript) -> ast.AST:
        self.generic_visit(n)
        i = n.slice
        if _is_int_const(i) and i.value >= 0 and isinstance(n.value, ast.Call):
            f = _unpacked_field(n.value, i.value)
            if f is not None:
                return f
        if isinstance(n.value, ast.Dict) and const_value(i) is not NOCONST and all(k is not None and const_value(k) is not NOCONST for k in n.value.keys):
            hit = [v for k, v in zip(n.value.keys, n.value.values) if const_value(k) == const_value(i) and type(const_value(k)) is type(const_value(i))]
            if hit:
                return hit[-1]                                            # {"a": x, "b": y}["a"] -> x
        iv = const_value(i)
        if isinstance(iv, int) and not isinstance(iv, bool) and isinstance(n.value, ast.Call) and self.sym is not None:
            f = self.sym._record_field(n.value, iv)
            if f is not None:
                return f                                                  # NamedTuple(a, b)[0] -> a
        if isinstance(iv, int) and not isinstance(iv, bool) and iv < 0 and isinstance(n.value, (ast.Tuple, ast.List)) \
                and -len(n.value.elts) <= iv and not any(isinstance(e, ast.Starred) for e in n.value.elts):
            return n.value.elts[iv]                                       # (a, b)[-1] -> b
        if _is_int_const(i) and i.value >= 0:
            v = n.value
            if isinstance(v, (ast.Tuple, ast.List)) and i.value < len(v.elts) and not any(isinstance(e, ast.Starred) for e in v.elts):
                return v.elts[i.value]                                   # (a, b)[0] -> a
            if isinstance(v, ast.Subscript) and isinstance(v.slice, ast.Slice) and v.slice.step is None:
                lo, hi = v.slice.lower, v.slice.upper
                lo_v = 0 if lo is None else lo.value if _is_int_const(lo) and lo.value >= 0 else None
                hi_ok = hi is None or (_is_int_const(hi) and lo_v is not None and hi.value - lo_v > i.value)
                if lo_v is not None and hi_ok:
                    return ast.Subscript(value=v.value, slice=ast.Constant(value=lo_v + i.value), ctx=ast.Load())   # x[:2][0] -> x[0]
        return n

    def visit_Compare(self, n: ast.Compare) -> ast.AST:
        if len(n.ops) == 1 and isinstance(n.ops[0], (ast.Is, ast.IsNot)):
            for a, b in ((n.left, n.comparators[0]), (n.comparators[0], n.left)):
                if _marker_lookup(a) and isinstance(b, ast.Name) and b.id == a.args[1].id:
                    # d.get(k, S) is S  exactly when k is not in d (S is a private marker object that is never an entry of a table)
                    op = ast.NotIn() if isinstance(n.ops[0], ast.Is) else ast.In()
                    return self.visit_Compare(ast.Compare(left=a.args[0], ops=[op], comparators=[a.func.value]))
        self.generic_visit(n)
        if len(n.ops) == 1 and isinstance(n.ops[0], (ast.In, ast.NotIn)) and isinstance(n.comparators[0], ast.Call) \
                and chain(n.comparators[0].func) == "range" and 1 <= len(n.comparators[0].args) <= 2 and not n.comparators[0].keywords:
            a = n.comparators[0].args
            lo, hi = (ast.Constant(value=0), a[0]) if len(a) == 1 else (a[0], a[1])
            inside = ast.Compare(left=lo, ops=[ast.LtE(), ast.Lt()], comparators=[n.left, hi])      # x in range(a, b): a <= x < b
            return inside if isinstance(n.ops[0], ast.In) else ast.UnaryOp(op=ast.Not(), operand=inside)
        n = _single_bytes(n)
        if not isinstance(n, ast.Compare):
            return n
        if len(n.ops) == 1 and type(n.ops[0]) in _CMP_CONST:
            # a tag chosen by a CHAIN of ternaries (the first row of an ordered table whose test holds) compared with a constant is the
            # same chain over the constant outcomes:  ("a" if c else "b" if d else None) is None   is   not c and not d
            for tern, other, swap in ((n.left, n.comparators[0], False), (n.comparators[0], n.left, True)):
                k = const_value(other)
                if not (isinstance(tern, ast.IfExp) and (isinstance(tern.body, ast.IfExp) or isinstance(tern.orelse, ast.IfExp))) or k is NOCONST:
                    continue
                fn = _CMP_CONST[type(n.ops[0])]

                def leaves(e: ast.AST) -> list:
                    return leaves(e.body) + leaves(e.orelse) if isinstance(e, ast.IfExp) else [e]

                def dist(e: ast.AST) -> ast.AST:
                    if not isinstance(e, ast.IfExp):
                        return ast.Constant(value=bool(fn(k, const_value(e)) if swap else fn(const_value(e), k)))
                    a, b = dist(e.body), dist(e.orelse)
                    no = ast.UnaryOp(op=ast.Not(), operand=e.test)
                    if isinstance(a, ast.Constant) and isinstance(b, ast.Constant):
                        return a if a.value == b.value else e.test if a.value else no
                    if isinstance(a, ast.Constant):
                        return ast.BoolOp(op=ast.Or(), values=[e.test, b]) if a.value else ast.BoolOp(op=ast.And(), values=[no, b])
                    if isinstance(b, ast.Constant):
                        return ast.BoolOp(op=ast.Or(), values=[no, a]) if b.value else ast.BoolOp(op=ast.And(), values=[e.test, a])
                    return ast.IfExp(test=e.test, body=a, orelse=b)
                if all(const_value(l) is not NOCONST for l in leaves(tern)):
                    try:
                        return dist(tern)
                    except Exception:  # noqa: BLE001
                        continue
            for tern, other, swap in ((n.left, n.comparators[0], False), (n.comparators[0], n.left, True)):
                if isinstance(tern, ast.IfExp) and const_value(tern.body) is not NOCONST and const_value(tern.orelse) is not NOCONST:
                    k = const_value(other)
                    if k is NOCONST and isinstance(other, (ast.List, ast.Set)):
                        vs = [const_value(e) for e in other.elts]
                        k = tuple(vs) if all(v is not NOCONST for v in vs) else NOCONST
                    if k is NOCONST:
                        continue
                    fn = _CMP_CONST[type(n.ops[0])]
                    try:
                        a, b = (fn(k, const_value(tern.body)), fn(k, const_value(tern.orelse))) if swap else \
                               (fn(const_value(tern.body), k), fn(const_value(tern.orelse), k))
                    except Exception:  # noqa: BLE001
                        continue
                    if a == b:
                        return ast.Constant(value=bool(a))
                    return tern.test if a else ast.UnaryOp(op=ast.Not(), operand=tern.test)
        if len(n.ops) == 1 and isinstance(n.ops[0], (ast.Is, ast.IsNot, ast.Eq, ast.NotEq)):
            for a, b in ((n.left, n.comparators[0]), (n.comparators[0], n.left)):
                if isinstance(b, ast.Constant) and isinstance(b.value, bool) and not isinstance(a, ast.Constant) and _boolean_valued(a):
                    # a value that is a bool `is True` / `== True` exactly when it is truthy
                    return a if b.value == isinstance(n.ops[0], (ast.Is, ast.Eq)) else ast.UnaryOp(op=ast.Not(), operand=a)
        if len(n.ops) == 1 and isinstance(n.ops[0], (ast.Is, ast.IsNot)):
            for a, b in ((n.left, n.comparators[0]), (n.comparators[0], n.left)):
                if isinstance(b, ast.Constant) and b.value is None and _table_lookup_keys(a, self.sym) is not None:
                    # {k1: f1, k2: f2}.get(k) is None  exactly when k is none of the keys (the entries are functions, never None)
                    op = ast.NotIn() if isinstance(n.ops[0], ast.Is) else ast.In()
                    return self.visit_Compare(ast.Compare(left=a.slice, ops=[op], comparators=[_table_lookup_keys(a, self.sym)]))
        if len(n.ops) == 1 and isinstance(n.ops[0], (ast.Is, ast.IsNot)):
            for a, b in ((n.left, n.comparators[0]), (n.comparators[0], n.left)):
                if isinstance(b, ast.Constant) and b.value is None and _never_none(a):
                    return ast.Constant(value=isinstance(n.ops[0], ast.IsNot))
            if all(isinstance(o, ast.Constant) and (o.value is None or isinstance(o.value, bool)) for o in (n.left, n.comparators[0])):
                return ast.Constant(value=(n.left.value is n.comparators[0].value) == isinstance(n.ops[0], ast.Is))
        if len(n.ops) == 1 and isinstance(n.ops[0], ast.LtE) and isinstance(n.left, ast.Set) and len(n.left.elts) == 1 \
                and not isinstance(n.left.elts[0], ast.Starred):
            n = ast.Compare(left=n.left.elts[0], ops=[ast.In()], comparators=n.comparators)      # {x} <= s  is  x in s
        if len(n.ops) == 1 and isinstance(n.ops[0], ast.GtE) and isinstance(n.comparators[0], ast.Set) and len(n.comparators[0].elts) == 1 \
                and not isinstance(n.comparators[0].elts[0], ast.Starred):
            n = ast.Compare(left=n.comparators[0].elts[0], ops=[ast.In()], comparators=[n.left])  # s >= {x}  is  x in s
        if len(n.ops) == 1 and isinstance(n.ops[0], (ast.In, ast.NotIn)):
            r = n.comparators[0]
            while isinstance(r, ast.Call) and chain(r.func) in ("set", "frozenset", "list", "tuple") and len(r.args) == 1 and not r.keywords:
                r = r.args[0]           # membership does not depend on the container type
            n.comparators = [r]
        return n

    def visit_Attribute(self, n: ast.Attribute) -> ast.AST:
        self.generic_visit(n)
        if isinstance(n.value, ast.Call) and isinstance(n.ctx, ast.Load):
            if n.attr == "size" and _struct_format(n.value) is not None:
                try:
                    import struct
                    return ast.Constant(value=struct.calcsize(_struct_format(n.value)))
                except Exception:  # noqa: BLE001
                    return n
            if self.sym is not None:
                f = self.sym._record_field(n.value, n.attr)
                if f is not None:
                    return f                                              # Verdict(a, b, allowed=c).allowed -> c
        if self.hop_address and n.attr == "address" and isinstance(n.value, ast.Attribute) and n.value.attr == "peer" \
                and isinstance(n.value.value, ast.Attribute) and n.value.value.attr == "hop":
            return ast.Attribute(value=n.value.value, attr="address", ctx=ast.Load())     # Hop.address is `self.peer.address`
        return n


_SENTINEL = "%marker:"


def _marker_lookup(n: ast.AST) -> bool:
    """n is `d.get(k, S)` with S a private marker object (see _Sym._sentinel)"""
    return isinstance(n, ast.Call) and isinstance(n.func, ast.Attribute) and n.func.attr == "get" and len(n.args) == 2 and not n.keywords \
        and isinstance(n.args[1], ast.Name) and n.args[1].id.startswith(_SENTINEL)


def _table_lookup_keys(x: ast.AST, sym: "_Sym | None") -> ast.AST | None:
    """x is `{k1: f1, ..}.get(k)` (canonical: a subscript of a dict display) with constant keys whose entries are all functions /
    bound methods / lambdas: the tuple of the keys"""
    if not (isinstance(x, ast.Subscript) and isinstance(x.value, ast.Dict) and x.value.keys and sym is not None):
        return None
    if any(k is None or const_value(k) is NOCONST for k in x.value.keys) or not all(sym._callable_ref(v) for v in x.value.values):
        return None
    return ast.Tuple(elts=[clone(k) for k in x.value.keys], ctx=ast.Load())


def _boolean_valued(x: ast.AST) -> bool:
    x = strip_cast(x)
    if isinstance(x, ast.Constant):
        return isinstance(x.value, bool)
    if isinstance(x, ast.Compare) or (isinstance(x, ast.UnaryOp) and isinstance(x.op, ast.Not)):
        return True
    if isinstance(x, ast.Call):
        c = chain(x.func) or ""
        return c in ("bool", "isinstance", "any", "all", "self.is_allowed") or c.startswith("DataChecker.could_be_") \
            or (isinstance(x.func, ast.Attribute) and x.func.attr in ("startswith", "endswith", "isdisjoint", "issubset", "issuperset"))
    if isinstance(x, ast.BoolOp):
        return all(_boolean_valued(v) for v in x.values)
    if isinstance(x, ast.BinOp) and isinstance(x.op, (ast.BitAnd, ast.BitOr, ast.BitXor)):
        return _boolean_valued(x.left) and _boolean_valued(x.right)
    if isinstance(x, ast.IfExp):
        return _boolean_valued(x.body) and _boolean_valued(x.orelse)
    return False


def _one_of_set(x: ast.AST) -> ast.AST | None:
    return x.elts[0] if isinstance(x, ast.Set) and len(x.elts) == 1 and not isinstance(x.elts[0], ast.Starred) else None


def _as_cond(x: ast.AST, sym: "_Sym | None" = None) -> ast.AST:
    """an expression that is truthy exactly when x is (x is only used as a condition): `a | b` -> `a or b` (non-zero / non-empty iff one
    of them is), `a & b` of booleans -> `a and b`, `{k} & s` / `s.intersection({k})` -> `k in s`, a lookup in a table of functions ->
    the key is in the table"""
    x = strip_cast(x)
    if sym is not None and _table_lookup_keys(x, sym) is not None:
        return _Canon2(sym.hop_address, sym).visit_Compare(ast.Compare(left=clone(x.slice), ops=[ast.In()], comparators=[_table_lookup_keys(x, sym)]))
    if isinstance(x, ast.BinOp) and isinstance(x.op, ast.BitOr):
        return ast.BoolOp(op=ast.Or(), values=[_as_cond(x.left, sym), _as_cond(x.right, sym)])
    if isinstance(x, ast.BinOp) and isinstance(x.op, ast.BitAnd):
        for one, other in ((_one_of_set(x.left), x.right), (_one_of_set(x.right), x.left)):
            if one is not None:
                return ast.Compare(left=one, ops=[ast.In()], comparators=[other])
        if _boolean_valued(x.left) and _boolean_valued(x.right):
            return ast.BoolOp(op=ast.And(), values=[_as_cond(x.left, sym), _as_cond(x.right, sym)])
    if isinstance(x, ast.Call) and isinstance(x.func, ast.Attribute) and x.func.attr == "intersection" and len(x.args) == 1 and not x.keywords:
        for one, other in ((_one_of_set(x.args[0]), x.func.value), (_one_of_set(x.func.value), x.args[0])):
            if one is not None:
                return ast.Compare(left=one, ops=[ast.In()], comparators=[other])
    if isinstance(x, ast.Call) and chain(x.func) == "bool" and len(x.args) == 1 and not x.keywords:
        return _as_cond(x.args[0], sym)
    # counting / ordering booleans: max(a, b) and sum((a, b)) are truthy iff one of them is, min(a, b) iff all are
    if isinstance(x, ast.Call) and chain(x.func) in ("max", "min", "sum") and x.args and not x.keywords:
        items = list(x.args) if len(x.args) > 1 and chain(x.func) != "sum" else _literal_items(x.args[0]) if len(x.args) == 1 else None
        if items and all(_boolean_valued(i) for i in items):
            return ast.BoolOp(op=ast.And() if chain(x.func) == "min" else ast.Or(), values=[_as_cond(i, sym) for i in items]) if len(items) > 1 \
                else _as_cond(items[0], sym)
    if isinstance(x, ast.Compare) and len(x.ops) == 1:
        l, op, r = x.left, x.ops[0], x.comparators[0]
        if isinstance(l, ast.Call) and chain(l.func) == "sum" and _is_int_const(r):
            inner = _as_cond(l, sym)
            if inner is not l:
                if (isinstance(op, ast.Gt) and r.value == 0) or (isinstance(op, ast.GtE) and r.value == 1) or (isinstance(op, ast.NotEq) and r.value == 0):
                    return inner
                if (isinstance(op, ast.Eq) and r.value == 0) or (isinstance(op, ast.Lt) and r.value == 1) or (isinstance(op, ast.LtE) and r.value == 0):
                    return ast.UnaryOp(op=ast.Not(), operand=inner)
        if isinstance(op, (ast.In, ast.NotIn)) and isinstance(l, ast.Constant) and isinstance(l.value, bool):
            items = _literal_items(r)
            if items and all(_boolean_valued(i) for i in items):
                # True in (a, b): one of them is true;  False in (a, b): one of them is false
                vals = [_as_cond(i, sym) if l.value else ast.UnaryOp(op=ast.Not(), operand=_as_cond(i, sym)) for i in items]
                inner = vals[0] if len(vals) == 1 else ast.BoolOp(op=ast.Or(), values=vals)
                return inner if isinstance(op, ast.In) else ast.UnaryOp(op=ast.Not(), operand=inner)
    if isinstance(x, ast.UnaryOp) and isinstance(x.op, ast.Not):
        inner = _as_cond(x.operand, sym)
        return x if inner is x.operand else ast.UnaryOp(op=ast.Not(), operand=inner)
    if isinstance(x, ast.BoolOp):
        vals = [_as_cond(v, sym) for v in x.values]
        return x if all(a is b for a, b in zip(vals, x.values)) else ast.BoolOp(op=x.op, values=vals)
    return x


def _is_new_file(repo, rel: str) -> bool:
    """the module exists only in the variant under analysis (a helper moved into a new module), not in the reviewed tree"""
    import os
    return rel in repo.overrides and repo.overrides[rel] is not None and not os.path.exists(os.path.join(repo.root, rel))


def _is_new_function(repo, table: dict, g: FuncInfo) -> bool:
    """g is a function the reviewed tree does not have: a new function of a reviewed tunnel module, or any function of a new module"""
    rel = g.module.relpath
    if not (_is_new_file(repo, rel) or (rel.startswith("ipv8/messaging/anonymization/") and rel in table and g.qualname not in table[rel])):
        return False
    # MOVED is not new: a method that a reviewed class now inherits from a base class (mixin) it did not have, or a function / class
    # that kept its qualified name and went to another module of the package, is the reviewed function at a new address
    if g.cls is not None and enclosing_function(g.node) is None:
        for c in g.cls.all_subclasses():
            if f"{c.name}.{g.name}" in table.get(c.module.relpath, ()) and g.name not in c.methods:
                return False
    pkg = rel.rsplit("/", 1)[0] + "/"
    for other, quals in table.items():
        if other != rel and other.startswith(pkg) and g.qualname in quals:
            m = repo.by_relpath.get(other)
            if m is None or not any(f.qualname == g.qualname for f in m.all_functions):
                return False
    return True


def _resolve_ref(repo, m, cls, e: ast.AST, depth: int = 0) -> FuncInfo | None:
    """the function a reference denotes: a name / `module.name` / `Class.name` that is a def, or that is bound (once, at module or
    class level) to another such reference, possibly wrapped in staticmethod(..)"""
    if depth > 6 or e is None:
        return None
    e = strip_cast(e)
    if isinstance(e, ast.Call) and chain(e.func) == "staticmethod" and len(e.args) == 1 and not e.keywords:
        return _resolve_ref(repo, m, cls, e.args[0], depth + 1)
    if isinstance(e, ast.Name):
        if cls is not None and e.id in cls.methods and e.id not in m.functions and e.id not in m.constants and e.id not in m.imports:
            return cls.methods[e.id]
        r = repo.resolve_name(m, e.id)
        if isinstance(r, FuncInfo):
            return r
        if isinstance(r, tuple) and r[0] == "const":
            return _resolve_ref(repo, r[1], None, r[2], depth + 1)
        return None
    if isinstance(e, ast.Attribute):
        base = e.value
        owner = None
        if isinstance(base, ast.Name):
            if base.id in ("self", "cls") and cls is not None:
                owner = cls
            else:
                r = repo.resolve_name(m, base.id)
                if isinstance(r, tuple) and r[0] == "module" and r[1] is not None:
                    return _resolve_ref(repo, r[1], None, ast.Name(id=e.attr, ctx=ast.Load()), depth + 1)
                if r is None and base.id in m.imports and m.imports[base.id][1] is None:
                    sub = repo.modules.get(m.imports[base.id][0])
                    if sub is not None:
                        return _resolve_ref(repo, sub, None, ast.Name(id=e.attr, ctx=ast.Load()), depth + 1)
                if r is not None and not isinstance(r, (tuple, FuncInfo)) and hasattr(r, "mro"):
                    owner = r
        if owner is not None:
            for c in owner.mro():
                if e.attr in c.methods:
                    return c.methods[e.attr]
                if e.attr in c.attrs:
                    return _resolve_ref(repo, c.module, c, c.attrs[e.attr], depth + 1)
    return None


def _data_checker(repo):
    """the DataChecker class: in the exit-socket module, or (moved as a whole) the only class of that name in the tunnel package"""
    c = repo.try_cls("DataChecker", ES)
    if c is None:
        cands = [k for k in repo.classes.get("DataChecker", []) if k.module.relpath.startswith("ipv8/messaging/anonymization/")]
        es = repo.module(ES)
        r = repo.resolve_name(es, "DataChecker")
        if len(cands) != 1 or (r is not None and r is not cands[0]):
            raise AnalysisError("anchor-lost: class DataChecker")
        c = cands[0]
    return c


def _classifier_fn(repo, name: str) -> FuncInfo | None:
    """the function `DataChecker.<name>` denotes: the static method itself, or the module-level function a class-level alias
    (`could_be_utp = staticmethod(_shapes.could_be_utp)`) names"""
    dc = _data_checker(repo)
    fi = dc.methods.get(name)
    if fi is not None:
        return fi
    if name not in dc.attrs:
        return None
    # the alias must be the only binding of the name (nothing rebinds DataChecker.<name> elsewhere)
    if sum(1 for x in dc.node.body for t in ast.walk(x) if isinstance(t, ast.Name) and isinstance(t.ctx, ast.Store) and t.id == name
           and not isinstance(x, (ast.FunctionDef, ast.AsyncFunctionDef, ast.ClassDef))) != 1:
        return None
    for m in repo.modules.values():
        for x in ast.walk(m.tree):
            if isinstance(x, ast.Attribute) and x.attr == name and isinstance(x.ctx, (ast.Store, ast.Del)):
                return None
    fi = _resolve_ref(repo, dc.module, dc, dc.attrs[name])
    if fi is None or fi.cls is not None or enclosing_function(fi.node) is not None or fi.is_async:
        return None
    return fi


class _Sym:
    """Walks every feasible path of `fi` (and of the new helpers it calls); on_site(sym, frame, call, tag, state) ->
    {question: bool} is asked at every evaluation of a call for which site_of(call) gives a tag."""

    LIMIT = 200000

    def __init__(self, ctx: Ctx, fi: FuncInfo, site_of, on_site) -> None:
        self.ctx, self.repo, self.fi = ctx, ctx.repo, fi
        self.site_of, self.on_site = site_of, on_site
        self.results: dict[int, list[dict]] = {}
        self.site_nodes: dict[int, tuple[_Frame, ast.Call, str]] = {}
        self.site_facts: dict[int, list[str]] = {}
        self.followed: set[int] = set()           # id(call) of helper calls that were walked
        self.helpers: set[FuncInfo] = set()
        self._orig: dict[int, int] = {}           # id of a rebuilt expression node -> id of the syntax node it stands for
        self._keep: list = []
        self._nph = 0
        self.steps = 0
        hop = self.repo.try_cls("Hop", "ipv8/messaging/anonymization/tunnel.py")
        prop = hop.methods.get("address") if hop is not None else None
        body = [s for s in prop.node.body if not (isinstance(s, ast.Expr) and isinstance(s.value, ast.Constant))] if prop else []
        self.hop_address = bool(prop and "property" in prop.decorator_names() and len(body) == 1 and isinstance(body[0], ast.Return)
                                and body[0].value is not None and norm(body[0].value) == "self.peer.address")
        from ..localnames import load_table
        table = load_table()
        self._table = table
        self.new_funcs: dict[str, list[FuncInfo]] = {}
        self.known_names: set[str] = set()
        for g in self.repo.all_functions():
            if _is_new_function(self.repo, table, g):
                self.new_funcs.setdefault(g.name, []).append(g)
            else:
                self.known_names.add(g.name)
        self._bodies: dict[str, FuncInfo] = {}    # marker name -> the decorated function a new decorator's wrapper calls

    # ---------------------------------------------------------------- running
    def _start(self, first_as: str | None = None) -> tuple[_Frame, _St]:
        """the frame and state a walk of self.fi begins with: its parameters stand for themselves; when the function is decorated
        with a NEW decorator the walk begins in the wrapper the decorator returns (called with the function's own parameters), and
        the wrapper's call of the decorated function is followed into the body"""
        st = _St()
        for p in self.fi.params():
            st.env[p] = ast.Name(id=p, ctx=ast.Load())
        if first_as is not None and self.fi.params():
            st.env[self.fi.params()[0]] = ast.Name(id=first_as, ctx=ast.Load())      # (first_as: the name the first parameter is known by)
        w = self._wrapper(self.fi)
        if w is None:
            return _Frame(self.fi, self.ctx.cfg(self.fi)), st
        a = self.fi.node.args
        if a.vararg or a.kwarg or a.kwonlyargs:
            raise AnalysisError(f"undecided: {self.fi.qualname} is decorated with new decorator {w[3].qualname} and takes */** / keyword-only parameters")
        wa = w[0].node.args
        own = [p.arg for p in a.posonlyargs + a.args]
        if not wa.vararg and len(wa.posonlyargs + wa.args) != len(own):
            # the decorator changes the signature: the public parameters are the wrapper's own
            own = [p.arg for p in wa.posonlyargs + wa.args]
        if first_as is not None and own:
            own = [first_as, *own[1:]]
        env = self._wrapper_env(self.fi, w, [ast.Name(id=p, ctx=ast.Load()) for p in own])
        if env is None:
            raise AnalysisError(f"undecided: cannot bind the parameters of {self.fi.qualname} to the wrapper of new decorator {w[3].qualname}")
        st.env = env
        self.helpers.add(w[0])
        return _Frame(w[0], self.ctx.cfg(w[0])), st

    def run(self) -> "_Sym":
        fr, st = self._start()
        self.root = fr
        self.steps = 0
        self._paths(fr, st)
        return self

    # ---------------------------------------------------------------- new decorators
    # `@d` / `@d(args)` with d a function the reviewed tree does not have, of the shape
    #       def d(func):                      def d(args):
    #           @wraps(func)                      def deco(func):
    #           def wrapper(...): ...                 def wrapper(...): ...
    #           return wrapper                        return wrapper
    #                                             return deco
    # makes the decorated name denote `wrapper` with `func` bound to the decorated body: wrapper + body are walked as one function.
    def _wrapper(self, h: FuncInfo):
        """(wrapper FuncInfo, name of the parameter that holds the decorated function, closure environment, decorator FuncInfo) or None"""
        cache = self.__dict__.setdefault("_wrappers", {})
        if id(h.node) in cache:
            return cache[id(h.node)]
        cache[id(h.node)] = None
        found = []
        for d in h.node.decorator_list:
            ref = d.func if isinstance(d, ast.Call) else d
            if not isinstance(ref, (ast.Name, ast.Attribute)) or chain(ref) is None:
                continue
            D = _resolve_ref(self.repo, h.module, h.cls if not isinstance(ref, ast.Name) else None, ref)
            if D is None:
                name = ref.attr if isinstance(ref, ast.Attribute) else ref.id
                cands = [g for g in self.new_funcs.get(name, []) if enclosing_function(g.node) is None]
                if name in self.known_names or len(cands) != 1:
                    continue
                D = cands[0]
            if not _is_new_function(self.repo, self._table, D):
                continue
            found.append((d, D))
        if not found:
            return None
        if len(found) > 1:
            raise AnalysisError(f"undecided: {h.qualname} carries several new decorators ({', '.join(D.qualname for _, D in found)})")
        d, D = found[0]

        def body_of(fn) -> list:
            return [x for x in fn.body if not (isinstance(x, ast.Expr) and isinstance(x.value, ast.Constant))]

        def shape(fn, closure: dict):
            """fn(func) -> (wrapper def, func parameter) when fn's body is `def wrapper ..; return wrapper`"""
            a = fn.args
            ps = a.posonlyargs + a.args
            b = body_of(fn)
            if len(ps) != 1 or a.vararg or a.kwarg or a.kwonlyargs or len(b) != 2 or not isinstance(b[0], (ast.FunctionDef, ast.AsyncFunctionDef)) \
                    or not (isinstance(b[1], ast.Return) and isinstance(b[1].value, ast.Name) and b[1].value.id == b[0].name):
                return None
            for wd in b[0].decorator_list:
                if not (isinstance(wd, ast.Call) and (chain(wd.func) or "").split(".")[-1] == "wraps" and len(wd.args) == 1
                        and isinstance(wd.args[0], ast.Name) and wd.args[0].id == ps[0].arg):
                    return None
            if any(isinstance(t, ast.Name) and isinstance(t.ctx, (ast.Store, ast.Del)) and t.id == ps[0].arg for t in ast.walk(fn)) \
                    or any(isinstance(t, (ast.Nonlocal, ast.Global)) for t in ast.walk(fn)):
                return None
            return b[0], ps[0].arg
        if D.is_async or D.node.decorator_list and D.decorator_names() != ["staticmethod"]:
            raise AnalysisError(f"undecided: new decorator {D.qualname} is itself decorated / a coroutine")
        closure: dict[str, ast.AST] = {}
        if isinstance(d, ast.Call):
            b = body_of(D.node)
            if len(b) != 2 or not isinstance(b[0], ast.FunctionDef) or not (isinstance(b[1], ast.Return) and isinstance(b[1].value, ast.Name)
                                                                             and b[1].value.id == b[0].name) or b[0].decorator_list:
                raise AnalysisError(f"undecided: new decorator factory {D.qualname} is not `def deco(func): ..; return deco`")
            hfr = _Frame(h, None)
            if any(isinstance(x, ast.Starred) for x in d.args) or any(k.arg is None for k in d.keywords) or D.node.args.vararg or D.node.args.kwarg:
                raise AnalysisError(f"undecided: cannot bind the arguments of decorator `{norm(d)[:80]}`")
            pos = [q.arg for q in D.node.args.posonlyargs + D.node.args.args]
            if len(d.args) > len(pos):
                raise AnalysisError(f"undecided: cannot bind the arguments of decorator `{norm(d)[:80]}`")
            closure = {q: self.C(hfr, x, _St()) for q, x in zip(pos, d.args)}
            closure.update({k.arg: self.C(hfr, k.value, _St()) for k in d.keywords})
            dfr = _Frame(D, None)
            for q, dv in zip(pos[len(pos) - len(D.node.args.defaults):], D.node.args.defaults):
                closure.setdefault(q, self.C(dfr, dv, _St()))
            for q, dv in zip(D.node.args.kwonlyargs, D.node.args.kw_defaults):
                if dv is not None:
                    closure.setdefault(q.arg, self.C(dfr, dv, _St()))
            if set(closure) != set(pos) | {q.arg for q in D.node.args.kwonlyargs} or not all(self._pure(v) for v in closure.values()):
                raise AnalysisError(f"undecided: cannot bind the arguments of decorator `{norm(d)[:80]}`")
            sh = shape(b[0], closure)
        else:
            sh = shape(D.node, closure)
        if sh is None:
            raise AnalysisError(f"undecided: new decorator {D.qualname} (on {h.qualname}) is not of the shape `def wrapper(..): ..; return wrapper`")
        wnode, fparam = sh
        W = getattr(wnode, "_info", None)
        if W is None:
            raise AnalysisError(f"undecided: wrapper of new decorator {D.qualname} is not in the model")
        if isinstance(W.node, ast.AsyncFunctionDef) != h.is_async:
            raise AnalysisError(f"undecided: new decorator {D.qualname} turns {h.qualname} from/into a coroutine")
        marker = f"%body{len(self._bodies)}"
        self._bodies[marker] = h
        closure = dict(closure)
        closure[fparam] = ast.Name(id=marker, ctx=ast.Load())
        cache[id(h.node)] = (W, fparam, closure, D)
        return cache[id(h.node)]

    def _wrapper_env(self, h: FuncInfo, w: tuple, values: list) -> dict | None:
        """environment of the wrapper when the decorated name is called with `values` for h's positional parameters"""
        W, fparam, closure, D = w
        a = W.node.args
        pos = [q.arg for q in a.posonlyargs + a.args]
        env = dict(closure)
        if len(values) > len(pos) and not a.vararg:
            return None
        for q, v in zip(pos, values):
            env[q] = v
        wfr = _Frame(W, None)
        for q, dv in zip(pos[len(pos) - len(a.defaults):], a.defaults):
            if q not in env or pos.index(q) >= len(values):
                env[q] = self.C(wfr, dv, _St())
        if any(q not in env or (pos.index(q) >= len(values) and q not in pos[len(pos) - len(a.defaults):]) for q in pos):
            return None
        if a.vararg:
            env[a.vararg.arg] = ast.Tuple(elts=list(values[len(pos):]), ctx=ast.Load())
        if a.kwarg:
            env[a.kwarg.arg] = ast.Dict(keys=[], values=[])
        for q, dv in zip(a.kwonlyargs, a.kw_defaults):
            if dv is None:
                return None
            env[q.arg] = self.C(wfr, dv, _St())
        return env

    def _wrapper_call_env(self, fr: _Frame, h: FuncInfo, w: tuple, call: ast.Call, st: _St) -> dict | None:
        """environment of the wrapper for a call of the decorated helper h: the call's arguments (the receiver first, for a method)
        are bound to the WRAPPER's signature - the decorator may add or drop parameters in front of the body"""
        args = []
        for x in call.args:
            if isinstance(x, ast.Starred):
                v = self.C(fr, x.value, st)
                if not isinstance(v, (ast.Tuple, ast.List)) or any(isinstance(e, ast.Starred) for e in v.elts):
                    return None
                args.extend(v.elts)
            else:
                args.append(self.C(fr, x, st))
        if call.keywords:
            return None
        nested = enclosing_function(h.node) is not None
        if h.cls is not None and not nested and "staticmethod" not in h.decorator_names():
            f = strip_cast(call.func)
            if isinstance(f, ast.Name) and isinstance(st.env.get(f.id), ast.Attribute):
                recv = clone(st.env[f.id].value)
            elif isinstance(f, ast.Attribute):
                recv = self.C(fr, f.value, st)
            else:
                return None
            if not (isinstance(recv, ast.Name) and recv.id == h.cls.name):
                args = [recv, *args]
        return self._wrapper_env(h, w, args)

    def _body_marker(self, call: ast.Call, st: _St) -> FuncInfo | None:
        """the decorated function, when `call` is a wrapper's call of the function it wraps"""
        f = strip_cast(call.func)
        if isinstance(f, ast.Name):
            v = st.env.get(f.id)
            if isinstance(v, ast.Name) and v.id in self._bodies:
                return self._bodies[v.id]
        return None

    def decide(self, seed: dict[tuple, bool]) -> list[tuple[bool | None, ast.AST, _St]]:
        """truth values the walked function can return when the atoms in `seed` (fact key -> outcome) are as given"""
        fr, st = self._start()
        st.facts = dict(seed)
        self.root = fr
        self.steps = 0
        return [(self.tv(ret, st2), ret, st2) for kind, ret, st2 in self._paths(fr, st) if kind == "ret"]

    def verdict(self, call: ast.Call, what: str) -> bool:
        """did `what` hold at every evaluation of the call on a feasible path (vacuously true when there is none)"""
        return all(r.get(what, False) for r in self.results.get(id(call), []))

    def sites(self, tag: str) -> list[tuple[_Frame, ast.Call]]:
        return [(fr, c) for fr, c, t in self.site_nodes.values() if t == tag]

    def _paths(self, fr: _Frame, st: _St) -> list:
        out: list = []
        self._dfs(fr, fr.cfg.entry, st, frozenset(), out)
        return out

    def _dfs(self, fr: _Frame, u, st: _St, used: frozenset, out: list) -> None:
        self.steps += 1
        if self.steps > self.LIMIT:
            raise AnalysisError(f"undecided: more than {self.LIMIT} path steps in {self.fi.qualname}")
        if u is fr.cfg.exit:
            out.append(("ret", st.ret if st.ret is not None else ast.Constant(value=None), st))
            return
        if u is fr.cfg.raise_exit:
            out.append(("exc", None, st))
            return
        m = parent(u.ast) if u.ast is not None and u.kind == "stmt" else None
        if isinstance(m, ast.Match) and m.subject is u.ast:
            self._dfs_match(fr, u, m, st, used, out)
            return
        yields = fr.is_gen and u.kind == "stmt" and isinstance(u.ast, ast.Expr) and isinstance(u.ast.value, ast.Yield)
        for lab, st2 in self._eval_node(fr, u, st):
            sig = tuple(sorted((k, v) for k, v in st2.iters.items() if k[0] == fr.key and v))
            for i, (v, l) in enumerate(u.succ):
                if l != lab:
                    continue
                key = (u.id, i, sig)
                if key in used:
                    if not (u.kind == "loop" and l is None) or (*key, 1) in used:
                        continue
                    key = (*key, 1)         # the head of a while loop is passed again after one iteration
                if yields and l is None:
                    y = u.ast.value.value
                    out.append(("yield", self.C(fr, y, st) if y is not None else ast.Constant(value=None), st2, (v, used | {key})))
                    continue                # the generator is suspended here; whoever iterates resumes it
                self._dfs(fr, v, st2, used | {key}, out)

    def _pattern(self, fr: _Frame, subj: ast.AST, pat: ast.AST, st: _St) -> tuple:
        """(condition, bindings) of a `case` pattern matched against the canonical subject: the condition is an expression, True
        (always matches) or None (not modelled: may or may not match); bindings name -> canonical value (None: unknown value)"""
        canon = _Canon2(self.hop_address, self)
        if isinstance(pat, ast.MatchSingleton):
            if isinstance(pat.value, bool) and _boolean_valued(subj):
                # an expression whose value is exactly True or False `is True` iff it is truthy, `is False` iff it is not
                return (clone(subj) if pat.value else ast.UnaryOp(op=ast.Not(), operand=clone(subj))), {}
            return ast.Compare(left=subj, ops=[ast.Is()], comparators=[ast.Constant(value=pat.value)]), {}
        if isinstance(pat, ast.MatchValue):
            return ast.Compare(left=subj, ops=[ast.Eq()], comparators=[self.C(fr, pat.value, st)]), {}
        if isinstance(pat, ast.MatchAs):
            if pat.pattern is None:
                return True, ({pat.name: subj} if pat.name else {})
            c, b = self._pattern(fr, subj, pat.pattern, st)
            return c, ({**b, pat.name: subj} if pat.name else b)
        if isinstance(pat, ast.MatchOr):
            parts = [self._pattern(fr, subj, q, st) for q in pat.patterns]
            names = {k for _, b in parts for k in b}
            binds = {k: None for k in names}
            cs = [c for c, _ in parts]
            if any(c is True for c in cs):
                return True, binds
            return (None if any(c is None for c in cs) else ast.BoolOp(op=ast.Or(), values=cs)), binds
        if isinstance(pat, ast.MatchSequence):
            names = {getattr(q, "name", None) for q in ast.walk(pat)} - {None}
            unknown = (None, {k: None for k in names})
            items = list(subj.elts) if isinstance(subj, (ast.Tuple, ast.List)) and not any(isinstance(e, ast.Starred) for e in subj.elts) else None
            if items is None and isinstance(subj, ast.Call) and self._record(subj.func) is not None and self._record(subj.func)[2]:
                fields = self._record(subj.func)[0] or []
                items = [self._record_field(subj, i) for i in range(len(fields))]
                items = None if any(x is None for x in items) else items
            if items is None:
                vals = [self.C(fr, q.value, st) if isinstance(q, ast.MatchValue) else ast.Constant(value=q.value) if isinstance(q, ast.MatchSingleton)
                        else None for q in pat.patterns]
                if vals and all(v is not None and const_value(v) is not NOCONST for v in vals):
                    # `case ("0.0.0.0", 0):` on a value that is a tuple wherever it equals that tuple: no match => it differs from it
                    return ast.Compare(left=subj, ops=[ast.Eq()], comparators=[ast.Tuple(elts=vals, ctx=ast.Load())]), {}
                return unknown
            stars = [i for i, q in enumerate(pat.patterns) if isinstance(q, ast.MatchStar)]
            if len(stars) > 1:
                return unknown
            if not stars and len(items) != len(pat.patterns) or stars and len(items) < len(pat.patterns) - 1:
                return ast.Constant(value=False), {}
            pairs = list(zip(pat.patterns, items)) if not stars else \
                [*zip(pat.patterns[:stars[0]], items), *zip(pat.patterns[stars[0] + 1:], items[len(items) - (len(pat.patterns) - stars[0] - 1):])]
            conds, binds = [], {}
            if stars and pat.patterns[stars[0]].name:
                k = stars[0]
                binds[pat.patterns[k].name] = ast.List(elts=items[k:len(items) - (len(pat.patterns) - k - 1)], ctx=ast.Load())
            for q, it in pairs:
                c, b = self._pattern(fr, it, q, st)
                binds.update(b)
                conds.append(c)
            return self._all_of(conds), binds
        if isinstance(pat, ast.MatchClass) and isinstance(pat.cls, (ast.Name, ast.Attribute)):
            names = {getattr(q, "name", None) for q in ast.walk(pat)} - {None}
            attrs = list(pat.kwd_attrs)
            subs = list(pat.kwd_patterns)
            if pat.patterns:
                rec = self._record(pat.cls)
                if rec is None or rec[0] is None or len(pat.patterns) > len(rec[0]):
                    return None, {k: None for k in names}
                attrs = [*rec[0][:len(pat.patterns)], *attrs]
                subs = [*pat.patterns, *subs]
            conds = [canon.visit(ast.Call(func=ast.Name(id="isinstance", ctx=ast.Load()), args=[clone(subj), self.C(fr, pat.cls, st)], keywords=[]))]
            binds = {}
            for a, q in zip(attrs, subs):
                c, b = self._pattern(fr, canon.visit(ast.Attribute(value=clone(subj), attr=a, ctx=ast.Load())), q, st)
                binds.update(b)
                conds.append(c)
            return self._all_of(conds), binds
        names = {getattr(q, "name", None) for q in ast.walk(pat)} | {getattr(q, "rest", None) for q in ast.walk(pat)}
        return None, {k: None for k in names if isinstance(k, str)}

    @staticmethod
    def _all_of(conds: list):
        conds = [c for c in conds if c is not True and not (isinstance(c, ast.Constant) and c.value is True)]
        if any(isinstance(c, ast.Constant) and c.value is False for c in conds):
            return ast.Constant(value=False)
        if any(c is None for c in conds):
            return None
        return True if not conds else conds[0] if len(conds) == 1 else ast.BoolOp(op=ast.And(), values=conds)

    def _dfs_match(self, fr: _Frame, u, m: ast.Match, st: _St, used: frozenset, out: list) -> None:
        """`match subject:` - the cases are tried in order; literal / None / wildcard / sequence / record-class patterns are conditions
        on the subject"""
        succ = [(i, v) for i, (v, l) in enumerate(u.succ) if l is None]
        for lab, st2 in self._eval_node(fr, u, st):
            if lab is not None:
                for i, (v, l) in enumerate(u.succ):
                    if l == lab and (u.id, i, ()) not in used:
                        self._dfs(fr, v, st2, used | {(u.id, i, ())}, out)
                continue
            subj = st2.env.pop("%subject", None) or self.C(fr, m.subject, st)
            canon = _Canon2(self.hop_address, self)
            rest: list[_St] = [st2]
            for (i, v), case in zip(succ, m.cases):
                if not rest:
                    break
                key = (u.id, i, ())
                nxt: list[_St] = []
                for r in rest:
                    cond, binds = self._pattern(fr, subj, case.pattern, r)
                    # a compound pattern (`case (False, True):`) is matched item by item: one state per way that can go
                    for taken in ([r.copy()] if cond is True or cond is None else self._fork(canon.visit(clone(cond)), True, r)):
                        for name, val in binds.items():
                            taken.env[name] = clone(val) if val is not None and self._pure(val) else self._opaque(fr, name, u)
                        ok = True
                        if case.guard is not None:
                            ok = self.assume(self.C(fr, case.guard, taken), True, taken)
                        if ok and key not in used:
                            self._dfs(fr, v, taken, used | {key}, out)
                    if cond is None:
                        nxt.append(r)
                    elif case.guard is not None:
                        # not taken: the pattern did not match, or it matched and the guard (read with the pattern's captures) was false
                        tmp = r.copy()
                        tmp.env.update({k: clone(b) for k, b in binds.items() if b is not None})
                        g = self.C(fr, case.guard, tmp) if all(b is not None and self._pure(b) for b in binds.values()) else None
                        if g is None or not self._pure(g):
                            nxt.append(r)
                        else:
                            full = g if cond is True else ast.BoolOp(op=ast.And(), values=[canon.visit(clone(cond)), g])
                            nxt.extend(self._fork(full, False, r))
                    elif cond is not True:
                        nxt.extend(self._fork(canon.visit(clone(cond)), False, r))
                rest = nxt
            if rest and len(succ) > len(m.cases):
                i, v = succ[len(m.cases)]
                if (u.id, i, ()) not in used:
                    for r in rest:
                        self._dfs(fr, v, r, used | {(u.id, i, ())}, out)

    def _fork(self, x: ast.AST, lab: bool, st: _St) -> list[_St]:
        """the states (copies of st) in which canonical condition x evaluated to lab, one per way its short-circuit evaluation can go:
        a false conjunction has a first false operand after true ones, a true disjunction a first true operand after false ones - the
        case split the CFG makes for the tests it splits into atoms.  Contradictory ways are dropped."""
        x = _as_cond(x, self)
        if isinstance(x, ast.UnaryOp) and isinstance(x.op, ast.Not):
            return self._fork(x.operand, not lab, st)
        if isinstance(x, ast.BoolOp) and len(x.values) <= 6:
            if isinstance(x.op, ast.And) == lab:          # every operand evaluated, all with outcome lab
                states = [st]
                for v in x.values:
                    states = [s2 for s in states for s2 in self._fork(v, lab, s)]
                return [s.copy() for s in states] if states == [st] else states
            res: list[_St] = []
            before = [st]
            for v in x.values:
                res.extend(s2 for s in before for s2 in self._fork(v, lab, s))
                before = [s2 for s in before for s2 in self._fork(v, not lab, s)]
            return res
        s = st.copy()
        return [s] if self.assume(x, lab, s) else []

    # ---------------------------------------------------------------- expressions
    def C(self, fr: _Frame, e: ast.AST, st: _St, depth: int = 0) -> ast.AST:
        """canonical form of e in the terms of the root function (locals replaced by what they hold on this path)"""
        def scan(n: ast.Call) -> ast.AST | None:
            """next((E(x) for x in ROWS if P(x)), D) / any(..) / all(..) over a literal sequence of rows (possibly held in a local, rows of
            lazily applied lambdas included): the rows are tried in order, so next() is `E(r1) if P(r1) else E(r2) if P(r2) else .. D`,
            any() is `P(r1) and E(r1) or ..`, all() is `(not P(r1) or E(r1)) and ..` (same evaluation order, same short-circuiting)"""
            name = n.func.id
            comp = strip_cast(n.args[0])
            if not isinstance(comp, (ast.GeneratorExp, ast.ListComp)) or len(comp.generators) != 1 or comp.generators[0].is_async:
                return None
            if (name == "next" and (len(n.args) != 2 or not isinstance(comp, ast.GeneratorExp))) or (name != "next" and len(n.args) != 1):
                return None
            g = comp.generators[0]
            if not g.ifs and name != "next":
                return None                 # (an unfiltered comprehension is the tuple of its items: handled below)
            items = _literal_items(sub(g.iter))
            binds = [_target_bindings(g.target, it) for it in items] if items is not None else [None]
            if any(b is None for b in binds):
                return None
            rows = []
            for b in binds:
                saved = {k: st.env.get(k) for k in b}
                st.env.update(b)
                try:
                    conds, val = [sub(c) for c in g.ifs], sub(comp.elt)
                finally:
                    for k, v in saved.items():
                        if v is None:
                            st.env.pop(k, None)
                        else:
                            st.env[k] = v
                if not all(self._pure(x) for x in (*conds, val)):
                    return None
                rows.append((conds, val))
            if name == "next":
                acc = sub(n.args[1])
                for conds, val in reversed(rows):
                    acc = val if not conds else ast.IfExp(test=conds[0] if len(conds) == 1 else ast.BoolOp(op=ast.And(), values=conds), body=val, orelse=acc)
                return acc
            if not rows:
                return ast.Constant(value=name == "all")
            if name == "any":
                terms = [ast.BoolOp(op=ast.And(), values=[*conds, val]) for conds, val in rows]
            else:
                terms = [ast.BoolOp(op=ast.Or(), values=[*[ast.UnaryOp(op=ast.Not(), operand=c) for c in conds], val]) for conds, val in rows]
            x = terms[0] if len(terms) == 1 else ast.BoolOp(op=ast.Or() if name == "any" else ast.And(), values=terms)
            return ast.Call(func=ast.Name(id="bool", ctx=ast.Load()), args=[x], keywords=[])

        def sub(n: ast.AST) -> ast.AST:
            n = strip_cast(n)
            if isinstance(n, ast.Name):
                v = st.env.get(n.id)
                if v is not None:
                    return clone(v)
                c = self._module_const(fr, n)
                return c if c is not None else ast.Name(id=n.id, ctx=ast.Load())
            if isinstance(n, ast.Await):
                return sub(n.value)         # the value of the awaited call (what awaiting does to the facts is an effect of the node)
            if isinstance(n, ast.NamedExpr):
                return sub(n.value)         # the value of `(x := e)` is e; binding x is an effect of the node
            if isinstance(n, ast.Call) and isinstance(n.func, ast.Name) and isinstance(st.env.get(n.func.id), ast.Lambda) and not n.keywords \
                    and not any(isinstance(x, ast.Starred) for x in n.args):
                lam = st.env[n.func.id]
                ps = lam.args
                if not (ps.vararg or ps.kwarg or ps.kwonlyargs or ps.defaults) and len(ps.posonlyargs + ps.args) == len(n.args):
                    # a local lambda applied to arguments is its body with the parameters replaced (its free names were resolved when
                    # it was bound)
                    return _subst_names(lam.body, {q.arg: sub(x) for q, x in zip(ps.posonlyargs + ps.args, n.args)})
            if isinstance(n, ast.Call) and isinstance(n.func, ast.Name) and n.func.id in ("next", "any", "all") and n.func.id not in st.env \
                    and not n.keywords and 1 <= len(n.args) <= 2:
                r = scan(n)
                if r is not None:
                    return r
            if isinstance(n, (ast.GeneratorExp, ast.ListComp)) and len(n.generators) == 1 and not n.generators[0].ifs \
                    and not n.generators[0].is_async:
                # a comprehension over a literal sequence (possibly held in a local / a module-level table / built by zip, chain,
                # enumerate, ..) is the sequence of its element expression with the target bound to each item in turn
                g = n.generators[0]
                items = _literal_items(sub(g.iter))
                binds = [_target_bindings(g.target, it) for it in items] if items is not None else [None]
                if all(b is not None for b in binds):
                    out = []
                    for b in binds:
                        saved = {k: st.env.get(k) for k in b}
                        st.env.update(b)
                        try:
                            out.append(sub(n.elt))
                        finally:
                            for k, v in saved.items():
                                if v is None:
                                    st.env.pop(k, None)
                                else:
                                    st.env[k] = v
                    return ast.Tuple(elts=out, ctx=ast.Load())
            if isinstance(n, ast.Lambda):
                # the lambda's free names are read when it is applied - in the places the walk looks at (map / any / a local that is
                # called right away) that is the state it was written in
                a = n.args
                own = {q.arg for q in [*a.posonlyargs, *a.args, *a.kwonlyargs, *([a.vararg] if a.vararg else []), *([a.kwarg] if a.kwarg else [])]}
                saved = {k: st.env.pop(k) for k in own if k in st.env}
                shadow = {k: ast.Name(id=k, ctx=ast.Load()) for k in own}
                st.env.update(shadow)
                try:
                    body = sub(n.body)
                finally:
                    for k in own:
                        st.env.pop(k, None)
                    st.env.update(saved)
                return ast.Lambda(args=n.args, body=body)
            if isinstance(n, _NEST):
                return clone(n)
            if isinstance(n, ast.Attribute) and isinstance(n.ctx, ast.Load) and self._lib_ref(fr.fi.module, n, st) is not None:
                return ast.Name(id=self._lib_ref(fr.fi.module, n, st), ctx=ast.Load())
            if isinstance(n, ast.Attribute) and isinstance(n.ctx, ast.Load) and n.attr in self.new_funcs and depth < 3:
                pv = self._property_value(fr, n, st, depth)
                if pv is not None:
                    return pv
            if isinstance(n, ast.Attribute) and isinstance(n.ctx, ast.Load) and self._global_root(n, st):
                g = self._enum_member(fr.fi.module, n) or self._class_attr_value(fr.fi.module, fr.fi.cls, n)
                if g is not None:
                    return clone(g)
            new = type(n)()
            for f in n._fields:
                if not hasattr(n, f):
                    continue
                v = getattr(n, f)
                if isinstance(v, ast.AST):
                    v = sub(v)
                elif isinstance(v, list):
                    v = [sub(x) if isinstance(x, ast.AST) else x for x in v]
                setattr(new, f, v)
            if isinstance(n, ast.Call) and depth < 3:
                r = self._expr_helper(fr, n, st, depth)
                if r is not None:
                    return r
                r = self._gen_items(fr, n, st, depth)
                if r is not None:
                    return r
            if isinstance(n, ast.Call):
                self._name_classifier(fr, new)
                if chain(new.func) == "functools.reduce" and 2 <= len(new.args) <= 3 and not new.keywords \
                        and not any(isinstance(x, ast.Starred) for x in new.args):
                    # a fold over a literal sequence is the nested application of the folding function
                    items = _literal_items(new.args[1])
                    if items is not None and (items or len(new.args) == 3):
                        acc = new.args[2] if len(new.args) == 3 else items.pop(0)
                        for it in items:
                            if isinstance(it, ast.Call):
                                self._name_classifier(fr, it)
                            acc = ast.Call(func=clone(new.args[0]), args=[acc, it], keywords=[])
                        return acc
                if (chain(new.func) or "") in _SEQ_FUNCS:
                    items = _literal_items(new)
                    if items is not None:
                        for it in items:
                            if isinstance(it, ast.Call):
                                self._name_classifier(fr, it)
                        return ast.Tuple(elts=items, ctx=ast.Load())
            return new
        return self._resolve_lookups(_Canon2(self.hop_address, self).visit(sub(e)), st)

    def _property_value(self, fr: _Frame, n: ast.Attribute, st: _St, depth: int) -> ast.AST | None:
        """`obj.name` where name is a NEW read-only property whose body is one `return <pure expression>`: that expression about obj"""
        cands = [g for g in self.new_funcs.get(n.attr, []) if g.cls is not None and enclosing_function(g.node) is None]
        if n.attr in _RULE_ATTRS:
            return None                     # the rules speak about this attribute by name (who may write it is checked on what backs it)
        if len(cands) != 1 or n.attr in self.known_names or n.attr in self._stored_attrs() or "*" in self._stored_attrs():
            return None
        h = cands[0]
        if h.decorator_names() != ["property"] or h.is_async or len(h.params()) != 1 or f"{n.attr}.setter" in h.cls.methods \
                or any(n.attr in c.methods or n.attr in c.attrs for c in h.cls.all_subclasses()):
            return None
        body = [x for x in h.node.body if not (isinstance(x, ast.Expr) and isinstance(x.value, ast.Constant))]
        if len(body) != 1 or not isinstance(body[0], ast.Return) or body[0].value is None:
            return None
        st2 = _St()
        st2.env = {h.params()[0]: self.C(fr, n.value, st, depth + 1)}
        x = self.C(_Frame(h, None, fr, None), body[0].value, st2, depth + 1)
        if not self._pure(x):
            return None
        self.helpers.add(h)
        return x

    def _callable_ref(self, x: ast.AST) -> bool:
        """x names a function / method of the repository or is a lambda (such a value is never None and always truthy)"""
        if isinstance(x, ast.Lambda):
            return True
        if isinstance(x, ast.Call) and chain(x.func) == "functools.partial" and x.args:
            return True
        name = x.attr if isinstance(x, ast.Attribute) else x.id if isinstance(x, ast.Name) else None
        if name is None or chain(x) is None or "(" in chain(x) or "[" in chain(x):
            return False
        if isinstance(x, ast.Attribute) and not (isinstance(x.value, ast.Name) and (x.value.id in ("self", "cls") or x.value.id in self.repo.classes)):
            return False
        return (name in self.new_funcs or name in self.known_names) and name not in self._stored_attrs()

    def _name_classifier(self, fr: _Frame, call: ast.Call) -> None:
        """a call that can only run one DataChecker.could_be_* classifier is spelt `DataChecker.could_be_*(..)`"""
        if isinstance(call.func, (ast.Name, ast.Attribute)) and (chain(call.func) or "").split(".")[-1].startswith("could_be_"):
            tg = {t.qualname for t in self.repo.resolve_call(fr.fi, call)}
            if len(tg) == 1 and next(iter(tg)).startswith("DataChecker.could_be_"):
                call.func = ast.Attribute(value=ast.Name(id="DataChecker", ctx=ast.Load()), attr=next(iter(tg)).split(".")[1], ctx=ast.Load())
                return
        if isinstance(call.func, (ast.Name, ast.Attribute)) and chain(call.func) is not None:
            # the classifier bodies may live elsewhere (a module-level function that DataChecker.<name> is an alias of): a call that
            # resolves to that very function is the classifier
            last = chain(call.func).split(".")[-1]
            moved = self.__dict__.get("_moved_classifiers")
            if moved is None:
                moved = {}
                for k in _CLASSIFIER_NAMES:
                    try:
                        g = _classifier_fn(self.repo, k)
                    except AnalysisError:
                        g = None
                    if g is not None and g.cls is None:
                        moved[k] = g
                self._moved_classifiers = moved
            if moved and (last in {g.name for g in moved.values()} or last in moved) and not chain(call.func).startswith("DataChecker."):
                g = _resolve_ref(self.repo, fr.fi.module, fr.fi.cls, call.func)
                hit = [k for k, v in moved.items() if v is g]
                if g is not None and len(hit) == 1:
                    call.func = ast.Attribute(value=ast.Name(id="DataChecker", ctx=ast.Load()), attr=hit[0], ctx=ast.Load())

    def _lib_ref(self, m, n: ast.AST, st: _St | None = None) -> str | None:
        """'operator.contains' / 'functools.partial' / 'itertools.chain' when the name / attribute path n denotes that library function
        in module m (through `from operator import contains`, `import operator as op`, ..)"""
        parts = []
        r = n
        while isinstance(r, ast.Attribute):
            parts.append(r.attr)
            r = r.value
        if not isinstance(r, ast.Name) or (st is not None and r.id in st.env) or len(parts) > 2:
            return None
        imp = m.imports.get(r.id)
        if imp is None or imp[0] not in _LIBS:
            return None
        if imp[1] is None:
            return ".".join([imp[0], *reversed(parts)]) if parts else None
        return ".".join([imp[0], imp[1], *reversed(parts)])

    @staticmethod
    def _global_root(n: ast.Attribute, st: _St) -> bool:
        """the attribute path starts at a name that is not a local of the walked function (or at its own self / cls)"""
        r = n
        while isinstance(r, ast.Attribute):
            r = r.value
        if not isinstance(r, ast.Name):
            return False
        v = st.env.get(r.id)
        return v is None or (r.id in ("self", "cls") and isinstance(v, ast.Name) and v.id == r.id)

    def _module_const(self, fr: _Frame, n: ast.Name) -> ast.AST | None:
        if n.id in ("True", "False", "None", "self", "cls", "data"):
            return None
        lib = self._lib_ref(fr.fi.module, n)
        if lib is not None:
            return ast.Name(id=lib, ctx=ast.Load())
        if self._sentinel(fr.fi.module, n.id):
            return ast.Name(id=_SENTINEL + n.id, ctx=ast.Load())
        g = self._global_value(fr.fi.module, n.id)
        if g is not None:
            return clone(g)
        if not n.id.isupper():
            return None
        v = self.repo.resolve_const(fr.fi.module, n, fr.fi.cls)
        return None if v is NOCONST or not isinstance(v, tuple) else _lit(v)

    # ---------------------------------------------------------------- module-level tables, precompiled structs, enumerations, records
    # A module-level name (or class attribute) that is bound exactly once to a literal table / a struct.Struct(fmt) object denotes
    # that value wherever it is read; members of an enumeration are distinct constants; the constructor of a NamedTuple /
    # dataclass / SimpleNamespace builds an object whose fields are the constructor's arguments.
    def _sentinel(self, m, name: str) -> bool:
        """`name` denotes, in module m, a private marker object: a module-level name bound once to `object()` / `<Class>()` whose only
        uses anywhere are as the default of a lookup (`d.get(k, S)`, `getattr(o, a, S)`, `next(it, S)`) or as an operand of `is` /
        `is not`.  Such an object is never an entry of any table, so `d.get(k, S) is S` says exactly `k not in d`."""
        cache = self.__dict__.setdefault("_sentinels", {})
        key = (m.relpath, name)
        if key in cache:
            return cache[key]
        cache[key] = False
        r = self.repo.resolve_name(m, name)
        if not (isinstance(r, tuple) and r[0] == "const"):
            return False
        own = next((k for k, v in r[1].constants.items() if v is r[2]), None)
        v = strip_cast(r[2])
        if own is None or own != name or not self._bound_once(r[1], own) or not (r[1] is m or self._bound_once(m, name)):
            return False
        if not (isinstance(v, ast.Call) and not v.args and not v.keywords and isinstance(v.func, ast.Name)):
            return False
        if not ((v.func.id == "object" and self.repo.resolve_name(r[1], "object") is None) or v.func.id in r[1].classes):
            return False
        for mm in self.repo.modules.values():
            for x in ast.walk(mm.tree):
                if isinstance(x, ast.Attribute) and x.attr == name:
                    return False            # (reached through a module object: not tracked)
                if isinstance(x, ast.alias) and x.name == name and x.asname not in (None, name):
                    return False
                if isinstance(x, ast.Constant) and x.value == name and isinstance(parent(x), ast.Call):
                    return False            # (getattr(module, "NAME") and the like)
                if not (isinstance(x, ast.Name) and x.id == name and isinstance(x.ctx, ast.Load)):
                    continue
                q = parent(x)
                while isinstance(q, ast.Call) and chain(q.func) in ("cast", "typing.cast") and len(q.args) == 2 and q.args[1] is x:
                    x, q = q, parent(q)
                if isinstance(q, ast.Compare) and all(isinstance(o, (ast.Is, ast.IsNot)) for o in q.ops):
                    continue
                if isinstance(q, ast.Call) and not q.keywords and len(q.args) >= 2 and q.args[-1] is x and (
                        (isinstance(q.func, ast.Attribute) and q.func.attr == "get" and len(q.args) == 2)
                        or (chain(q.func) == "getattr" and len(q.args) == 3) or (chain(q.func) == "next" and len(q.args) == 2)):
                    continue
                return False
        cache[key] = True
        return True

    def _resolve_lookups(self, x: ast.AST, st: _St) -> ast.AST:
        """`d.get(k, <marker>)` is `d[k]` on a path that established `k in d`"""
        if not any(_marker_lookup(n) for n in ast.walk(x)):
            return x
        known = st.known

        class T(ast.NodeTransformer):
            def visit_Call(self, n: ast.Call) -> ast.AST:
                self.generic_visit(n)
                if _marker_lookup(n) and known("in", norm(n.args[0]), norm(n.func.value)) is True:
                    return ast.Subscript(value=n.func.value, slice=n.args[0], ctx=ast.Load())
                return n
        return T().visit(x)

    def _bound_once(self, m, name: str) -> bool:
        cache = self.__dict__.setdefault("_store_counts", {})
        if m.relpath not in cache:
            cnt: dict[str, int] = {}
            for x in ast.walk(m.tree):
                if isinstance(x, ast.Name) and isinstance(x.ctx, (ast.Store, ast.Del)):
                    cnt[x.id] = cnt.get(x.id, 0) + 1
                elif isinstance(x, (ast.Global, ast.Nonlocal)):
                    for k in x.names:
                        cnt[k] = cnt.get(k, 0) + 2
                elif isinstance(x, (ast.FunctionDef, ast.AsyncFunctionDef, ast.ClassDef)):
                    cnt[x.name] = cnt.get(x.name, 0) + 1
                elif isinstance(x, ast.arg):
                    cnt[x.arg] = cnt.get(x.arg, 0) + 1
                elif isinstance(x, ast.alias):
                    k = (x.asname or x.name).split(".")[0]
                    cnt[k] = cnt.get(k, 0) + 1
            cache[m.relpath] = cnt
        return cache[m.relpath].get(name, 0) == 1

    def _stored_attrs_near(self, ci) -> set[str]:
        """like _stored_attrs, restricted to the modules that can name class ci (its own module and those that import the name):
        objects of a private record class are built and handled there"""
        cache = self.__dict__.setdefault("_stored_by_module", {})
        out: set[str] = set()
        for m in self.repo.modules.values():
            if m is not ci.module and ci.name not in m.imports:
                continue
            if m.relpath not in cache:
                names = set()
                for x in ast.walk(m.tree):
                    if isinstance(x, ast.Attribute) and isinstance(x.ctx, (ast.Store, ast.Del)):
                        names.add(x.attr)
                    elif isinstance(x, ast.Call) and chain(x.func) in ("setattr", "delattr", "object.__setattr__"):
                        a = x.args[1] if len(x.args) > 1 else None
                        names.add(a.value if isinstance(a, ast.Constant) and isinstance(a.value, str) else "*")
                cache[m.relpath] = names
            out |= cache[m.relpath]
        return out

    def _stored_attrs(self) -> set[str]:
        """names of all attributes that are assigned through `<expr>.name = ..` somewhere in the repository"""
        if "_stored_attr_names" not in self.__dict__:
            out = set()
            for m in self.repo.modules.values():
                for x in ast.walk(m.tree):
                    if isinstance(x, ast.Attribute) and isinstance(x.ctx, (ast.Store, ast.Del)):
                        out.add(x.attr)
                    elif isinstance(x, ast.Call) and chain(x.func) in ("setattr", "delattr", "object.__setattr__"):
                        for a in x.args[1:2]:
                            if isinstance(a, ast.Constant) and isinstance(a.value, str):
                                out.add(a.value)
                            elif m.relpath.startswith("ipv8/messaging/anonymization/"):
                                out.add("*")    # (elsewhere the computed names belong to payload / session objects)
            self._stored_attr_names = out
        return self._stored_attr_names

    def _global_value(self, m, name: str, depth: int = 0) -> ast.AST | None:
        """the table / Struct object the module-level name denotes (a self-contained expression), else None"""
        cache = self.__dict__.setdefault("_globals", {})
        key = (m.relpath, name)
        if key in cache:
            return cache[key]
        cache[key] = None
        r = self.repo.resolve_name(m, name) if depth < 6 else None
        if isinstance(r, tuple) and r[0] == "const":
            own = next((k for k, v in r[1].constants.items() if v is r[2]), None)
            if own is not None and self._bound_once(r[1], own) and (r[1] is m or self._bound_once(m, name)):
                cache[key] = self._table_value(r[1], None, r[2], depth, top=True) or self._scalar_value(r[1], None, own, r[2], depth)
        return cache[key]

    def _scalar_value(self, m, cls, name: str, e: ast.AST, depth: int) -> ast.AST | None:
        """a name bound once to a constant (`_MIN_LENGTH = 20`) denotes the constant, one bound to another name / attribute path
        (`_is_utp = DataChecker.could_be_utp`) denotes that; the exit-flag constants keep their names (the policy atoms are spelt with them)"""
        if name.startswith("PEER_FLAG"):
            return None
        e = strip_cast(e)
        if isinstance(e, (ast.Name, ast.Attribute)) and chain(e) is not None and "(" not in chain(e) and "[" not in chain(e):
            if isinstance(e, ast.Name) and e.id == name:
                return None
            return self._table_value(m, cls, e, depth + 1)
        v = self.repo.resolve_const(m, e, cls)
        if v is NOCONST:
            # a DERIVED constant (struct.calcsize(..), Struct(..).size, len(<constant>), <hash>().digest_size, range / frozenset of
            # constants, arithmetic over those) is the value it evaluates to
            v = self._fold_value(m, cls, e, 0)
            if isinstance(v, tuple) and not isinstance(e, (ast.Tuple, ast.List, ast.Set)):
                return _lit(v)
        if v is NOCONST or isinstance(v, (tuple, float)) or not (v is None or isinstance(v, (bool, int, str, bytes))):
            return None
        return _lit(v)

    _DIGEST = {"md5": 16, "sha1": 20, "sha224": 28, "sha256": 32, "sha384": 48, "sha512": 64, "sha3_224": 28, "sha3_256": 32, "sha3_384": 48,
               "sha3_512": 64, "blake2b": 64, "blake2s": 32}

    def _fold_value(self, m, cls, e: ast.AST, depth: int):
        """the Python value of a module- / class-level constant expression built from literals, other once-bound constants and pure
        builtins (len, range, tuple / frozenset / set / list / sorted, min / max / sum / abs / ord / int / bool), struct.calcsize,
        Struct(fmt).size and hashlib digest sizes; NOCONST when it is anything else"""
        if depth > 8:
            return NOCONST
        e = strip_cast(e)
        v = const_value(e)
        if v is not NOCONST:
            return v

        def builtin(name: str) -> bool:
            return name not in m.functions and name not in m.constants and name not in m.imports and name not in m.classes

        def from_lib(ref: ast.AST, lib: str, what: str) -> bool:
            if isinstance(ref, ast.Name):
                return m.imports.get(ref.id) == (lib, what)
            return isinstance(ref, ast.Attribute) and ref.attr == what and isinstance(ref.value, ast.Name) \
                and m.imports.get(ref.value.id) == (lib, None)
        if isinstance(e, ast.Name):
            if cls is not None and e.id in cls.attrs and e.id not in m.constants:
                return self._fold_value(m, cls, cls.attrs[e.id], depth + 1)
            r = self.repo.resolve_name(m, e.id)
            if isinstance(r, tuple) and r[0] == "const":
                own = next((k for k, x in r[1].constants.items() if x is r[2]), None)
                if own is not None and self._bound_once(r[1], own):
                    return self._fold_value(r[1], None, r[2], depth + 1)
            return NOCONST
        if isinstance(e, (ast.Tuple, ast.List, ast.Set)):
            vals = [self._fold_value(m, cls, x, depth + 1) for x in e.elts]
            return NOCONST if any(x is NOCONST for x in vals) or any(isinstance(x, ast.Starred) for x in e.elts) else tuple(vals)
        if isinstance(e, ast.UnaryOp) and isinstance(e.op, (ast.USub, ast.Invert, ast.UAdd)):
            x = self._fold_value(m, cls, e.operand, depth + 1)
            if isinstance(x, int) and not isinstance(x, bool):
                return -x if isinstance(e.op, ast.USub) else ~x if isinstance(e.op, ast.Invert) else x
            return NOCONST
        if isinstance(e, ast.BinOp) and (type(e.op) in _BINOPS or isinstance(e.op, ast.Pow)):
            a, b = self._fold_value(m, cls, e.left, depth + 1), self._fold_value(m, cls, e.right, depth + 1)
            if a is NOCONST or b is NOCONST:
                return NOCONST
            try:
                if isinstance(e.op, ast.Pow):
                    return a ** b if isinstance(a, int) and isinstance(b, int) and 0 <= b <= 64 else NOCONST
                if isinstance(e.op, (ast.Add, ast.Mult)) and type(a) is type(b) and isinstance(a, (bytes, str, tuple)) and isinstance(e.op, ast.Add):
                    return a + b
                if all(isinstance(x, int) for x in (a, b)):
                    return _BINOPS[type(e.op)](a, b)
            except Exception:  # noqa: BLE001
                return NOCONST
            return NOCONST
        if isinstance(e, ast.Subscript) and not isinstance(e.slice, ast.Slice):
            a, i = self._fold_value(m, cls, e.value, depth + 1), self._fold_value(m, cls, e.slice, depth + 1)
            if isinstance(a, (tuple, bytes, str)) and isinstance(i, int) and not isinstance(i, bool) and -len(a) <= i < len(a):
                return a[i]
            return NOCONST
        if isinstance(e, ast.Attribute):
            if e.attr == "size" and _struct_format(e.value) is not None and isinstance(e.value, ast.Call) and (
                    from_lib(e.value.func, "struct", "Struct")):
                try:
                    import struct
                    return struct.calcsize(_struct_format(e.value))
                except Exception:  # noqa: BLE001
                    return NOCONST
            if e.attr == "size" and isinstance(e.value, (ast.Name, ast.Attribute)):
                g = self._global_value(m, e.value.id) if isinstance(e.value, ast.Name) else self._class_attr_value(m, cls, e.value)
                if g is not None and _struct_format(g) is not None:
                    try:
                        import struct
                        return struct.calcsize(_struct_format(g))
                    except Exception:  # noqa: BLE001
                        return NOCONST
            if e.attr == "digest_size" and isinstance(e.value, ast.Call) and not e.value.args and not e.value.keywords:
                f = e.value.func
                for k, size in self._DIGEST.items():
                    if from_lib(f, "hashlib", k):
                        return size
                return NOCONST
            r = self.repo.resolve_const(m, e, cls)
            if r is not NOCONST:
                return r
            if isinstance(e.value, ast.Name):
                ci = cls if e.value.id in ("self", "cls") else self.repo.resolve_name(m, e.value.id)
                if ci is not None and not isinstance(ci, (tuple, FuncInfo)) and hasattr(ci, "mro"):
                    owner = next((c for c in ci.mro() if e.attr in c.attrs), None)
                    if owner is not None and e.attr not in self._stored_attrs():
                        return self._fold_value(owner.module, owner, owner.attrs[e.attr], depth + 1)
                if isinstance(ci, tuple) and ci[0] == "module" and ci[1] is not None:
                    return self._fold_value(ci[1], None, ast.Name(id=e.attr, ctx=ast.Load()), depth + 1)
            return NOCONST
        if isinstance(e, ast.Call) and not e.keywords and not any(isinstance(a, ast.Starred) for a in e.args):
            if from_lib(e.func, "struct", "calcsize") and len(e.args) == 1:
                fmt = self._fold_value(m, cls, e.args[0], depth + 1)
                try:
                    import struct
                    return struct.calcsize(fmt) if isinstance(fmt, (str, bytes)) else NOCONST
                except Exception:  # noqa: BLE001
                    return NOCONST
            name = e.func.id if isinstance(e.func, ast.Name) else None
            if name is None or not builtin(name):
                return NOCONST
            args = [self._fold_value(m, cls, a, depth + 1) for a in e.args]
            if any(a is NOCONST for a in args):
                return NOCONST
            try:
                if name == "len" and len(args) == 1 and isinstance(args[0], (bytes, str, tuple)):
                    return len(args[0])
                if name == "range" and 1 <= len(args) <= 3 and all(isinstance(a, int) and not isinstance(a, bool) for a in args) \
                        and len(range(*args)) <= 256:
                    return tuple(range(*args))
                if name in ("tuple", "list", "set", "frozenset") and len(args) == 1 and isinstance(args[0], tuple):
                    if name in ("set", "frozenset"):
                        out: list = []
                        for x in args[0]:
                            if x not in out:
                                out.append(x)
                        return tuple(out)
                    return args[0]
                if name == "sorted" and len(args) == 1 and isinstance(args[0], tuple):
                    return tuple(sorted(args[0]))
                if name in ("min", "max") and args and all(isinstance(a, int) for a in (args[0] if len(args) == 1 and isinstance(args[0], tuple) else args)):
                    return {"min": min, "max": max}[name](args[0] if len(args) == 1 else args)
                if name == "sum" and len(args) == 1 and isinstance(args[0], tuple) and all(isinstance(a, int) for a in args[0]):
                    return sum(args[0])
                if name == "abs" and len(args) == 1 and isinstance(args[0], int):
                    return abs(args[0])
                if name == "ord" and len(args) == 1 and isinstance(args[0], (str, bytes)) and len(args[0]) == 1:
                    return ord(args[0])
                if name in ("int", "bool") and len(args) == 1 and isinstance(args[0], int):
                    return {"int": int, "bool": bool}[name](args[0])
                if name == "bytes" and len(args) == 1 and isinstance(args[0], tuple) and all(isinstance(a, int) and 0 <= a < 256 for a in args[0]):
                    return bytes(args[0])
            except Exception:  # noqa: BLE001
                return NOCONST
        return NOCONST

    def _class_attr_value(self, m, cls, e: ast.Attribute) -> ast.AST | None:
        """`Class.NAME` / `self.NAME` / `cls.NAME` where NAME is a class-level table / Struct object that is never assigned elsewhere"""
        if not isinstance(e.value, ast.Name):
            return None
        ci = cls if e.value.id in ("self", "cls") else self.repo.resolve_name(m, e.value.id)
        if ci is None or isinstance(ci, (tuple, FuncInfo)) or not hasattr(ci, "lookup_attr"):
            return None
        owner = next((c for c in ci.mro() if e.attr in c.attrs or e.attr in c.methods), None)
        if owner is None or e.attr in owner.methods or e.attr in self._stored_attrs() or "*" in self._stored_attrs():
            return None
        if sum(1 for x in owner.node.body for t in ast.walk(x) if isinstance(t, ast.Name) and isinstance(t.ctx, ast.Store) and t.id == e.attr
               and not isinstance(x, (ast.FunctionDef, ast.AsyncFunctionDef, ast.ClassDef))) != 1:
            return None
        if any(e.attr in c.attrs for c in ci.all_subclasses() if c is not owner):
            return None
        cache = self.__dict__.setdefault("_globals", {})
        key = (owner.module.relpath, f"{owner.name}.{e.attr}")
        if key not in cache:
            cache[key] = None
            cache[key] = self._table_value(owner.module, owner, owner.attrs[e.attr], 0, top=True) \
                or self._scalar_value(owner.module, owner, e.attr, owner.attrs[e.attr], 0)
        return cache[key]

    def _table_value(self, m, cls, e: ast.AST, depth: int, top: bool = False) -> ast.AST | None:
        e = strip_cast(e)
        if _struct_format(e) is not None:
            return ast.Call(func=ast.Name(id="Struct", ctx=ast.Load()), args=[ast.Constant(value=_struct_format(e))], keywords=[])
        if isinstance(e, (ast.Tuple, ast.List, ast.Set)):
            elts = [self._table_value(m, cls, x, depth) for x in e.elts]
            return None if any(x is None for x in elts) else type(e)(elts=elts, **({} if isinstance(e, ast.Set) else {"ctx": ast.Load()}))
        if isinstance(e, ast.Dict):
            ks = [None if k is None else self._table_value(m, cls, k, depth) for k in e.keys]
            vs = [self._table_value(m, cls, v, depth) for v in e.values]
            return None if any(k is None for k in ks) or any(v is None for v in vs) else ast.Dict(keys=ks, values=vs)
        if isinstance(e, ast.Call) and chain(e.func) in ("tuple", "list", "frozenset", "set", "MappingProxyType", "types.MappingProxyType") \
                and len(e.args) == 1 and not e.keywords and isinstance(strip_cast(e.args[0]), (ast.Tuple, ast.List, ast.Set, ast.Dict)):
            inner = self._table_value(m, cls, e.args[0], depth)
            if inner is None:
                return None
            return inner if isinstance(inner, ast.Dict) or chain(e.func) in ("tuple", "list") else \
                ast.Call(func=ast.Name(id=chain(e.func), ctx=ast.Load()), args=[inner], keywords=[])
        if top:
            return None                     # only tables and Struct objects are substituted (a scalar constant keeps its name)
        if isinstance(e, ast.Constant):
            return ast.Constant(value=e.value)
        if isinstance(e, ast.Name):
            if cls is not None and e.id in cls.methods and e.id not in m.functions and e.id not in m.constants:
                # inside a class body a bare name is the function defined earlier in that body: Class.name
                return ast.Attribute(value=ast.Name(id=cls.name, ctx=ast.Load()), attr=e.id, ctx=ast.Load())
            g = self._global_value(m, e.id, depth + 1)
            return clone(g) if g is not None else ast.Name(id=e.id, ctx=ast.Load())
        if isinstance(e, ast.Attribute):
            en = self._enum_member(m, e)
            if en is not None:
                return en
            g = self._class_attr_value(m, cls, e) if depth < 6 else None
            if g is not None:
                return clone(g)
            return clone(e) if chain(e) is not None and "(" not in chain(e) and "[" not in chain(e) else None
        if isinstance(e, ast.Lambda):
            return clone(e)
        v = self.repo.resolve_const(m, e, cls)
        return None if v is NOCONST else _lit(v)

    def _enum_class(self, m, e: ast.AST):
        if isinstance(e, ast.Name):
            ci = self.repo.resolve_name(m, e.id)
        elif isinstance(e, ast.Attribute):
            cands = self.repo.classes.get(e.attr, [])
            ci = cands[0] if len(cands) == 1 else None
        else:
            return None
        if ci is None or isinstance(ci, (tuple, FuncInfo)) or not hasattr(ci, "base_names"):
            return None
        cache = self.__dict__.setdefault("_enums", {})
        if id(ci) not in cache:
            cache[id(ci)] = None
            kinds = {b.split(".")[-1] for b in ci.base_names}
            if (len(ci.base_names) == 1 and kinds <= {"Enum", "IntEnum", "StrEnum"} or len(ci.base_names) == 2 and kinds in ({"str", "Enum"}, {"int", "Enum"})) \
                    and not any(
                    k in ci.methods for k in ("__eq__", "__ne__", "__bool__", "__hash__", "__new__", "__init__", "_missing_", "_generate_next_value_")) \
                    and not ci.node.decorator_list and not ci.all_subclasses():
                members: dict[str, object] = {}
                autos = 0
                ok = True
                for st in ci.node.body:
                    if isinstance(st, ast.Assign) and len(st.targets) == 1 and isinstance(st.targets[0], ast.Name):
                        k = st.targets[0].id
                        if k.startswith("_") or k in members:
                            ok = False
                        elif isinstance(st.value, ast.Call) and chain(st.value.func) in ("auto", "enum.auto") and not st.value.args:
                            autos += 1
                            members[k] = len(members) + 1
                        else:
                            v = self.repo.resolve_const(ci.module, st.value, ci)
                            if v is NOCONST or isinstance(v, float):
                                ok = False
                            members[k] = v
                    elif not (isinstance(st, (ast.FunctionDef, ast.AsyncFunctionDef, ast.Pass))
                              or (isinstance(st, ast.Expr) and isinstance(st.value, ast.Constant))):
                        ok = False
                plain = kinds == {"Enum"}
                try:
                    distinct = len({(type(v).__name__, v) for v in members.values()}) == len(members)
                except TypeError:
                    distinct = False
                if ok and members and distinct and autos in (0, len(members)) and (plain or autos == 0) \
                        and not (set(members) & self._stored_attrs()):
                    cache[id(ci)] = (ci, members, plain)
        return cache[id(ci)]

    def _enum_member(self, m, e: ast.Attribute) -> ast.AST | None:
        """`Colour.RED` -> a constant that stands for the member (members of one enumeration are pairwise different objects, equal
        only to themselves; an IntEnum / StrEnum member behaves as its value); `Colour.RED.name` / `.value` -> the constant"""
        if e.attr in ("name", "value") and isinstance(e.value, ast.Attribute):
            en = self._enum_class(m, e.value.value)
            if en is not None and e.value.attr in en[1]:
                v = e.value.attr if e.attr == "name" else en[1][e.value.attr]
                return _lit(v)
            return None
        en = self._enum_class(m, e.value)
        if en is None or e.attr not in en[1]:
            return None
        ci, members, plain = en
        return ast.Constant(value=f"<enum {ci.module.relpath}:{ci.name}.{e.attr}>") if plain else _lit(members[e.attr])

    def _record(self, func: ast.AST):
        """(field names in constructor order | None for keyword-only, {field: default expr}, is_tuple) when `func` names a record class:
        typing.NamedTuple / collections.namedtuple / a dataclass without hand-written construction hooks / SimpleNamespace"""
        c = chain(func)
        if c is None:
            return None
        name = c.split(".")[-1]
        cache = self.__dict__.setdefault("_records", {})
        if name in cache:
            return cache[name]
        cache[name] = None
        if name == "SimpleNamespace":
            cache[name] = (None, {}, False) if not ({"*"} & self._stored_attrs()) else None
            return cache[name]
        cands = self.repo.classes.get(name, [])
        consts = [(m, m.constants[name]) for m in self.repo.modules.values() if name in m.constants]
        if len(cands) == 1 and not consts:
            ci = cands[0]
            is_nt = any(b.split(".")[-1] == "NamedTuple" for b in ci.base_names) and len(ci.base_names) == 1
            dc = [d for d in ci.node.decorator_list if (chain(d.func if isinstance(d, ast.Call) else d) or "").split(".")[-1] == "dataclass"]
            if not (is_nt or (dc and len(ci.node.decorator_list) == 1 and not ci.base_names)) or ci.all_subclasses():
                return None
            hooks = ("__init__", "__new__", "__post_init__", "__getattr__", "__getattribute__", "__setattr__", "__getitem__", "__eq__", "__bool__")
            if any(h in ci.methods for h in hooks):
                return None
            fields, defaults = [], {}
            for st in ci.node.body:
                if isinstance(st, ast.AnnAssign) and isinstance(st.target, ast.Name):
                    if "ClassVar" in norm(st.annotation) or "InitVar" in norm(st.annotation):
                        if "InitVar" in norm(st.annotation):
                            return None
                        continue
                    fields.append(st.target.id)
                    if st.value is not None:
                        v = st.value
                        if isinstance(v, ast.Call) and chain(v.func) in ("field", "dataclasses.field"):
                            kw = {k.arg: k.value for k in v.keywords}
                            if set(kw) - {"default", "repr", "compare", "hash"} or "default" not in kw:
                                defaults[st.target.id] = None
                                continue
                            v = kw["default"]
                        defaults[st.target.id] = v if const_value(v) is not NOCONST else None
            if any(f in ci.methods for f in fields) or not fields:
                return None
            frozen = is_nt or any(isinstance(d, ast.Call) and any(k.arg == "frozen" and const_value(k.value) is True for k in d.keywords) for d in dc)
            if any(k.arg not in ("frozen", "slots", "eq", "repr", "order", "unsafe_hash") for d in dc if isinstance(d, ast.Call) for k in d.keywords) \
                    or any(isinstance(d, ast.Call) and d.args for d in dc):
                return None
            if not frozen and (set(fields) & self._stored_attrs_near(ci) or "*" in self._stored_attrs_near(ci)):
                return None
            cache[name] = (fields, defaults, is_nt)
        elif not cands and len(consts) == 1:
            m, v = consts[0]
            if isinstance(v, ast.Call) and chain(v.func) in ("namedtuple", "collections.namedtuple", "NamedTuple", "typing.NamedTuple") and len(v.args) == 2 \
                    and not [k for k in v.keywords if k.arg != "defaults"] and self._bound_once(m, name):
                spec = v.args[1]
                names = None
                if isinstance(spec, ast.Constant) and isinstance(spec.value, str):
                    names = spec.value.replace(",", " ").split()
                elif isinstance(spec, (ast.Tuple, ast.List)) and all(isinstance(x, ast.Constant) and isinstance(x.value, str) for x in spec.elts):
                    names = [x.value for x in spec.elts]
                elif isinstance(spec, (ast.Tuple, ast.List)) and all(isinstance(x, ast.Tuple) and len(x.elts) == 2 and isinstance(x.elts[0], ast.Constant)
                                                                       and isinstance(x.elts[0].value, str) for x in spec.elts):
                    names = [x.elts[0].value for x in spec.elts]          # NamedTuple("N", [("a", int), ("b", str)])
                if names and not v.keywords:
                    cache[name] = (names, {}, True)
        return cache[name]

    def _record_field(self, call: ast.Call, field) -> ast.AST | None:
        """the constructor argument that `call`(a record construction).<field> / [<index>] reads"""
        rec = self._record(call.func)
        if rec is not None and any(isinstance(a, ast.Starred) for a in call.args):
            flat = []
            for a in call.args:                  # K(*(x, y), z) is K(x, y, z)
                if isinstance(a, ast.Starred) and isinstance(a.value, (ast.Tuple, ast.List)) and not any(isinstance(e, ast.Starred) for e in a.value.elts):
                    flat.extend(a.value.elts)
                else:
                    flat.append(a)
            call = ast.Call(func=call.func, args=flat, keywords=call.keywords)
        if rec is None or any(isinstance(a, ast.Starred) for a in call.args) or any(k.arg is None for k in call.keywords):
            return None
        fields, defaults, is_nt = rec
        if fields is None:                       # keyword-only namespace
            hit = [k.value for k in call.keywords if k.arg == field]
            return hit[0] if isinstance(field, str) and len(hit) == 1 and not call.args else None
        if isinstance(field, int):
            if not is_nt or not -len(fields) <= field < len(fields):
                return None
            field = fields[field]
        if field not in fields or len(call.args) > len(fields) or any(k.arg not in fields for k in call.keywords):
            return None
        i = fields.index(field)
        if i < len(call.args):
            return call.args[i]
        hit = [k.value for k in call.keywords if k.arg == field]
        if hit:
            return hit[0]
        d = defaults.get(field)
        return clone(d) if d is not None else None

    def _pure(self, x: ast.AST) -> bool:
        for n in ast.walk(x):
            if isinstance(n, _IMPURE_NODES) and not isinstance(n, ast.Starred):      # (unpacking an argument has no effect of its own)
                return False
            if isinstance(n, ast.Call):
                c = chain(n.func) or ""
                if not (c in _SIM_PURE or c.startswith("DataChecker.could_be_") or c.endswith(".get") or _struct_format(n) is not None
                        or c.startswith(("operator.", "itertools.")) or c == "functools.partial" or self._record(n.func) is not None):
                    return False
        return True

    def _expr_helper(self, fr: _Frame, call: ast.Call, st: _St, depth: int) -> ast.AST | None:
        """a new helper whose body is one `return <pure expression>` denotes that expression"""
        hs = self._callees(fr, call, st)
        if len(hs) != 1:
            return None
        h = hs[0]
        body = [s for s in h.node.body if not (isinstance(s, ast.Expr) and isinstance(s.value, ast.Constant))]
        if len(body) != 1 or not isinstance(body[0], ast.Return) or body[0].value is None or h.is_async:
            return None
        if self._body_marker(call, st) is None and self._wrapper(h) is not None:
            return None                     # (entered through the wrapper of its new decorator: walked, not substituted)
        env = self._bind(fr, h, call, st)
        if env is None:
            return None
        st2 = _St()
        st2.env = env
        x = self.C(_Frame(h, None, fr, call), body[0].value, st2, depth + 1)
        if not self._pure(x):
            return None
        self.followed.add(self._oid(call))
        self.helpers.add(h)
        return x

    # ---------------------------------------------------------------- truth values and facts
    @staticmethod
    def _volatile(k: tuple) -> bool:
        """the atom reads object state that a call with unknown effects may change (the policy inputs and `.enabled`, which
        only enable() sets and which the walk tracks, are not)"""
        for t in (k[1], k[2]):
            if t is None:
                continue
            for stable in ("self.is_allowed(", "self.overlay.get_prefix()", FLAGS):
                t = t.replace(stable, "")
            if "self." in t and not t.endswith(".enabled"):
                return True
        return False

    def _known(self, st: _St, k: tuple) -> bool | None:
        """outcome of atom k as far as it may be used to decide a later test of the same atom: a fact about mutable object state
        does not survive a call with unknown effects (it still counts as established on the path for the rules' questions)"""
        if k not in st.facts:
            return None
        if st.fepoch.get(k, st.epoch) != st.epoch and self._volatile(k):
            return None
        return st.facts[k]

    def tv(self, x: ast.AST, st: _St) -> bool | None:
        x = _as_cond(x, self)
        if isinstance(x, ast.Constant):
            return bool(x.value)
        if isinstance(x, (ast.Tuple, ast.List)) and not any(isinstance(e, ast.Starred) for e in x.elts):
            return bool(x.elts)
        if isinstance(x, ast.UnaryOp) and isinstance(x.op, ast.Not):
            t = self.tv(x.operand, st)
            return None if t is None else not t
        if isinstance(x, ast.Call) and chain(x.func) == "bool" and len(x.args) == 1 and not x.keywords:
            return self.tv(x.args[0], st)
        if isinstance(x, ast.Call) and chain(x.func) in ("any", "all") and len(x.args) == 1 and not x.keywords:
            seq = _literal_items(x.args[0])
            if seq is not None:       # any((a, b, c)) is `a or b or c` as far as its truth value goes
                op = ast.Or() if chain(x.func) == "any" else ast.And()
                return self.tv(ast.BoolOp(op=op, values=seq), st) if seq else chain(x.func) == "all"
        if isinstance(x, ast.BoolOp):
            ts = [self.tv(v, st) for v in x.values]
            if isinstance(x.op, ast.And):
                if any(t is False for t in ts):
                    return False
                if all(t is True for t in ts):
                    return True
            else:
                if any(t is True for t in ts):
                    return True
                if all(t is False for t in ts):
                    return False
            return self._known(st, ("truthy", norm(x), None))
        if isinstance(x, ast.IfExp):
            t = self.tv(x.test, st)
            if t is not None:
                return self.tv(x.body if t else x.orelse, st)
            a, b = self.tv(x.body, st), self.tv(x.orelse, st)
            return a if a == b else self._known(st, ("truthy", norm(x), None))
        if isinstance(x, ast.Compare) and len(x.ops) > 1:
            ts = []
            left = x.left
            for op, right in zip(x.ops, x.comparators):
                ts.append(self.tv(ast.Compare(left=left, ops=[op], comparators=[right]), st))
                left = right
            if any(t is False for t in ts):
                return False
            if all(t is True for t in ts):
                return True
            return self._known(st, ("truthy", norm(x), None))
        f = fact_of(x, True)
        k = _fkey(f)
        v = self._known(st, k)
        if v is not None:
            return v == f.pos
        if isinstance(x, ast.Compare):
            a, b = const_value(x.left), const_value(x.comparators[0])
            fn = _CMP.get(type(x.ops[0]))
            if isinstance(x.ops[0], (ast.Is, ast.IsNot)) and all(v is None or isinstance(v, bool) for v in (a, b)):
                return (a is b) == isinstance(x.ops[0], ast.Is)
            if isinstance(x.ops[0], (ast.Is, ast.IsNot)) and all(isinstance(v, str) and v.startswith("<enum ") for v in (a, b)):
                return (a == b) == isinstance(x.ops[0], ast.Is)          # two members of enumerations: the same object iff the same member
            if isinstance(x.ops[0], (ast.Is, ast.IsNot)) and (a is None or b is None):
                other = x.comparators[0] if a is None else x.left
                if _never_none(other):
                    return isinstance(x.ops[0], ast.IsNot)
            if a is not NOCONST and b is not NOCONST and fn is not None:
                try:
                    return bool(fn(a, b))
                except Exception:  # noqa: BLE001
                    return None
        return None

    def _set(self, st: _St, g: Fact) -> bool:
        if g.op == "truthy":
            l = strip_cast(g.left)
            while isinstance(l, ast.Call) and chain(l.func) == "bool" and len(l.args) == 1 and not l.keywords:
                l = strip_cast(l.args[0])
            if l is not g.left:
                g = Fact("truthy", l, None, g.pos, l)
        k = _fkey(g)
        if self._known(st, k) is not None:
            return st.facts[k] == g.pos
        st.facts[k] = g.pos
        st.fobj[k] = g
        st.fepoch[k] = st.epoch
        ok = True
        if g.op in ("is", "eq"):
            for a, b in ((g.left, g.right), (g.right, g.left)):
                if isinstance(b, ast.Constant) and b.value is None and g.op == "is" and g.pos:
                    ok = ok and self._set(st, Fact("truthy", a, None, False, a))
                if isinstance(b, ast.Constant) and isinstance(b.value, bool):
                    ok = ok and self._set(st, Fact("truthy", a, None, g.pos == b.value, a))
        elif g.op == "truthy" and g.pos and not isinstance(g.left, ast.Constant):
            none = ast.Constant(value=None)
            ok = ok and self._set(st, Fact("is", g.left, none, False, ast.Compare(left=g.left, ops=[ast.Is()], comparators=[none])))
        elif g.op == "in" and isinstance(g.right, (ast.Tuple, ast.List, ast.Set)) \
                and not any(isinstance(e, ast.Starred) for e in g.right.elts) and (not g.pos or len(g.right.elts) == 1):
            for e in g.right.elts:
                ok = ok and self._set(st, Fact("eq", g.left, e, g.pos, ast.Compare(left=g.left, ops=[ast.Eq()], comparators=[e])))
        return ok

    def assume(self, x: ast.AST, lab: bool, st: _St) -> bool:
        """record that canonical condition x evaluated to lab; False when that contradicts the path so far"""
        x = _as_cond(x, self)
        t = self.tv(x, st)
        if t is not None:
            return t == lab
        atoms = _atoms_with_polarity(x, lab)
        st.assumed = (*st.assumed, norm(x))
        st.trail = (*st.trail, (x, lab))
        for g in atoms:
            if not self._set(st, g):
                return False
        if not (len(atoms) == 1 and atoms[0].atom is x):
            st.facts[("truthy", norm(x), None)] = lab
            st.fepoch[("truthy", norm(x), None)] = st.epoch
        return True

    def _kill(self, st: _St, text: str, *, store: bool = True) -> None:
        """something stored into `text`: facts and locals that mention it no longer describe the current state"""
        if store:
            st.stored = (*st.stored, text)
        for k in [k for k in st.facts if text in k[1] or (k[2] is not None and text in k[2])]:
            st.facts.pop(k)
            st.fobj.pop(k, None)
        for name, v in list(st.env.items()):
            if text in norm(v) and not (isinstance(v, ast.Name) and v.id == name):
                st.env[name] = ast.Name(id=f"{name}#stale", ctx=ast.Load())

    # ---------------------------------------------------------------- nodes
    def _opaque(self, fr: _Frame, name: str, u, st: _St | None = None) -> ast.AST:
        single = len(local_defs(fr.fi, name)) + (1 if name in fr.fi.params() else 0) == 1
        tag = name if single else f"{name}#{u.id}"
        turn = sum(v for k, v in st.iters.items() if k[0] == fr.key) if st is not None else 0
        if turn:
            tag += f"!{turn}"               # a new unknown value in every turn of an unrolled loop
        return ast.Name(id=tag if fr.depth == 0 else f"{tag}@{fr.fi.name}", ctx=ast.Load())

    def _lazy_rows(self, val: ast.AST) -> bool:
        """val is a tuple / list display (possibly nested: a table of rows) whose leaves are pure expressions or
        lambdas with pure bodies (lazily evaluated predicates / permissions).  Building the display evaluates only the pure leaves; a
        lambda in it denotes its body, evaluated where it is applied (C() closed it over the locals when it was written, _finish
        refuses lambdas whose free locals are rebound)"""
        if not isinstance(val, (ast.Tuple, ast.List)) or any(isinstance(e, ast.Starred) for e in val.elts):
            return False
        for e in val.elts:
            if isinstance(e, ast.Lambda):
                a = e.args
                if a.vararg or a.kwarg or a.kwonlyargs or a.defaults or not self._pure(e.body):
                    return False
            elif not (self._pure(e) or self._lazy_rows(e)):
                return False
        return True

    @staticmethod
    def _late_bound(fi: FuncInfo, value: ast.AST) -> bool:
        """the expression writes a lambda that reads a local of fi which is bound more than once: the lambda sees the binding current
        when it is APPLIED, which the substitution made when it is written does not model"""
        for lam in [n for n in ast.walk(value) if isinstance(n, ast.Lambda)]:
            a = lam.args
            own = {q.arg for q in [*a.posonlyargs, *a.args, *a.kwonlyargs, *([a.vararg] if a.vararg else []), *([a.kwarg] if a.kwarg else [])]}
            for n in ast.walk(lam.body):
                if isinstance(n, ast.Name) and n.id not in own:
                    if len(local_defs(fi, n.id)) + (1 if n.id in fi.params() else 0) > 1:
                        return True
        return False

    def _bind_target(self, fr: _Frame, t: ast.AST, val: ast.AST | None, st: _St, u) -> None:
        """val: canonical value or None (unknown)"""
        if isinstance(t, ast.Name):
            if isinstance(val, ast.Lambda) and self._pure(val.body):
                free = {k: v for k, v in st.env.items() if k not in {a.arg for a in val.args.posonlyargs + val.args.args}}
                st.env[t.id] = ast.Lambda(args=val.args, body=_subst_names(val.body, free))
                return
            st.env[t.id] = val if val is not None and (self._pure(val) or self._lazy_rows(val)) else self._opaque(fr, t.id, u, st)
        elif isinstance(t, (ast.Tuple, ast.List)):
            star = next((i for i, e in enumerate(t.elts) if isinstance(e, ast.Starred)), None)
            for i, e in enumerate(t.elts):
                if isinstance(e, ast.Starred):
                    self._bind_target(fr, e.value, None, st, u)
                    continue
                sub = None
                if val is not None:
                    # `a, *rest, z = v`: a is v[0], z is v[-1]
                    idx = i if star is None or i < star else i - len(t.elts)
                    sub = _Canon2(self.hop_address, self).visit(ast.Subscript(value=clone(val), slice=ast.Constant(value=idx), ctx=ast.Load()))
                self._bind_target(fr, e, sub, st, u)
        else:
            self._kill(st, norm(self.C(fr, t, st)))

    def _effects(self, fr: _Frame, u, st: _St, commit: bool) -> None:
        """what evaluating the node's own expressions does to the state (commit=False: the node raised part-way)"""
        self._walrus = []
        self._effects1(fr, u, st, commit)
        for name, val in self._walrus:           # bound after everything was evaluated in the state before the node
            st.env[name] = val if self._pure(val) else self._opaque(fr, name, u)
        if not commit:
            for e in _own_exprs(u):
                for n in _all_exprs(e):
                    if isinstance(n, ast.NamedExpr):
                        st.env[n.target.id] = self._opaque(fr, n.target.id, u)

    def _effects1(self, fr: _Frame, u, st: _St, commit: bool) -> None:
        for e in _own_exprs(u):
            for n in _all_exprs(e):
                if isinstance(n, ast.Call) and self._unknown_effects(n) and id(n) not in self.followed:
                    st.epoch += 1           # (a walked helper's own calls were counted while it was walked)
            for n in (_uncond(e) if commit else _all_exprs(e)):
                if isinstance(n, ast.Await):
                    for k in list(st.facts):
                        if "self." in k[1] or (k[2] and "self." in k[2]):
                            st.facts.pop(k)
                            st.fobj.pop(k, None)
                elif isinstance(n, ast.Call) and self._enable_receiver(fr, n, st) is not None:
                    r = self._enable_receiver(fr, n, st)
                    en = ast.Attribute(value=r, attr="enabled", ctx=ast.Load())
                    self._kill(st, norm(en), store=False)
                    if commit:
                        self._set(st, Fact("truthy", en, None, True, en))
                elif commit and isinstance(n, ast.NamedExpr):
                    self._walrus.append((n.target.id, self.C(fr, n.value, st)))
                elif commit and isinstance(n, ast.Subscript) and isinstance(n.ctx, ast.Load) and not isinstance(n.slice, ast.Slice):
                    base = self.C(fr, n.value, st)
                    if norm(base) in _TABLE_ATTRS:
                        k = self.C(fr, n.slice, st)
                        self._set(st, Fact("in", k, base, True, ast.Compare(left=k, ops=[ast.In()], comparators=[base])))
            if not commit:
                continue
            for n in _all_exprs(e):         # conditionally evaluated enable(): unknown afterwards
                if isinstance(n, ast.Call) and n not in set(_uncond(e)) and self._enable_receiver(fr, n, st) is not None:
                    self._kill(st, norm(ast.Attribute(value=self._enable_receiver(fr, n, st), attr="enabled", ctx=ast.Load())), store=False)

    def _unknown_effects(self, c: ast.Call) -> bool:
        ch = chain(c.func) or ""
        f = enclosing_function(c)
        info = getattr(f, "_info", None) if f is not None else None
        if info is not None and (self._lib_ref(info.module, c.func) or "").startswith(("operator.", "itertools.", "functools.partial")):
            return False                    # pure library functions (what a partial / methodcaller later calls is judged where it is called)
        if isinstance(c.func, ast.Attribute) and c.func.attr in ("unpack_from", "unpack") and call_may_raise(c) \
                and info is not None and isinstance(c.func.value, (ast.Name, ast.Attribute)) and chain(c.func.value) is not None:
            v = self._global_value(info.module, c.func.value.id) if isinstance(c.func.value, ast.Name) else \
                self._class_attr_value(info.module, info.cls, c.func.value)
            if v is not None and _struct_format(v) is not None:
                return False                # reading through a precompiled struct.Struct
        if not call_may_raise(c) or ch in _SIM_PURE or ch.startswith("DataChecker.could_be_") or ch.endswith((".get", ".enable")):
            return False
        return ch not in ("UDPv4Address", "UDPv6Address", "DomainAddress")

    def _finish(self, fr: _Frame, u, st: _St, value: ast.AST | None, given: bool) -> list:
        """the node's own evaluation completed normally (a followed helper call inside it returned `value`)"""
        a = u.ast
        if u.kind == "cond":
            x = value if given else self.C(fr, a, st)
            if given and value is None:
                x = self._opaque(fr, f"ret{u.id}", u)
            out = []
            for lab in (True, False):
                st2 = st.copy()
                self._effects(fr, u, st2, True)
                if self.assume(x, lab, st2):
                    out.append((lab, st2))
            return out
        st2 = st.copy()
        self._effects(fr, u, st2, True)
        if isinstance(a, (ast.Assign, ast.AnnAssign)) and a.value is not None:
            val = value if given else self.C(fr, a.value, st)
            if self._late_bound(fr.fi, a.value):
                val = None
            for t in (a.targets if isinstance(a, ast.Assign) else [a.target]):
                self._bind_target(fr, t, val, st2, u)
        elif isinstance(a, ast.AugAssign):
            if isinstance(a.target, ast.Name):
                cur, step = st.env.get(a.target.id), self.C(fr, a.value, st)
                if _is_int_const(cur) and _is_int_const(step) and type(a.op) in _BINOPS:
                    new = _Canon2(self.hop_address, self).visit(ast.BinOp(left=clone(cur), op=a.op, right=step))
                    st2.env[a.target.id] = new if _is_int_const(new) else self._opaque(fr, a.target.id, u)
                else:
                    st2.env[a.target.id] = self._opaque(fr, a.target.id, u)
            else:
                self._kill(st2, norm(self.C(fr, a.target, st)))
        elif isinstance(a, ast.Delete):
            for t in a.targets:
                if not isinstance(t, ast.Name):
                    self._kill(st2, norm(self.C(fr, t, st)))
        elif isinstance(a, ast.Return):
            v = value if given else (self.C(fr, a.value, st) if a.value is not None else ast.Constant(value=None))
            st2.ret = v if v is not None and self._pure(v) else self._opaque(fr, f"ret{u.id}", u)
        elif isinstance(a, (ast.With, ast.AsyncWith)):
            for i in a.items:
                if i.optional_vars is not None:
                    self._bind_target(fr, i.optional_vars, None, st2, u)
        elif isinstance(a, ast.expr):
            if given and value is not None:
                st2.env["%subject"] = value         # the value of a `match` subject that was computed by a walked helper
            else:
                st2.env.pop("%subject", None)
            p = parent(a)
            if isinstance(p, (ast.For, ast.AsyncFor)) and p.iter is a:
                for ln in fr.cfg.by_ast.get(id(p), []):
                    st2.iters.pop((fr.key, ln.id), None)
                    st2.gens.pop((fr.key, ln.id), None)
        return [(None, st2)]

    def _eval_node(self, fr: _Frame, u, st: _St) -> list:
        k = u.kind
        if k == "dispatch":
            return [("exc", st)]
        if k == "handler":
            st2 = st.copy()
            if u.ast is not None and u.ast.name:
                st2.env[u.ast.name] = self._opaque(fr, u.ast.name, u)
            return [(None, st2)]
        if k == "loop":
            return self._eval_loop(fr, u, st)
        if k not in ("stmt", "cond"):
            return [(None, st)]
        exprs = _own_exprs(u)
        calls_here = [n for e in exprs for n in _all_exprs(e) if isinstance(n, ast.Call)]
        for c in [n for e in exprs for n in _all_exprs(e) if isinstance(n, (ast.Call, ast.Subscript))]:
            tag = self.site_of(c)
            if tag:
                self._at_site(fr, c, tag, st)
            elif isinstance(c, ast.Call) and self._indirect(c, st):
                # a call through a local that holds a bound method / functools.partial / operator.methodcaller / lambda (or through
                # such an expression directly) is the call it denotes
                eff = self.C(fr, c, st)
                tag = self.site_of(eff) if isinstance(eff, ast.Call) else None
                if tag:
                    self._at_site(fr, c, tag, st, effective=eff)
        for g in [n for e in exprs for n in _all_exprs_with_comprehensions(e) if isinstance(n, (ast.GeneratorExp, ast.ListComp))]:
            self._sites_in_comprehension(fr, g, st, u)
        has_exc = any(l == "exc" for _, l in u.succ)
        a = u.ast
        top = a if u.kind == "cond" or isinstance(a, ast.expr) else \
            getattr(a, "value", None) if isinstance(a, (ast.Expr, ast.Assign, ast.AnnAssign, ast.Return)) else None
        fcalls = [c for c in calls_here if self._walkable(fr, c, st)]
        res: list = []
        if fcalls and top is not None and all(any(n is c for n in _all_exprs(top)) for c in fcalls):
            # the helpers called in the node's expression are walked in evaluation order (forking on the short-circuit
            # conditions in front of them); what they return stands in their place
            for kind, e2, st2 in self._hoist_calls(fr, top, st):
                if kind == "exc":
                    if has_exc:
                        res.append(("exc", st2))
                else:
                    res.extend(self._finish(fr, u, st2, self.C(fr, e2, st2), True))
            if has_exc:
                st2 = st.copy()
                self._effects(fr, u, st2, False)
                res.append(("exc", st2))
            return res
        for c in fcalls:
            for h in self._callees(fr, c, st):
                if self._has_effects(h):
                    raise AnalysisError(f"undecided: {fr.fi.qualname} calls new helper {h.qualname} (which has effects the rule tracks) "
                                        f"in a position the walk does not model: `{norm(c)[:80]}`")
            self._call(fr, c, st.copy())
        res = self._finish(fr, u, st, None, False)
        if has_exc:
            st2 = st.copy()
            self._effects(fr, u, st2, False)
            res.append(("exc", st2))
        return res

    def _walkable(self, fr: _Frame, c: ast.Call, st: _St) -> bool:
        """a call of a new helper that has to be walked (one-expression helpers are substituted by C()), or any() / all() / next()
        over a new generator helper"""
        if chain(c.func) in ("any", "all", "next") and c.args and isinstance(strip_cast(c.args[0]), ast.Call) \
                and self._callees(fr, strip_cast(c.args[0]), st, gen=True):
            return True
        return bool(self._callees(fr, c, st)) and self._expr_helper(fr, c, st, 0) is None

    def _oid(self, n: ast.AST) -> int:
        return self._orig.get(id(n), id(n))

    def _replace(self, e: ast.AST, old: ast.AST, new: ast.AST) -> ast.AST:
        """copy of e with the node `old` replaced; sub-trees that do not contain it are shared (their nodes keep their identity)"""
        if e is old:
            return new
        if not any(n is old for n in ast.walk(e)):
            return e
        cp = type(e)()
        for f in e._fields:
            if not hasattr(e, f):
                continue
            v = getattr(e, f)
            if isinstance(v, ast.AST):
                v = self._replace(v, old, new)
            elif isinstance(v, list):
                v = [self._replace(x, old, new) if isinstance(x, ast.AST) else x for x in v]
            setattr(cp, f, v)
        self._orig[id(cp)] = self._oid(e)
        self._keep.append(cp)
        return cp

    def _hoist_calls(self, fr: _Frame, e: ast.AST, st: _St, depth: int = 0) -> list:
        """[("ok", e', state) | ("exc", None, state)]: e with every walked helper call replaced by a placeholder local that holds
        what the helper returned on that path"""
        pending = [c for c in _all_exprs(e) if isinstance(c, ast.Call) and self._walkable(fr, c, st)]
        if not pending or depth > 12:
            return [("ok", e, st)]
        now = [c for c in _uncond(e) if any(c is p for p in pending)]
        now = [c for c in now if not any(p is not c and any(n is p for n in ast.walk(c)) for p in pending)]       # innermost first
        out: list = []
        if now:
            c = now[-1] if len(now) == 1 else min(now, key=lambda n: (getattr(n, "lineno", 0), getattr(n, "col_offset", 0)))
            consumed = self._consume(fr, c, st)
            for kind, ret, st2 in (consumed if consumed is not None else self._call(fr, c, st)):
                if kind == "exc":
                    out.append(("exc", None, st2))
                    continue
                self._nph += 1
                ph = f"ret%{self._nph}"
                st2.env[ph] = ret if ret is not None and self._pure(ret) else ast.Name(id=f"{ph}@{fr.fi.name}", ctx=ast.Load())
                out.extend(self._hoist_calls(fr, self._replace(e, c, ast.Name(id=ph, ctx=ast.Load())), st2, depth + 1))
            return out
        # only conditionally evaluated ones are left: decide the condition in front of the first of them
        for k in _uncond(e):
            if isinstance(k, ast.BoolOp) and any(any(n is p for n in _all_exprs(v)) for v in k.values[1:] for p in pending):
                i = next(i for i, v in enumerate(k.values) if i and any(n is p for n in _all_exprs(v) for p in pending))
                head = k.values[0] if i == 1 else ast.BoolOp(op=k.op, values=k.values[:i])
                tail = k.values[i] if i == len(k.values) - 1 else ast.BoolOp(op=k.op, values=k.values[i:])
                for lab in (True, False):
                    st2 = st.copy()
                    if not self.assume(self.C(fr, head, st2), lab, st2):
                        continue
                    # `a and b` is b when a is truthy, else a;  `a or b` is a when a is truthy, else b
                    value = tail if lab == isinstance(k.op, ast.And) else head
                    out.extend(self._hoist_calls(fr, self._replace(e, k, value), st2, depth + 1))
                return out
            if isinstance(k, ast.IfExp) and any(any(n is p for n in _all_exprs(v)) for v in (k.body, k.orelse) for p in pending):
                for lab in (True, False):
                    st2 = st.copy()
                    if self.assume(self.C(fr, k.test, st2), lab, st2):
                        out.extend(self._hoist_calls(fr, self._replace(e, k, k.body if lab else k.orelse), st2, depth + 1))
                return out
        raise AnalysisError(f"undecided: cannot order the helper calls in `{norm(e)[:80]}`")

    def _has_effects(self, h: FuncInfo) -> bool:
        for n in walk_no_nested(h.node):
            if isinstance(n, ast.Call) and (self.site_of(n) or (isinstance(n.func, ast.Attribute) and n.func.attr == "enable")):
                return True
            if isinstance(n, (ast.Assign, ast.AugAssign, ast.AnnAssign, ast.Delete)):
                tg = n.targets if isinstance(n, (ast.Assign, ast.Delete)) else [n.target]
                if any(not isinstance(e, ast.Name) for t in tg for e in (t.elts if isinstance(t, (ast.Tuple, ast.List)) else [t])):
                    return True
        return False

    # ---------------------------------------------------------------- generator helpers
    @staticmethod
    def _straight_gen(g: FuncInfo) -> list | None:
        """the yield / yield-from expressions of a generator whose body is nothing but a straight line of them"""
        body = [x for x in g.node.body if not (isinstance(x, ast.Expr) and isinstance(x.value, ast.Constant))]
        if not body or g.is_async or not all(isinstance(x, ast.Expr) and isinstance(x.value, (ast.Yield, ast.YieldFrom)) and x.value.value is not None
                                             for x in body):
            return None
        return [x.value for x in body]

    def _gen_items(self, fr: _Frame, call: ast.Call, st: _St, depth: int) -> ast.AST | None:
        """a call of a new straight-line generator (`yield a; yield from (b, c)`) denotes the sequence of its items"""
        if not self.new_funcs or depth >= 3:
            return None
        hs = self._callees(fr, call, st, gen=True)
        ys = self._straight_gen(hs[0]) if len(hs) == 1 else None
        if ys is None:
            return None
        env = self._bind(fr, hs[0], call, st)
        if env is None:
            return None
        st2 = _St()
        st2.env = env
        hfr = _Frame(hs[0], None, fr, call)
        items: list = []
        for y in ys:
            v = self.C(hfr, y.value, st2, depth + 1)
            if isinstance(y, ast.Yield):
                items.append(v)
            else:
                sub = _literal_items(v)
                if sub is None:
                    return None
                items.extend(sub)
        if not all(self._pure(x) for x in items):
            return None
        self.followed.add(self._oid(call))
        self.helpers.add(hs[0])
        return ast.Tuple(elts=items, ctx=ast.Load())

    def _gen_start(self, fr: _Frame, call: ast.AST, st: _St) -> tuple | None:
        """(frame, entry node, environment, used edges) of the new generator helper that `call` creates, or None"""
        call = strip_cast(call)
        if not isinstance(call, ast.Call):
            return None
        hs = self._callees(fr, call, st, gen=True)
        if not hs:
            return None
        if len(hs) == 1 and any(isinstance(y, ast.YieldFrom) for y in (self._straight_gen(hs[0]) or [])):
            return None                     # (read as the literal sequence of its items by C())
        if len(hs) > 1:
            raise AnalysisError(f"undecided: `{norm(call)[:80]}` may create several different new generators")
        env = self._bind(fr, hs[0], call, st)
        if env is None:
            raise AnalysisError(f"undecided: cannot bind the arguments of `{norm(call)[:80]}` to new generator {hs[0].qualname}")
        self.followed.add(self._oid(call))
        self.helpers.add(hs[0])
        gfr = _Frame(hs[0], self.ctx.cfg(hs[0]), fr, call)
        gfr.is_gen = True
        return gfr, gfr.cfg.entry, env, frozenset()

    def _gen_advance(self, gen: tuple, st: _St) -> list:
        """run the suspended generator up to its next yield / its end: [("yield", value, state, gen') | ("end", None, state, None) |
        ("exc", None, state, None)]; the returned states carry the CALLER's environment again"""
        gfr, node, genv, gused = gen
        st2 = st.copy()
        caller_env, caller_ret = st2.env, st2.ret
        st2.env, st2.ret = dict(genv), None
        raw: list = []
        self._dfs(gfr, node, st2, gused, raw)
        out = []
        for item in raw:
            kind, val, st3 = item[0], item[1], item[2].copy()
            nxt = (gfr, item[3][0], dict(st3.env), item[3][1]) if kind == "yield" else None
            st3.env, st3.ret = dict(caller_env), caller_ret
            out.append(("end" if kind == "ret" else kind, val if kind == "yield" else None, st3, nxt))
        return out

    def _consume(self, fr: _Frame, call: ast.Call, st: _St) -> list | None:
        """any(G) / all(G) / next(G[, default]) over a walked generator helper G: [(kind, value, state)] like _call, else None"""
        name = chain(call.func)
        if name not in ("any", "all", "next") or not call.args or call.keywords or len(call.args) > (2 if name == "next" else 1):
            return None
        gen = self._gen_start(fr, call.args[0], st)
        if gen is None:
            return None
        out: list = []
        todo = [(gen, st)]
        while todo:
            g, s = todo.pop()
            for kind, val, s2, nxt in self._gen_advance(g, s):
                if kind == "exc":
                    out.append(("exc", None, s2))
                elif kind == "end":
                    if name == "next":
                        if len(call.args) == 2:
                            out.append(("ret", self.C(fr, call.args[1], s2), s2))
                        else:
                            out.append(("exc", None, s2))       # StopIteration
                    else:
                        out.append(("ret", ast.Constant(value=name == "all"), s2))
                elif name == "next":
                    out.append(("ret", val, s2))
                else:
                    stop, go = s2.copy(), s2.copy()
                    if self.assume(val, name == "any", stop):         # any() stops at the first truthy item, all() at the first falsy one
                        out.append(("ret", ast.Constant(value=name == "any"), stop))
                    if self.assume(val, name != "any", go):
                        todo.append((nxt, go))
        return out

    def _eval_loop(self, fr: _Frame, u, st: _St) -> list:
        s = u.ast
        if isinstance(s, ast.For):
            gkey = (fr.key, u.id)
            gen = st.gens.get(gkey) or self._gen_start(fr, s.iter, st)
            if gen is not None:
                # a loop over a new generator helper: its body runs once per yield, the generator resumes when the body falls
                # through / continues
                res = []
                for kind, val, st2, nxt in self._gen_advance(gen, st):
                    if kind == "yield":
                        st2.gens[gkey] = nxt
                        st2.iters[gkey] = st2.iters.get(gkey, 0) + 1
                        self._bind_target(fr, s.target, val, st2, u)
                        res.append((True, st2))
                    elif kind == "end":
                        st2.gens.pop(gkey, None)
                        st2.iters.pop(gkey, None)
                        res.append((False, st2))
                    else:
                        res.append(("exc", st2))
                return res
            it = self.C(fr, s.iter, st)
            if isinstance(it, (ast.Tuple, ast.List)) and not any(isinstance(e, ast.Starred) for e in it.elts):
                # a loop over a literal sequence is the sequence of its bodies
                k = st.iters.get((fr.key, u.id), 0)
                st2 = st.copy()
                if k < len(it.elts):
                    st2.iters[(fr.key, u.id)] = k + 1
                    self._bind_target(fr, s.target, it.elts[k], st2, u)
                    return [(True, st2)]
                st2.iters.pop((fr.key, u.id), None)
                return [(False, st2)]
        st2 = st.copy()
        body = [n for b in s.body for n in ast.walk(b)]
        drastic = any(isinstance(n, (ast.Await, ast.AsyncFor, ast.AsyncWith)) or
                      (isinstance(n, ast.Call) and isinstance(n.func, ast.Attribute) and n.func.attr == "enable") or
                      (isinstance(n, (ast.Attribute, ast.Subscript)) and isinstance(n.ctx, (ast.Store, ast.Del))) for n in body) \
            or isinstance(s, ast.AsyncFor)
        if drastic:
            # what the body may change: `.enabled` (enable()), the attributes / items it stores into, object state across an await
            texts = set()
            for n in body:
                if isinstance(n, (ast.Await, ast.AsyncFor, ast.AsyncWith)) or isinstance(s, ast.AsyncFor):
                    texts.add("self.")
                elif isinstance(n, ast.Call) and isinstance(n.func, ast.Attribute) and n.func.attr == "enable":
                    texts.add(".enabled")
                elif isinstance(n, ast.Attribute) and isinstance(n.ctx, (ast.Store, ast.Del)):
                    texts.add("." + n.attr)
                elif isinstance(n, ast.Subscript) and isinstance(n.ctx, (ast.Store, ast.Del)):
                    texts.add(norm(self.C(fr, n.value, st2)))
            for t in texts:
                self._kill(st2, t, store=t not in ("self.", ".enabled"))
        names = {n.id for n in body if isinstance(n, ast.Name) and isinstance(n.ctx, (ast.Store, ast.Del))}
        if isinstance(s, (ast.For, ast.AsyncFor)):
            names |= {n.id for n in ast.walk(s.target) if isinstance(n, ast.Name)}
        if isinstance(s, ast.While):
            # an explicit index (`i = 0; while i < n: ..; i += 1`): a local that currently holds an integer constant and that the body
            # only steps by constants keeps its value - every pass of the loop head is walked with the index it has on that path
            # (bounded: after 64 passes the index is unknown like any other local the body assigns)
            key = (fr.key, u.id)
            turn = st.iters.get(key, 0)
            steps = self._index_steps(s)
            keep = {k for k in names if k in steps and _is_int_const(st.env.get(k))} if turn < 64 else set()
            if keep:
                st2.iters[key] = turn + 1
                names -= keep
            else:
                st2.iters.pop(key, None)
        for name in names:
            tok = self._opaque(fr, name, u)
            tok.id += "~"
            st2.env[name] = tok
        if isinstance(s, (ast.For, ast.AsyncFor)):
            return [(True, st2), (False, st2.copy())]
        return [(None, st2)]

    @staticmethod
    def _index_steps(loop: ast.While) -> set[str]:
        """locals that the loop body assigns only as `x += c` / `x -= c` / `x = x + c` / `x = x - c` with an integer constant c"""
        ok: set[str] = set()
        bad: set[str] = set()
        for b in loop.body + loop.orelse:
            for n in ast.walk(b):
                if isinstance(n, ast.AugAssign) and isinstance(n.target, ast.Name):
                    (ok if isinstance(n.op, (ast.Add, ast.Sub)) and _is_int_const(n.value) else bad).add(n.target.id)
                elif isinstance(n, ast.Assign) and len(n.targets) == 1 and isinstance(n.targets[0], ast.Name):
                    v = n.value
                    good = isinstance(v, ast.BinOp) and isinstance(v.op, (ast.Add, ast.Sub)) and isinstance(v.left, ast.Name) \
                        and v.left.id == n.targets[0].id and _is_int_const(v.right)
                    (ok if good else bad).add(n.targets[0].id)
                elif isinstance(n, ast.Name) and isinstance(n.ctx, (ast.Store, ast.Del)):
                    p = parent(n)
                    if not (isinstance(p, (ast.AugAssign, ast.Assign)) and (getattr(p, "target", None) is n or n in getattr(p, "targets", []))):
                        bad.add(n.id)
                elif isinstance(n, _NEST) and any(isinstance(x, (ast.Nonlocal, ast.Global)) for x in ast.walk(n)):
                    return set()
        return ok - bad

    # ---------------------------------------------------------------- sites
    def _sites_in_comprehension(self, fr: _Frame, g: ast.AST, st: _St, u) -> None:
        """a generator / list comprehension over a literal sequence evaluates its element once per item"""
        if len(g.generators) != 1 or g.generators[0].ifs or g.generators[0].is_async:
            return
        gen = g.generators[0]
        items = _literal_items(self.C(fr, gen.iter, st))
        if items is None:
            return
        inner = [n for n in _all_exprs(g.elt) if isinstance(n, (ast.Call, ast.Subscript)) and self.site_of(n)]
        if not inner:
            return
        for it in items:
            st2 = st.copy()
            self._bind_target(fr, gen.target, it, st2, u)
            for n in inner:
                self._at_site(fr, n, self.site_of(n), st2, through=g)

    def _enable_receiver(self, fr: _Frame, n: ast.Call, st: _St) -> ast.AST | None:
        """the (canonical) object on which the call runs enable(): `x.enable()`, or the same through a bound callable"""
        if isinstance(n.func, ast.Attribute) and n.func.attr == "enable" and not n.args:
            return self.C(fr, n.func.value, st)
        if self._indirect(n, st):
            eff = self.C(fr, n, st)
            if isinstance(eff, ast.Call) and isinstance(eff.func, ast.Attribute) and eff.func.attr == "enable" and not eff.args and not eff.keywords:
                return eff.func.value
        return None

    @staticmethod
    def _indirect(c: ast.Call, st: _St) -> bool:
        f = strip_cast(c.func)
        if isinstance(f, ast.Call):
            return True
        if isinstance(f, ast.Name):
            v = st.env.get(f.id)
            return isinstance(v, (ast.Call, ast.Attribute, ast.Lambda))
        return False

    def _at_site(self, fr: _Frame, call: ast.Call, tag: str, st: _St, through: ast.AST | None = None, effective: ast.Call | None = None) -> None:
        st2 = st
        cur, p = call, parent(call)
        pre: list[tuple[ast.AST, bool]] = []
        while p is not None and isinstance(p, ast.expr):
            if isinstance(p, ast.BoolOp):
                idx = next((i for i, v in enumerate(p.values) if v is cur), 0)
                pre.extend((v, isinstance(p.op, ast.And)) for v in p.values[:idx])
            elif isinstance(p, ast.IfExp) and cur is not p.test:
                pre.append((p.test, cur is p.body))
            elif isinstance(p, _NEST) and p is not through:
                return                      # evaluated in another scope / later: not this path
            cur, p = p, parent(p)
        if pre:
            st2 = st.copy()
            for v, pol in pre:
                if not self.assume(self.C(fr, v, st2), pol, st2):
                    return                  # not evaluated on this path
        r = dict(self.on_site(self, fr, effective if effective is not None else call, tag, st2))
        self.results.setdefault(id(call), []).append(r)
        self.site_nodes[id(call)] = (fr, call, tag)
        if not all(r.values()) or id(call) not in self.site_facts:
            self.site_facts[id(call)] = st2.describe()

    # ---------------------------------------------------------------- helper calls
    def _callees(self, fr: _Frame, call: ast.Call, st: _St, gen: bool = False) -> list[FuncInfo]:
        """the NEW functions (not in the reviewed tree) this call may run; [] when it is not a call of a new function
        (gen: the new GENERATOR functions instead - calling one runs nothing, iterating over the result does)"""
        if fr.depth >= _FOLLOW_DEPTH or not self.new_funcs:
            return []
        body = self._body_marker(call, st)
        if body is not None:
            is_gen = any(isinstance(n, (ast.Yield, ast.YieldFrom)) for n in walk_no_nested(body.node))
            return [] if is_gen != gen or any(fr2.fi == body for fr2 in fr.chain()) else [body]
        f = strip_cast(call.func)
        canonical = True
        if isinstance(f, ast.Name) and f.id in st.env:
            todo = [st.env[f.id]]
        elif isinstance(f, (ast.Subscript, ast.IfExp, ast.BoolOp)) or (isinstance(f, ast.Call) and isinstance(f.func, ast.Attribute) and f.func.attr == "get"):
            todo = [self.C(fr, f, st)]
        else:
            todo = [f]
            canonical = False
        refs = self.__dict__.setdefault("_callee_refs", {})
        out: list[FuncInfo] = []
        while todo:
            o = todo.pop()
            if isinstance(o, ast.Call) and isinstance(o.func, ast.Attribute) and o.func.attr == "get" and len(o.args) == 2 and not o.keywords:
                todo.extend([ast.Subscript(value=o.func.value, slice=o.args[0], ctx=ast.Load()), o.args[1]])     # table.get(key, default)
                continue
            if isinstance(o, ast.Subscript) and isinstance(o.value, ast.Dict):
                # a dispatch table denotes the set of its values - those whose key the subscript can equal on this path
                for k, v in zip(o.value.keys, o.value.values):
                    if v is None:
                        continue
                    if k is not None and self.tv(_Canon2(self.hop_address, self).visit_Compare(
                            ast.Compare(left=clone(o.slice), ops=[ast.Eq()], comparators=[clone(k)])), st) is False:
                        continue
                    todo.append(v)
                continue
            if isinstance(o, ast.Subscript) and isinstance(o.value, (ast.Tuple, ast.List)):
                todo.extend(o.value.elts)
                continue
            if isinstance(o, ast.IfExp):
                t = self.tv(o.test, st)
                todo.extend([o.body, o.orelse] if t is None else [o.body if t else o.orelse])
                continue
            if isinstance(o, ast.BoolOp):
                todo.extend(o.values)
                continue
            name = o.attr if isinstance(o, ast.Attribute) else o.id if isinstance(o, ast.Name) else None
            cands = self.new_funcs.get(name or "", [])
            if isinstance(o, ast.Name):       # a bare name calls a module function or a closure, never a method
                cands = [g for g in cands if g.cls is None or enclosing_function(g.node) is not None]
            else:
                cands = [g for g in cands if enclosing_function(g.node) is None]
            if not cands:
                continue
            if len(cands) > 1 or name in self.known_names:
                # the name is not unique: only the model's own resolution of the call (self / cls / typed receiver) decides
                tg = [g for g in self.repo.resolve_call(fr.fi, call) if g in cands]
                if not tg and name in self.known_names and len(cands) == 1:
                    continue
                if len(tg) != 1:
                    raise AnalysisError(f"undecided: call `{norm(call)[:80]}` may reach several new helpers named {name}")
                cands = tg
            g = cands[0]
            if g in self._classifier_targets():
                continue                      # the DataChecker classifiers are atoms of the policy (judged by rule_classifiers), wherever they live
            has_yf = any(isinstance(n, ast.YieldFrom) for n in walk_no_nested(g.node))
            is_gen = has_yf or any(isinstance(n, ast.Yield) for n in walk_no_nested(g.node))
            if any(fr2.fi == g for fr2 in fr.chain()) or (has_yf and self._straight_gen(g) is None) or is_gen != gen:
                continue
            if g not in out:
                out.append(g)
                if canonical:
                    refs[(self._oid(call), id(g.node))] = o      # the (canonical) expression that named the callee: _bind takes the receiver from it
        return out

    def _classifier_targets(self) -> set:
        tg = self.__dict__.get("_classifier_tg")
        if tg is None:
            tg = set()
            for k in _CLASSIFIER_NAMES:
                try:
                    g = _classifier_fn(self.repo, k)
                except AnalysisError:
                    g = None
                if g is not None:
                    tg.add(g)
            self._classifier_tg = tg
        return tg

    def _bind(self, fr: _Frame, h: FuncInfo, call: ast.Call, st: _St) -> dict | None:
        """environment of helper h for this call: parameter -> canonical argument (None: cannot be bound)"""
        a = h.node.args
        via_wrapper = self._body_marker(call, st) is not None
        if a.vararg or a.kwarg:
            return None
        args = []
        for x in call.args:
            if isinstance(x, ast.Starred):
                v = self.C(fr, x.value, st)              # f(*args) with args a known tuple passes its items
                if not isinstance(v, (ast.Tuple, ast.List)) or any(isinstance(e, ast.Starred) for e in v.elts):
                    return None
                args.extend(v.elts)
            else:
                args.append(self.C(fr, x, st))
        kwvals: list[tuple[str, ast.AST]] = []
        for k in call.keywords:
            if k.arg is None:
                v = self.C(fr, k.value, st)              # f(**kwargs) with kwargs a known (here: empty) dict display
                if not isinstance(v, ast.Dict) or any(q is None or not isinstance(const_value(q), str) for q in v.keys):
                    return None
                kwvals.extend((const_value(q), x) for q, x in zip(v.keys, v.values))
            else:
                kwvals.append((k.arg, self.C(fr, k.value, st)))
        pos = [p.arg for p in a.posonlyargs + a.args]
        nested = enclosing_function(h.node) is not None
        is_method = h.cls is not None and not nested and "staticmethod" not in h.decorator_names() and not via_wrapper
        f = strip_cast(call.func)
        ref = self.__dict__.get("_callee_refs", {}).get((self._oid(call), id(h.node)))
        if via_wrapper:
            recv = None
        elif ref is not None:
            recv = clone(ref.value) if isinstance(ref, ast.Attribute) else None      # an entry of a table / a branch of a ternary
        elif isinstance(f, ast.Name) and f.id in st.env:
            f = st.env[f.id]                     # a local that holds the callable (already canonical)
            recv = clone(f.value) if isinstance(f, ast.Attribute) else None
        elif isinstance(f, ast.Attribute):
            recv = self.C(fr, f.value, st)
        else:
            recv = None
        if is_method:
            if recv is None:
                recv = clone(st.env["self"]) if "self" in st.env else ast.Name(id="self", ctx=ast.Load())
            if not (isinstance(recv, ast.Name) and recv.id == h.cls.name):      # Class.method(obj, ..) passes obj itself
                args = [recv, *args]
        if len(args) > len(pos):
            return None
        bound: dict[str, ast.AST] = dict(zip(pos, args))
        for kname, kval in kwvals:
            if kname in bound:
                return None
            bound[kname] = kval
        hfr, hst = _Frame(h, None, fr, call), _St()
        for p, d in zip(pos[len(pos) - len(a.defaults):], a.defaults):
            if p not in bound:
                bound[p] = self.C(hfr, d, hst)
        for p, d in zip(a.kwonlyargs, a.kw_defaults):
            if d is not None and p.arg not in bound:
                bound[p.arg] = self.C(hfr, d, hst)
        if set(bound) != set(pos) | {p.arg for p in a.kwonlyargs}:
            return None
        env = dict(st.env) if nested and any(fr2.fi.node is enclosing_function(h.node) for fr2 in fr.chain()) else {}
        env.update(bound)
        return env

    def _call(self, fr: _Frame, call: ast.Call, st: _St) -> list:
        outs: list = []
        for h in self._callees(fr, call, st):
            wrapped = self._body_marker(call, st) is None and self._wrapper(h) is not None
            env = self._bind(fr, h, call, st) if not wrapped else {}
            if env is None:
                raise AnalysisError(f"undecided: cannot bind the arguments of `{norm(call)[:80]}` to new helper {h.qualname}")
            self.followed.add(self._oid(call))
            self.helpers.add(h)
            target = h
            w = self._wrapper(h) if self._body_marker(call, st) is None else None
            if w is not None:
                # a new helper that carries a new decorator: the call enters the decorator's wrapper (which calls the helper's body)
                env = self._wrapper_call_env(fr, h, w, call, st)
                if env is None:
                    raise AnalysisError(f"undecided: cannot bind the arguments of `{norm(call)[:80]}` to the wrapper of new decorator {w[3].qualname}")
                target = w[0]
                self.helpers.add(target)
            fr2 = _Frame(target, self.ctx.cfg(target), fr, call)
            st2 = st.copy()
            st2.env, st2.ret = env, None
            for kind, ret, st3 in self._paths(fr2, st2):
                st3 = st3.copy()
                st3.env, st3.ret = dict(st.env), st.ret
                outs.append((kind, ret, st3))
        return outs


# ------------------------------------------------------------------------------------------ policy
class _PolicySource(Exception):
    """is_allowed reads the exit flags from somewhere else than the node's configured flags"""

    def __init__(self, attr: str, writer: str, value: str, cond: str) -> None:
        super().__init__(attr)
        self.attr, self.writer, self.value, self.cond = attr, writer, value, cond


def _flag_snapshot(ctx: Ctx, fi: FuncInfo, cond: ast.AST) -> _PolicySource | None:
    """cond tests an exit-flag constant for membership in a value that is (on some evaluation) a plain attribute of the socket which
    the socket's own methods fill with a constructed copy (frozenset(..), set(..), tuple(..), a comprehension): a snapshot of the
    flags taken at some earlier moment - not a re-spelling of `self.overlay.settings.peer_flags`, whose current content is the policy"""
    def alternatives(e: ast.AST):
        e = strip_cast(e)
        if isinstance(e, ast.IfExp):
            yield from alternatives(e.body)
            yield from alternatives(e.orelse)
        elif isinstance(e, ast.BoolOp):
            for v in e.values:
                yield from alternatives(v)
        elif isinstance(e, ast.Call) and chain(e.func) in ("set", "frozenset", "tuple", "list") and len(e.args) == 1 and not e.keywords:
            yield from alternatives(e.args[0])
        else:
            yield e
    for n in ast.walk(cond):
        if not (isinstance(n, ast.Compare) and len(n.ops) == 1 and isinstance(n.ops[0], (ast.In, ast.NotIn))
                and isinstance(n.left, ast.Name) and n.left.id.startswith("PEER_FLAG_EXIT")):
            continue
        for alt in alternatives(n.comparators[0]):
            if not (isinstance(alt, ast.Attribute) and isinstance(alt.value, ast.Name) and alt.value.id == "self") or fi.cls is None:
                continue
            if fi.cls.lookup(alt.attr) is not None or fi.cls.lookup_attr(alt.attr) is not None:
                continue                    # a property / class-level value: not a stored copy
            for m, f, a in ctx.repo.attribute_uses(alt.attr):
                st = parent(a)
                if isinstance(a.ctx, ast.Store) and f is not None and f.cls is not None and fi.cls in f.cls.mro() + f.cls.all_subclasses() \
                        and isinstance(a.value, ast.Name) and a.value.id == "self" and isinstance(st, (ast.Assign, ast.AnnAssign)) \
                        and st.value is not None and isinstance(strip_cast(st.value), (ast.Call, ast.SetComp, ast.ListComp, ast.GeneratorExp, ast.BinOp)) \
                        and "peer_flags" in norm(st.value):
                    return _PolicySource(alt.attr, f.qualname, norm(st.value), norm(n))
    return None


def _unknown_leaves(sym: _Sym, x: ast.AST, st: _St):
    """the sub-expressions of x (below and / or / not / ternaries) whose truth value the state does not determine"""
    x = _as_cond(x, sym)
    if isinstance(x, ast.BoolOp):
        for v in x.values:
            yield from _unknown_leaves(sym, v, st)
    elif isinstance(x, ast.UnaryOp) and isinstance(x.op, ast.Not):
        yield from _unknown_leaves(sym, x.operand, st)
    elif isinstance(x, ast.IfExp):
        for v in (x.test, x.body, x.orelse):
            yield from _unknown_leaves(sym, v, st)
    elif sym.tv(x, st) is None:
        yield x


_TOKEN_MARKS = "#!@~"


def _unread_part(ctx: Ctx, fi: FuncInfo, x: ast.AST) -> str | None:
    """the first part of the walked condition x that stands for a value the walk could NOT read, if any: a token the walk put in place
    of a local it lost track of (a loop variable over rows it cannot enumerate, a local assigned in a loop body / from a value it does
    not represent - `name~`, `name#12`, `name!2`, `name@helper`, or the plain name of a local), the result of a call that resolves to
    no function of the tree and is no pure builtin / value method, an await.  Everything else - parameters, `self.<path>`, constants,
    module-level names, calls of functions the tree defines, pure builtins - is code the walk read: a decision that depends on such
    a value depends on something the documented table does not have."""
    import builtins
    bound: set[str] = set()
    for n in ast.walk(x):
        if isinstance(n, ast.Lambda):
            a = n.args
            bound |= {y.arg for y in [*a.posonlyargs, *a.args, *a.kwonlyargs, *([a.vararg] if a.vararg else []), *([a.kwarg] if a.kwarg else [])]}
        elif isinstance(n, ast.comprehension):
            bound |= {y.id for y in ast.walk(n.target) if isinstance(y, ast.Name)}
        elif isinstance(n, ast.NamedExpr) and isinstance(n.target, ast.Name):
            bound.add(n.target.id)
    params = set(fi.params())
    for n in ast.walk(x):
        if isinstance(n, (ast.Await, ast.Yield, ast.YieldFrom)):
            return norm(n)
        if isinstance(n, ast.Name):
            if n.id in bound:
                continue
            if any(c in n.id for c in _TOKEN_MARKS):
                return n.id
            if local_defs(fi, n.id):
                return n.id
            if n.id in params or n.id in ("self", "cls") or hasattr(builtins, n.id) or n.id in fi.module.imports \
                    or ctx.repo.resolve_name(fi.module, n.id) is not None:
                continue
            return n.id
        if isinstance(n, ast.Call):
            fn = chain(n.func)
            if fn is not None and (fn in _SIM_PURE or any(fn.startswith(lib + ".") for lib in _LIBS)):
                continue
            if isinstance(n.func, ast.Attribute) and n.func.attr in _VALUE_METHODS:
                continue
            if isinstance(n.func, ast.Name) and n.func.id in bound:
                continue
            try:
                known = _resolve_ref(ctx.repo, fi.module, fi.cls, n.func) is not None or bool(ctx.repo.resolve_call(fi, n))
            except AnalysisError:
                known = False
            if not known:
                return norm(n)
    return None


def _table_rows(ctx: Ctx, fi: FuncInfo, atoms: dict[str, list[tuple]], ingredients: tuple[str, ...], on_guess=None, derived=None):
    """(assignment, set of truth values fi can return under it) for all assignments of the named atoms; each atom is
    given by the fact keys of its accepted spellings.  The function is walked path by path (loops over literal tables,
    any()/all(), flags, ternaries, early returns and new helpers included).  derived: atom name -> function of the assignment of
    the other atoms (an atom whose value is determined by them is not enumerated)."""
    sym = _Sym(ctx, fi, lambda c: None, lambda *a: {})
    derived = derived or {}
    names = [a for a in atoms if a not in derived]
    for vals in itertools.product([False, True], repeat=len(names)):
        env = dict(zip(names, vals))
        for a, fn in derived.items():
            env[a] = bool(fn(env))
        seed = {k: env[a] for a in atoms for k in atoms[a]}
        got = set()
        for t, ret, st in sym.decide(seed):
            # a condition outside the atoms: a possible re-spelling of an atom cannot be judged; anything else is a
            # dependency the documented table does not have (both outcomes are possible)
            guessed = [a for a in [*st.assumed, *([norm(ret)] if t is None else [])] if any(i in a for i in ingredients)]
            if t is None and not guessed:
                # the returned value could not be evaluated: an operation the walk does not understand applied to the atoms is
                # undecided; a value that does not involve the atoms at all is a dependency the table does not have (below)
                texts = {x for ks in atoms.values() for k in ks for x in k[1:] if x}
                for leaf in _unknown_leaves(sym, ret, st):
                    tl = norm(leaf)
                    if any(x in tl and x != tl for x in texts):
                        raise AnalysisError(f"undecided: {fi.qualname} combines its atoms in `{tl[:90]}`, which the walk cannot evaluate")
            if guessed and on_guess is not None:
                on_guess([x for x in [*[c for c, _ in st.trail], *([ret] if t is None else [])] if any(i in norm(x) for i in ingredients)])
            if guessed:
                raise AnalysisError(f"undecided: {fi.qualname} tests `{guessed[0][:90]}`, not one of the recognised spellings of its atoms")
            # what is left are conditions that mention no ingredient of the atoms.  Such a condition is a dependency the table does not
            # have only when the walk READ it (a parameter, `self.enabled`, a function of the tree ..); a value the walk lost track of
            # (an opaque loop variable, the result of an unknown call) may well be one of the atoms computed somewhere the walk did not
            # look - nothing can be said about the rows then
            for c in [*[c for c, _ in st.trail], *([ret] if t is None else [])]:
                leaves = list(_unknown_leaves(sym, c, st)) if c is ret else [c]
                for leaf in leaves or [c]:
                    part = _unread_part(ctx, fi, leaf)
                    if part is not None:
                        raise AnalysisError(f"undecided: {fi.qualname} decides on `{norm(leaf)[:90]}`, where `{part[:60]}` is a value the walk "
                                            "could not read (it may or may not be one of the atoms)")
            got |= {True, False} if t is None else {t}
        if not got:
            raise AnalysisError(f"undecided: {fi.qualname} has no returning path under {env}")
        yield env, got


def _sorted_eq(a: str, b: str) -> tuple:
    return ("eq", *sorted((a, b)))


PREFIX_LEN = 22                 # b"\x00" + version byte + 20-byte community id


class _PrefixPart(Exception):
    """is_allowed compares bytes [lo:hi) of the overlay's prefix with the same bytes of the data"""

    def __init__(self, lo: int, hi: int, key: tuple, text: str) -> None:
        super().__init__(text)
        self.lo, self.hi, self.key, self.text = lo, hi, key, text


def _prefix_part(n: ast.AST, data: str, prefix: str) -> _PrefixPart | None:
    """n is `<prefix>[a:b] == <data>[a:b]` (either order, == or !=, constant bounds that select the same byte positions of both)"""
    if not (isinstance(n, ast.Compare) and len(n.ops) == 1 and isinstance(n.ops[0], (ast.Eq, ast.NotEq))):
        return None

    def bounds(e: ast.AST, length: int | None) -> tuple[int, int] | None:
        if not (isinstance(e, ast.Subscript) and isinstance(e.slice, ast.Slice) and e.slice.step is None):
            return None
        lo = 0 if e.slice.lower is None else const_value(e.slice.lower)
        hi = length if e.slice.upper is None else const_value(e.slice.upper)
        if any(not isinstance(v, int) or isinstance(v, bool) for v in (lo, hi)):
            return None
        if length is not None:
            lo, hi = (lo + length if lo < 0 else lo), (hi + length if hi < 0 else hi)
            hi = min(hi, length)
        return (lo, hi) if 0 <= lo < hi else None
    for a, b in ((n.left, n.comparators[0]), (n.comparators[0], n.left)):
        if isinstance(a, ast.Subscript) and norm(a.value) == prefix and isinstance(b, ast.Subscript) and norm(b.value) == data:
            pa, pb = bounds(a, PREFIX_LEN), bounds(b, None)
            if pa is not None and pa == pb:
                return _PrefixPart(pa[0], pa[1], _sorted_eq(norm(a), norm(b)), norm(n))
    return None


def _classifier_views(repo, names=("could_be_bt", "could_be_ipv8")) -> tuple[set[int], bool] | None:
    """(byte positions - negative: from the end, whether the length) of the packet that the named DataChecker classifiers (and the
    classifiers they call) inspect; None when a classifier uses its argument in a way this scan does not understand"""
    import struct
    pos: set[int] = set()
    needs_len = False
    todo, seen = list(names), set()
    while todo:
        name = todo.pop()
        if name in seen:
            continue
        seen.add(name)
        fi = _classifier_fn(repo, name)
        if fi is None:
            return None
        ps = [q for q in fi.params() if q not in ("self", "cls")]
        if len(ps) != 1 or local_defs(fi, ps[0]):
            return None
        d = ps[0]
        for n in walk_no_nested(fi.node):
            if not (isinstance(n, ast.Name) and n.id == d and isinstance(n.ctx, ast.Load)):
                continue
            par = parent(n)
            if isinstance(par, ast.Subscript) and par.value is n:
                sl = par.slice
                if isinstance(sl, ast.Slice):
                    lo = 0 if sl.lower is None else const_value(sl.lower)
                    hi = const_value(sl.upper) if sl.upper is not None else (0 if isinstance(lo, int) and lo < 0 else NOCONST)
                    if sl.step is not None or any(not isinstance(v, int) or isinstance(v, bool) for v in (lo, hi)):
                        return None
                    if lo >= 0 and hi > lo:
                        pos |= set(range(lo, hi))
                    elif lo < 0 and lo < hi <= 0:
                        pos |= set(range(lo, hi))
                    else:
                        return None
                else:
                    i = const_value(sl)
                    if not isinstance(i, int) or isinstance(i, bool):
                        return None
                    pos.add(i)
                continue
            if isinstance(par, ast.Call) and n in par.args and not par.keywords:
                c = chain(par.func) or ""
                if c == "len" and len(par.args) == 1:
                    needs_len = True
                    continue
                if c.rsplit(".", 1)[-1] in _CLASSIFIER_NAMES and len(par.args) == 1 and c in (c.rsplit(".", 1)[-1], "DataChecker." + c.rsplit(".", 1)[-1]):
                    todo.append(c.rsplit(".", 1)[-1])
                    continue
                if c in ("unpack_from", "struct.unpack_from") and 2 <= len(par.args) <= 3 and par.args[1] is n \
                        and isinstance(const_value(par.args[0]), str):
                    off = const_value(par.args[2]) if len(par.args) == 3 else 0
                    try:
                        size = struct.calcsize(const_value(par.args[0]))
                    except struct.error:
                        return None
                    if not isinstance(off, int) or isinstance(off, bool) or off < 0:
                        return None
                    pos |= set(range(off, off + size))
                    continue
            return None
    return pos, needs_len


def _data_views(x: ast.AST, data: str) -> tuple[set[int], bool, bool] | None:
    """x (one side of an equality, possibly a tuple of views) as views of the packet: (byte positions, the length, the whole packet);
    None when x contains no view of the packet"""
    pos: set[int] = set()
    length = whole = False
    found = False
    for e in (x.elts if isinstance(x, (ast.Tuple, ast.List)) else [x]):
        e = strip_cast(e)
        while isinstance(e, ast.Call) and chain(e.func) in ("bytes", "memoryview") and len(e.args) == 1 and not e.keywords:
            e = strip_cast(e.args[0])
        if isinstance(e, ast.Name) and e.id == data:
            whole = found = True
        elif isinstance(e, ast.Call) and chain(e.func) == "len" and len(e.args) == 1 and isinstance(e.args[0], ast.Name) and e.args[0].id == data:
            length = found = True
        elif isinstance(e, ast.Subscript) and isinstance(e.value, ast.Name) and e.value.id == data:
            found = True
            if isinstance(e.slice, ast.Slice):
                lo = 0 if e.slice.lower is None else const_value(e.slice.lower)
                hi = const_value(e.slice.upper) if e.slice.upper is not None else (0 if isinstance(lo, int) and lo < 0 else NOCONST)
                if e.slice.step is None and all(isinstance(v, int) and not isinstance(v, bool) for v in (lo, hi)) and ((0 <= lo < hi) or (lo < hi <= 0)):
                    pos |= set(range(lo, hi))
            elif isinstance(const_value(e.slice), int) and not isinstance(const_value(e.slice), bool):
                pos.add(const_value(e.slice))
    return (pos, length, whole) if found else None


def _stale_verdict(ctx: Ctx, fi: FuncInfo, data: str) -> str | None:
    """is_allowed must judge the shape of THE PACKET IT WAS GIVEN.  A classifier verdict kept in an attribute of the socket is a verdict
    about the packet that was current when it was stored; a path of is_allowed that decides on such an attribute without having stored
    it in this call reuses the verdict of an earlier packet.  That is only the same decision when the test that selected the path
    established that the two packets agree on everything the classifiers inspect - returns the reason when it did not."""
    if fi.cls is None:
        return None
    family = set(fi.cls.mro()) | set(fi.cls.all_subclasses())
    kept: dict[str, tuple[str, str]] = {}
    for a in [n for n in ast.walk(fi.node) if isinstance(n, ast.Attribute) and isinstance(n.ctx, ast.Load) and isinstance(n.value, ast.Name) and n.value.id == "self"]:
        if a.attr in kept or fi.cls.lookup(a.attr) is not None or fi.cls.lookup_attr(a.attr) is not None:
            continue
        for m, f, w in ctx.repo.attribute_uses(a.attr):
            if not (isinstance(w.ctx, ast.Store) and f is not None and f.cls in family and isinstance(w.value, ast.Name) and w.value.id == "self"):
                continue
            stmt = w
            while stmt is not None and not isinstance(stmt, ast.stmt):
                stmt = parent(stmt)
            if isinstance(stmt, (ast.Assign, ast.AnnAssign)) and stmt.value is not None:
                v = _expand(f, stmt.value)
                if any(isinstance(c, ast.Call) and (chain(c.func) or "").rsplit(".", 1)[-1] in _CLASSIFIER_NAMES for c in ast.walk(v)):
                    kept[a.attr] = (f.qualname, norm(stmt)[:100])
    if not kept:
        return None
    views = _classifier_views(ctx.repo)
    if views is None:
        return None
    need_pos, need_len = views
    sym = _Sym(ctx, fi, lambda c: None, lambda *a: {})
    for t, ret, st in sym.decide({}):
        conds = [*st.trail, *([(ret, True)] if t is None else [])]
        for attr, (writer, text) in kept.items():
            me = f"self.{attr}"
            if me in st.stored or not any(me in norm(c) for c, _ in conds):
                continue
            # the verdict of an earlier packet decides: what does this path know about the two packets?
            pos: set[int] = set()
            length = whole = False
            tests = []
            for c, lab in conds:
                if isinstance(c, ast.Compare) and len(c.ops) == 1 and ((isinstance(c.ops[0], ast.Eq) and lab) or (isinstance(c.ops[0], ast.NotEq) and not lab)):
                    for side in (c.left, c.comparators[0]):
                        v = _data_views(side, data)
                        if v is not None:
                            pos |= v[0]
                            length, whole = length or v[1], whole or v[2]
                            tests.append(f"`{norm(c)[:100]}` is {'true' if lab else 'false'}")
            if whole:
                continue
            # a prefix slice data[:k] compared equal fixes bytes 0..k-1 only for packets at least that long; the length view fixes the rest
            missing = sorted(need_pos - pos)
            if missing or (need_len and not length):
                what = (f"byte(s) {missing} of the packet" if missing else "") + (" and " if missing and need_len and not length else "") + \
                    ("its length" if need_len and not length else "")
                return (f"is_allowed decides on self.{attr}, a classifier verdict that {writer} stored for an EARLIER packet (`{text}`), on a path "
                        f"that does not classify the packet it was given" + (f" (taken when {tests[0]})" if tests else "") +
                        f": DataChecker.could_be_bt / could_be_ipv8 also inspect {what}, which that path never compares with the earlier packet, so "
                        "a packet that agrees with the previous one on the compared views inherits its verdict and is emitted / tunnelled back "
                        "although its own shape is forbidden by the exit flags")
    return None


def rule_policy_table(ctx: Ctx) -> None:
    fi = _method(ctx.repo, "TunnelExitSocket", "is_allowed", ES)
    data = fi.params()[1]
    ctx.check(not local_defs(fi, data), "policy-table", fi, fi.node, "is_allowed judges the data it was given",
              "is_allowed rebinds its data parameter before classifying it")
    prefix = "self.overlay.get_prefix()"
    atoms = {
        "bt": [("truthy", f"DataChecker.could_be_bt({data})", None)],
        "v8": [("truthy", f"DataChecker.could_be_ipv8({data})", None)],
        "BT": [("in", "PEER_FLAG_EXIT_BT", FLAGS)],
        "V8": [("in", "PEER_FLAG_EXIT_IPV8", FLAGS)],
        # "the packet starts with this overlay's 22-byte prefix" (b"\x00" + version + 20-byte community id)
        "own": [_sorted_eq(prefix, f"{data}[:22]"), _sorted_eq(prefix, f"{data}[:len({prefix})]"),
                ("truthy", f"{data}.startswith({prefix})", None)],
    }
    bad = []
    # The own-overlay clause may be spelt piecewise (`p[:2] == d[:2] and p[2:] == d[2:22]`): every comparison of a byte range of the
    # prefix with the same range of the data is an atom of its own, "the prefix matches" is their conjunction together with "the
    # bytes no comparison looks at match too" (own.rest) - a clause that leaves bytes of the prefix uncompared then differs from the
    # policy on the rows where exactly those bytes differ.
    parts: dict[str, _PrefixPart] = {}

    def on_guess(conds: list[ast.AST]) -> None:
        for c in conds:
            src = _flag_snapshot(ctx, fi, c)
            if src is not None:
                raise src
        for c in conds:
            for n in ast.walk(c):
                p = _prefix_part(n, data, prefix)
                if p is not None and p.key not in [k for ks in atoms.values() for k in ks]:
                    raise p
    rows: list = []
    stale = _stale_verdict(ctx, fi, data)
    ctx.check(stale is None, "policy-table", fi, fi.node, "is_allowed classifies the packet it was given (no verdict of an earlier packet reused)",
              stale or "")
    try:
        while stale is None:
            derived = None
            if parts:
                derived = {"own": lambda env: all(env[a] for a in [*parts, "own.rest"] if a in env)}
            try:
                rows = list(_table_rows(ctx, fi, atoms, (data, "peer_flags", "get_prefix", "could_be_", "PEER_FLAG"), on_guess, derived))
                break
            except _PrefixPart as p:
                if (p.lo, p.hi) == (0, PREFIX_LEN):
                    atoms["own"].append(p.key)          # one more spelling of the whole comparison
                    continue
                for q in parts.values():
                    if (q.lo <= p.lo and p.hi <= q.hi) or (p.lo <= q.lo and q.hi <= p.hi):
                        raise AnalysisError(f"undecided: {fi.qualname} compares nested ranges of the overlay prefix (`{q.text[:60]}`, `{p.text[:60]}`)")
                if len(parts) >= 3:
                    raise AnalysisError(f"undecided: {fi.qualname} compares the overlay prefix in more than 3 pieces")
                parts[f"own[{p.lo}:{p.hi}]"] = p
                atoms[f"own[{p.lo}:{p.hi}]"] = [p.key]
                covered = {i for q in parts.values() for i in range(q.lo, q.hi)}
                if len(covered) < PREFIX_LEN:
                    atoms.setdefault("own.rest", [])
                else:
                    atoms.pop("own.rest", None)
        for env, got in rows:
            want = bool((env["bt"] and env["BT"]) or (env["v8"] and env["V8"]) or (env["v8"] and env["own"]))
            ok = got == {want}
            ctx.instance("policy-table", fi.where, f"row {env} -> {sorted(got)} (spec {want})", ok=ok)
            if not ok:
                bad.append((env, sorted(got), want))
    except _PolicySource as src:
        # the flags must be the node's CURRENT configuration: is_allowed runs per packet precisely so that a withdrawn flag stops
        # traffic on already open exit sockets
        ctx.violation("policy-table", fi, fi.node,
                      f"is_allowed decides `{src.cond[:120]}` on self.{src.attr}, a copy of the exit flags that {src.writer} stored "
                      f"(`self.{src.attr} = {src.value[:80]}`), instead of the node's configured flags {FLAGS}: a flag that is withdrawn "
                      "after the copy was taken keeps being honoured, so the socket emits (and tunnels back) traffic the exit policy forbids")
    if bad:
        env, got, want = bad[0]
        why = ""
        if parts:
            missing = sorted(set(range(PREFIX_LEN)) - {i for q in parts.values() for i in range(q.lo, q.hi)})
            why = (f"; TunnelExitSocket.is_allowed compares the overlay prefix only piecewise ({', '.join('`' + q.text[:70] + '`' for q in parts.values())})"
                   + (f" and never compares byte(s) {missing} of the {PREFIX_LEN}-byte prefix (own.rest = those bytes match): IPv8-shaped packets of a "
                      "different overlay prefix that agree on the compared bytes pass as the tunnel overlay's own traffic and are emitted / let "
                      "back in without PEER_FLAG_EXIT_IPV8" if missing else ""))
        ctx.violation("policy-table", fi, fi.node,
                      f"is_allowed differs from (bt&BT)|(v8&V8)|(v8&own) on {len(bad)} of {len(rows)} rows, e.g. {env}: returns {got}, "
                      f"policy says {want}{why}")
    # the flag constants are the ones the tunnel module defines (bt -> EXIT_BT, ipv8 -> EXIT_IPV8)
    for name in ("PEER_FLAG_EXIT_BT", "PEER_FLAG_EXIT_IPV8"):
        r = ctx.repo.resolve_name(fi.module, name)
        ctx.check(isinstance(r, tuple) and r[0] == "const" and r[1].relpath == "ipv8/messaging/anonymization/tunnel.py",
                  "policy-table", fi, name, f"{name} is the tunnel module's constant",
                  f"{name} no longer resolves to ipv8/messaging/anonymization/tunnel.py")
    t = ctx.repo.module("ipv8/messaging/anonymization/tunnel.py")
    vals = {k: ctx.repo.resolve_const(t, t.constants[k]) for k in ("PEER_FLAG_RELAY", "PEER_FLAG_EXIT_BT", "PEER_FLAG_EXIT_IPV8", "PEER_FLAG_SPEED_TEST") if k in t.constants}
    ctx.check(len(set(vals.values())) == len(vals) == 4, "policy-table", t.relpath, "PEER_FLAG_*",
              f"peer flags are distinct constants {vals}", f"peer flag constants collide: {vals}")


NULL_ADDRESS = ("0.0.0.0", 0)
ANON = "ipv8/messaging/anonymization/"


def _private_base_of(repo, b, c) -> bool:
    """b is a class the reviewed tree does not have (a mixin / base the methods of c were moved to) and everything that inherits
    from it is c or a subclass of c"""
    if b is c:
        return True
    table = _reviewed_functions()
    rel = b.module.relpath
    new = _is_new_file(repo, rel) or (rel in table and not any(q == b.name or q.startswith(b.name + ".") for q in table[rel]) and
                                       rel.startswith("ipv8/messaging/anonymization/"))
    return bool(new) and b in c.mro() and all(x is c or c in x.mro() for x in b.all_subclasses())


def _method(repo, clsname: str, meth: str, rel: str) -> FuncInfo:
    """the method `clsname.meth` as the class runs it: defined in the class itself, or inherited from a new private base of it"""
    c = repo.cls(clsname, rel)
    f = c.methods.get(meth)
    if f is None:
        for b in c.mro()[1:]:
            if meth in b.methods:
                f = b.methods[meth] if _private_base_of(repo, b, c) else None
                break
    if f is None:
        raise AnalysisError(f"anchor-lost: method {clsname}.{meth}")
    return f


def _in_class(repo, fi: FuncInfo | None, clsname: str, rel: str) -> bool:
    """fi is (nested in) a method of the class or of a new private base of it"""
    if fi is None or fi.cls is None:
        return False
    c = repo.try_cls(clsname, rel)
    return c is not None and (fi.cls is c or _private_base_of(repo, fi.cls, c))


def _is_method(repo, fi: FuncInfo | None, clsname: str, meth: str, rel: str) -> bool:
    if fi is None:
        return False
    try:
        return fi == _method(repo, clsname, meth, rel)
    except AnalysisError:
        return False


def _sim(ctx: Ctx, key: str, build) -> _Sym:
    cache = ctx.extra.setdefault("c06_sims", {})
    if key not in cache:
        cache[key] = build().run()
    return cache[key]


def _root_param(sym: _Sym, x: ast.AST | None) -> str | None:
    """the parameter of the walked function whose (never reassigned on this path) value x is"""
    return x.id if isinstance(x, ast.Name) and x.id in sym.fi.params() else None


def _allowed_on(st: _St, root: str | None) -> bool:
    """the path established a truthy self.is_allowed(<root>)"""
    if root is None:
        return False

    def pred(f: Fact) -> bool:
        if not (f.op == "truthy" and f.pos and isinstance(f.left, ast.Call) and chain(f.left.func) == "self.is_allowed"):
            return False
        a = arg(f.left, 0, "data")
        return isinstance(a, ast.Name) and a.id == root and len(f.left.args) + len(f.left.keywords) == 1
    return st.holds(pred)


def _not_null_on(st: _St, x: ast.AST | None) -> bool:
    """the path established x != ('0.0.0.0', 0) (as one comparison, or through one of its two components)"""
    if x is None:
        return False
    tx = norm(x)

    def pred(f: Fact) -> bool:
        if f.op != "eq" or f.pos:
            return False
        for a, b in ((f.left, f.right), (f.right, f.left)):
            if norm(a) == tx and const_value(b) == NULL_ADDRESS:
                return True
            for i in (0, 1):
                if norm(a) == f"{tx}[{i}]" and const_value(b) == NULL_ADDRESS[i] and type(const_value(b)) is type(NULL_ADDRESS[i]):
                    return True
        return False
    return st.holds(pred)


def _site_tag(call: ast.AST) -> str | None:
    if not isinstance(call, ast.Call):
        return None
    n = call_name(call)
    if n == "sendto":
        return "requeue" if chain(call.func) == "self.sendto" else "emit"
    if n == "tunnel_data":
        return "tunnel"
    if n == "exit_data":
        return "exit_data"
    if n == "enable" and isinstance(call.func, ast.Attribute) and not call.args and not call.keywords:
        return "enable"
    return None


def _sendto_sim(ctx: Ctx) -> _Sym:
    fi = _method(ctx.repo, "TunnelExitSocket", "sendto", ES)

    def on_site(sym: _Sym, fr: _Frame, c: ast.Call, tag: str, st: _St) -> dict:
        if tag != "emit":
            return {}
        d, a = arg(c, 0, "data"), arg(c, 1, "addr")
        xd = sym.C(fr, d, st) if d is not None else None
        xa = sym.C(fr, a, st) if a is not None else None
        return {"gate": _allowed_on(st, _root_param(sym, xd)), "null": _root_param(sym, xa) is not None and _not_null_on(st, xa)}
    return _sim(ctx, "sendto", lambda: _Sym(ctx, fi, _site_tag, on_site))


def _datagram_sim(ctx: Ctx) -> _Sym:
    fi = _method(ctx.repo, "TunnelExitSocket", "datagram_received", ES)

    def on_site(sym: _Sym, fr: _Frame, c: ast.Call, tag: str, st: _St) -> dict:
        if tag != "tunnel":
            return {}
        d = arg(c, 1, "data")
        return {"gate": d is not None and _allowed_on(st, _root_param(sym, sym.C(fr, d, st)))}
    return _sim(ctx, "datagram_received", lambda: _Sym(ctx, fi, _site_tag, on_site))


def _tunnel_data_sim(ctx: Ctx) -> _Sym | None:
    """TunnelExitSocket.tunnel_data walked for its hand-over to the overlay (send_data): is the exit policy established there?"""
    fi = _method(ctx.repo, "TunnelExitSocket", "tunnel_data", ES)
    if fi is None or len(fi.params()) < 3:
        return None

    def tag(n: ast.AST) -> str | None:
        return "send_data" if isinstance(n, ast.Call) and call_name(n) == "send_data" else None

    def on_site(sym: _Sym, fr: _Frame, c: ast.Call, tag_: str, st: _St) -> dict:
        d = arg(c, 4, "data")
        xd = sym.C(fr, d, st) if d is not None else None
        return {"gate": _root_param(sym, xd) == fi.params()[2] and not local_defs(fi, fi.params()[2]) and _allowed_on(st, _root_param(sym, xd))}
    return _sim(ctx, "tunnel_data", lambda: _Sym(ctx, fi, tag, on_site))


def _forwarder_sims(ctx: Ctx) -> list[_Sym]:
    """datagram_received_ipv4 / _ipv6 walked for their forward to datagram_received"""
    out = []
    for name in ("datagram_received_ipv4", "datagram_received_ipv6"):
        fi = _method(ctx.repo, "TunnelExitSocket", name, ES)

        def tag(n: ast.AST) -> str | None:
            return "forward" if isinstance(n, ast.Call) and chain(n.func) == "self.datagram_received" else None

        def on_site(sym: _Sym, fr: _Frame, c: ast.Call, tag_: str, st: _St, fi=fi) -> dict:
            d = arg(c, 0, "data")
            xd = sym.C(fr, d, st) if d is not None else None
            return {"gate": _root_param(sym, xd) == fi.params()[1] and not local_defs(fi, fi.params()[1]) and _allowed_on(st, _root_param(sym, xd))}
        out.append(_sim(ctx, name, lambda fi=fi, tag=tag, on_site=on_site: _Sym(ctx, fi, tag, on_site)))
    return out


def _on_data_sim(ctx: Ctx) -> _Sym:
    fi = _method(ctx.repo, "TunnelCommunity", "on_data", TC)

    def on_site(sym: _Sym, fr: _Frame, c: ast.Call, tag: str, st: _St) -> dict:
        if tag != "exit_data":
            return {}
        d = arg(c, 2, "destination")
        xd = sym.C(fr, d, st) if d is not None else None
        # the address exit_data compares with the previous hop is the one the cell really came from: on_data's own source-address
        # parameter (as received from the endpoint), not a field of the cell's payload or anything computed from one
        exp = _method(ctx.repo, "TunnelCommunity", "exit_data", TC).params()
        s_ = arg(c, 1, exp[2]) if len(exp) > 2 else None
        xs_ = sym.C(fr, s_, st) if s_ is not None else None
        return {"null": _not_null_on(st, xd), "payload": xd is not None and (chain(xd) or "").endswith(".dest_address"),
                "source": isinstance(xs_, ast.Name) and xs_.id == fi.params()[1]}
    return _sim(ctx, "on_data", lambda: _Sym(ctx, fi, _site_tag, on_site))


def _enable_idempotent(ctx: Ctx) -> bool:
    """TunnelExitSocket.enable() does nothing when the socket is already enabled"""
    en = _method(ctx.repo, "TunnelExitSocket", "enable", ES)
    cfg = ctx.cfg(en)
    for n in cfg.nodes:
        a = n.ast
        if n.kind != "stmt" or a is None or isinstance(a, (ast.FunctionDef, ast.AsyncFunctionDef, ast.Pass)):
            continue
        if isinstance(a, ast.Expr) and (isinstance(a.value, ast.Constant) or (chain(a.value) or "").startswith("self.logger.")):
            continue
        if isinstance(a, ast.Return) and a.value is None:
            continue
        if not unreachable_assuming(cfg, n, lambda f: {norm(x) for x in (f.left, f.right) if x is not None} & {"self.enabled"}
                                    and not _says_enabled(f)):
            return False
    return True


def _says_enabled(f: Fact) -> bool:
    """the fact is compatible with `self.enabled` being truthy"""
    if f.op == "truthy":
        return f.pos
    if f.op in ("is", "eq"):
        for b in (f.left, f.right):
            if isinstance(b, ast.Constant) and isinstance(b.value, bool):
                return f.pos == b.value
    return True


def _exit_data_sim(ctx: Ctx) -> _Sym:
    ex = _method(ctx.repo, "TunnelCommunity", "exit_data", TC)
    params = ex.params()
    cid, sock = params[1], params[2]
    reg = f"self.exit_sockets[{cid}]"          # the socket registered under the cell's circuit id
    idem = _enable_idempotent(ctx)

    def on_site(sym: _Sym, fr: _Frame, c: ast.Call, tag: str, st: _St) -> dict:
        if tag not in ("enable", "emit") or not isinstance(c.func, ast.Attribute):
            return {}
        out = {"recv": norm(sym.C(fr, c.func.value, st)) == reg,
               "fresh": not any(t.startswith("self.exit_sockets") for t in st.stored)}
        enabled = st.known("truthy", f"{reg}.enabled") is True
        if tag == "enable":
            ip = st.known("eq", f"{sock}[0]", f"{reg}.hop.address[0]") is True
            out["ip"] = ip or (idem and enabled)
        else:
            out["known"] = (st.known("in", cid, "self.exit_sockets") is True or st.known("truthy", reg) is True
                            or st.known("is", reg, "None") is False)
            out["enabled"] = enabled
            # (the null-destination guard may live here instead of in the caller: exit_data is only called from on_data)
            a = arg(c, 1, "destination")
            xa = sym.C(fr, a, st) if a is not None else None
            out["null"] = len(params) > 3 and isinstance(xa, ast.Name) and xa.id == params[3] and not local_defs(ex, params[3]) \
                and _not_null_on(st, xa)
        return out
    return _sim(ctx, "exit_data", lambda: _Sym(ctx, ex, _site_tag, on_site))


def _via_helper(ctx: Ctx, sym: _Sym, fi: FuncInfo | None, c: ast.Call) -> bool:
    """c sits in a NEW helper that was walked from sym's function with the caller's facts, the call was judged there, and the
    helper cannot be entered any other way (every call of it in the repository was followed by that walk)"""
    if fi is None or id(c) not in sym.results:
        return False
    return _via_walk(ctx, sym, fi)


def _via_walk(ctx: Ctx, sym: _Sym, fi: FuncInfo | None) -> bool:
    """fi is a NEW helper that was walked from sym's function and cannot be entered any other way"""
    if fi is None or fi not in sym.helpers:
        return False
    deco = next((w[3] for w in sym.__dict__.get("_wrappers", {}).values() if w is not None and w[0] == fi), None)
    if deco is not None:
        # fi is the wrapper a new decorator returns: it runs exactly when a function carrying that decorator is called - each of those
        # must be the walked function itself or a new helper that is only entered by the walk
        for m in ctx.repo.modules.values():
            for n in ast.walk(m.tree):
                if not ((isinstance(n, ast.Name) and n.id == deco.name and isinstance(n.ctx, ast.Load)) or (isinstance(n, ast.Attribute) and n.attr == deco.name)):
                    continue
                top, q = n, parent(n)
                while q is not None and isinstance(q, ast.expr):
                    top, q = q, parent(q)
                if not (isinstance(q, (ast.FunctionDef, ast.AsyncFunctionDef)) and any(top is d for d in q.decorator_list)):
                    return False
                g = getattr(q, "_info", None)
                if g is None or not (g == sym.fi or (g != fi and _via_walk(ctx, sym, g))):
                    return False
        return True
    if not all(id(k) in sym.followed for _, _, k in ctx.repo.callers_of_name(fi.name)):
        return False
    # and it is not handed around as a value (callback, table entry outside a followed call)
    for m in ctx.repo.modules.values():
        for n in ast.walk(m.tree):
            named = (isinstance(n, ast.Attribute) and n.attr == fi.name) or (isinstance(n, ast.Name) and n.id == fi.name and isinstance(n.ctx, ast.Load))
            if not named:
                continue
            p = parent(n)
            if isinstance(p, ast.Call) and p.func is n and id(p) in sym.followed:
                continue
            # an entry of a literal dispatch table / a local that holds the callable, inside a walked function: the call through it
            # was followed (a dispatch table denotes the set of its values); an argument of another call (callback) is not
            walked = ctx.repo.function_of(n)
            if isinstance(p, (ast.Tuple, ast.List, ast.Dict, ast.Assign, ast.IfExp)) and walked is not None \
                    and (walked == sym.fi or walked in sym.helpers):
                continue
            if walked is None and _table_only_read_by(ctx, n, sym):
                continue
            return False
    return True


def _table_only_read_by(ctx: Ctx, entry: ast.AST, sym: _Sym) -> bool:
    """entry is an element of a literal table assigned (once) to a module-level / class-level name, and that name is read only inside
    the functions the walk went through (which followed every call made through the table)"""
    q = entry
    while parent(q) is not None and isinstance(parent(q), (ast.Tuple, ast.List, ast.Dict, ast.Set)):
        q = parent(q)
    st = parent(q)
    if q is entry or not (isinstance(st, (ast.Assign, ast.AnnAssign)) and st.value is q and enclosing_function(st) is None):
        return False
    tgts = st.targets if isinstance(st, ast.Assign) else [st.target]
    if len(tgts) != 1 or not isinstance(tgts[0], ast.Name):
        return False
    name = tgts[0].id
    reads = 0
    for m in ctx.repo.modules.values():
        for n in ast.walk(m.tree):
            if (isinstance(n, ast.Name) and n.id == name) or (isinstance(n, ast.Attribute) and n.attr == name):
                if n is tgts[0]:
                    continue
                if not isinstance(n.ctx, ast.Load):
                    return False
                w = ctx.repo.function_of(n)
                if w is None or not (w == sym.fi or w in sym.helpers):
                    return False
                reads += 1
    return reads > 0


def _unwalked(sym: _Sym, fi: FuncInfo, tag: str) -> None:
    for c in calls(fi):
        if _site_tag(c) == tag and id(c) not in sym.results:
            raise AnalysisError(f"undecided: `{norm(c)[:80]}` in {fi.qualname} is not evaluated on any path the walk considers feasible")


def rule_gates(ctx: Ctx) -> None:
    repo = ctx.repo
    sendto = _method(repo, "TunnelExitSocket", "sendto", ES)
    sym = _sendto_sim(ctx)
    _unwalked(sym, sendto, "emit")
    emit = ctx.anchor(sym.sites("emit"), "transport.sendto call reached from TunnelExitSocket.sendto")
    for fr, c in emit:
        facts = sym.site_facts.get(id(c), [])
        ctx.check(sym.verdict(c, "gate"), "gate-out", fr.fi, c, "transport.sendto(data, ..) only on paths with a truthy is_allowed(data) on the same data",
                  "data can reach the outside socket without passing the exit policy (or a different buffer is checked)", facts)
        # the address actually handed to the transport (after any domain-name resolution re-entered sendto) is not the null address
        ctx.check(sym.verdict(c, "null"), "null-destination", fr.fi, c,
                  "transport.sendto(data, destination) only on paths with destination != ('0.0.0.0', 0) on the emitted address",
                  "the address handed to the outside socket is not re-checked: a domain name that resolves to 0.0.0.0 (e.g. '0') with port 0 "
                  "passes on_data's test and is emitted towards 0.0.0.0:0", facts)
    # queued / re-entrant sends go through sendto again (and are re-checked there)
    for c in calls(sendto, "self.queue.append"):
        ctx.check(True, "gate-out", sendto, c, "queued data is replayed through self.sendto (re-checked)")
    # nested resolution callback re-enters self.sendto
    for sub in [f for f in sendto.module.all_functions if f.qualname.startswith(sendto.qualname + ".")]:
        for c in calls(sub):
            if call_name(c) == "sendto" and id(c) not in sym.results:
                ctx.check(chain(c.func) == "self.sendto", "gate-out", sub, c, "resolution callback re-enters self.sendto",
                          "the DNS resolution callback emits without re-entering the policy gate")
    # who may call what
    xsym = _exit_data_sim(ctx)
    n = 0
    for fi in repo.all_functions():
        if not fi.module.relpath.startswith(ANON):
            continue
        for c in calls(fi):
            if call_name(c) != "sendto":
                continue
            n += 1
            ch = chain(c.func) or ""
            if ch == "self.sendto":
                ok = _in_class(repo, fi, "TunnelExitSocket", ES)
                why = "self.sendto used outside TunnelExitSocket"
            elif isinstance(c.func, ast.Attribute) and id(c) not in sym.results and id(c) not in xsym.results and _own_socket(ctx, fi, c.func.value):
                # a callback object / function the socket made for itself re-enters the socket's own sendto (gated like any other call)
                ok = True
                why = ""
            elif "exit_sockets" in ch or _is_exit_socket_alias(fi, c) or id(c) in xsym.results:
                ok = _is_method(repo, fi, "TunnelCommunity", "exit_data", TC) or _via_helper(ctx, xsym, fi, c)
                why = "exit_socket.sendto called outside TunnelCommunity.exit_data (previous-hop / null-destination checks bypassed)"
            else:
                ok = fi == sendto or _via_helper(ctx, sym, fi, c)
                why = "a transport's sendto is called outside TunnelExitSocket.sendto (exit policy bypassed)"
            ctx.check(ok, "gate-out.who", fi, c, f"sendto caller {fi.qualname}: {ch}", why)
    for s_ in (sym, xsym):
        for fr, c, t in s_.site_nodes.values():
            if t in ("emit", "requeue") and call_name(c) != "sendto":
                # a send spelt through a bound callable (partial / methodcaller / local alias): found by the walk, so inside the gated function
                n += 1
                ctx.check(True, "gate-out.who", fr.fi, c, f"sendto through a bound callable in {fr.fi.qualname}")
    ctx.floor("gate-out.who", n, 4)
    # (a callback object the socket built around its own `self` - the class form of a nested closure - counts as the socket itself;
    #  a sendto on the transport from there is still reported by the caller rule above)
    for m, fi, a in repo.attribute_uses("transport_ipv4"):
        ctx.check(fi is not None and (_in_class(repo, fi, "TunnelExitSocket", ES) or _own_socket(ctx, fi, a.value) or _via_walk(ctx, sym, fi)), "gate-out.who", fi or m.relpath, a,
                  "transport_ipv4 used only inside TunnelExitSocket", "exit transport accessed from outside TunnelExitSocket")
    for m, fi, a in repo.attribute_uses("transport_ipv6"):
        ctx.check(fi is not None and (_in_class(repo, fi, "TunnelExitSocket", ES) or _own_socket(ctx, fi, a.value) or _via_walk(ctx, sym, fi)), "gate-out.who", fi or m.relpath, a,
                  "transport_ipv6 used only inside TunnelExitSocket", "exit transport accessed from outside TunnelExitSocket")

    # ---- inbound
    dr = _method(repo, "TunnelExitSocket", "datagram_received", ES)
    dsym = _datagram_sim(ctx)
    _unwalked(dsym, dr, "tunnel")
    td = ctx.anchor(dsym.sites("tunnel"), "tunnel_data call reached from datagram_received")
    # The filter sits in datagram_received in front of the call - or one step further in (at the top of tunnel_data, whose only
    # caller this is) - or one step further out (in both transport callbacks, the only callers of datagram_received).
    tsym = _tunnel_data_sim(ctx)
    in_callee = tsym is not None and bool(tsym.sites("send_data")) and all(tsym.verdict(c2, "gate") for _, c2 in tsym.sites("send_data"))
    fsyms = _forwarder_sims(ctx)
    in_callers = not local_defs(dr, dr.params()[1]) and all(f.sites("forward") and all(f.verdict(c2, "gate") for _, c2 in f.sites("forward")) for f in fsyms) \
        and all(fi2 is not None and (any(_is_method(repo, fi2, "TunnelExitSocket", k, ES) for k in ("datagram_received_ipv4", "datagram_received_ipv6"))
                                     or any(fi2 in f.helpers for f in fsyms))
                for m2, fi2, c2 in repo.callers_of_name("datagram_received") if chain(c2.func) == "self.datagram_received" and m2.relpath == ES
                and _in_class(repo, fi2, "TunnelExitSocket", ES))
    for fr, c in td:
        d = arg(c, 1, "data")
        same = d is not None and _param_root(fr.fi, d) == dr.params()[1] if fr.fi == dr else False
        moved = (in_callee and same) or (in_callers and same)
        ctx.check(dsym.verdict(c, "gate") or moved, "gate-in", fr.fi, c, "tunnel_data(source, data) only on paths with a truthy is_allowed(data) on the same data",
                  "data from the outside can enter the tunnel without passing the exit policy", dsym.site_facts.get(id(c), []))
    for m, fi, c in repo.callers_of_name("tunnel_data"):
        if chain(c.func) == "self.tunnel_data" and _in_class(repo, fi, "TunnelExitSocket", ES):
            ctx.check(fi == dr or _via_helper(ctx, dsym, fi, c), "gate-in.who", fi, c,
                      "TunnelExitSocket.tunnel_data called only from datagram_received",
                      "tunnel_data is called around the inbound policy gate")
        elif fi is not None and (fi.cls is None or not fi.cls.is_subclass_of("TunnelCommunity")):
            ctx.check(_via_helper(ctx, dsym, fi, c), "gate-in.who", fi, c, "no foreign caller of tunnel_data", "tunnel_data called from unexpected place")
    # datagram_received_ipv4/6 forward to datagram_received
    for name in ("datagram_received_ipv4", "datagram_received_ipv6"):
        f2 = _method(repo, "TunnelExitSocket", name, ES)
        fw = calls(f2, "self.datagram_received")
        # anything that may have an effect besides the forward (logging / len / str / address constructors have none here)
        others = [c for c in calls(f2) if chain(c.func) not in ("self.datagram_received", "UDPv4Address", "UDPv6Address", "self.is_allowed")
                  and call_may_raise(c) and not _pure_value_method(f2, c)]
        ctx.check(bool(fw) and not others, "gate-in", f2, f2.node, f"{name} only forwards to datagram_received",
                  f"{name} does something other than forwarding to the gated datagram_received")
        for c in fw:
            ctx.check(_param_root(f2, arg(c, 0, "data")) == f2.params()[1], "gate-in", f2, c,
                      f"{name} forwards the received data unchanged",
                      "the inbound callback forwards different data than it received")


_VALUE_METHODS = {"startswith", "endswith", "lower", "upper", "split", "rsplit", "partition", "rpartition", "strip", "lstrip", "rstrip",
                  "removeprefix", "removesuffix", "replace", "find", "index", "count", "isdigit", "encode", "decode", "format", "join", "hex"}


def _pure_value_method(fi: FuncInfo, c: ast.Call) -> bool:
    """a str / bytes / tuple method on a value derived from the function's own parameters or locals (not on self): no effect"""
    f = c.func
    if isinstance(f, ast.Name):
        return f.id in _SIM_PURE
    if not (isinstance(f, ast.Attribute) and f.attr in _VALUE_METHODS):
        return False
    root = f.value
    while isinstance(root, (ast.Attribute, ast.Subscript, ast.Call)):
        root = root.func if isinstance(root, ast.Call) else root.value
    return isinstance(root, (ast.Name, ast.Constant)) and not (isinstance(root, ast.Name) and root.id in ("self", "cls"))


def _reviewed_functions() -> dict:
    from ..localnames import load_table
    return load_table()


def _socket_self_at(ctx: Ctx, site: ast.AST, e: ast.AST | None) -> bool:
    """e is the name `self` of a TunnelExitSocket method (read in the method itself or in a function nested in it)"""
    if not (isinstance(e, ast.Name) and e.id == "self"):
        return False
    f = enclosing_function(site)
    while f is not None and "self" not in [a.arg for a in f.args.posonlyargs + f.args.args + f.args.kwonlyargs]:
        if isinstance(f, ast.Lambda) or any(isinstance(t, ast.Name) and t.id == "self" and isinstance(t.ctx, ast.Store) for t in walk_no_nested(f)):
            return False
        f = enclosing_function(f)
    info = getattr(f, "_info", None) if f is not None else None
    return info is not None and _in_class(ctx.repo, info, "TunnelExitSocket", ES) \
        and parent(f) is info.cls.node and f.args.args[:1] and f.args.args[0].arg == "self" and "staticmethod" not in info.decorator_names() \
        and "classmethod" not in info.decorator_names() and not local_defs(info, "self")


def _bound_argument(fn: ast.AST, call: ast.Call, param: str, skip: int, bound_first: int = 0) -> ast.AST | None:
    """the argument expression `call` passes for parameter `param` of function node fn (skip: leading parameters bound implicitly)"""
    if any(isinstance(a, ast.Starred) for a in call.args) or any(k.arg is None for k in call.keywords):
        return None
    pos = [a.arg for a in fn.args.posonlyargs + fn.args.args][skip:]
    args = call.args[bound_first:]
    if param in pos and pos.index(param) < len(args):
        return args[pos.index(param)]
    hit = [k.value for k in call.keywords if k.arg == param]
    return hit[0] if len(hit) == 1 else None


def _only_called(ctx: Ctx, name: str, accept) -> bool:
    """every mention of `name` in the repository is the callee of a call (or the first argument of functools.partial) that
    accept(call, partial: bool) approves, or sits in an annotation / is the definition itself"""
    for m in ctx.repo.modules.values():
        for n in ast.walk(m.tree):
            if not ((isinstance(n, ast.Name) and n.id == name and isinstance(n.ctx, ast.Load)) or (isinstance(n, ast.Attribute) and n.attr == name)):
                continue
            p = parent(n)
            if isinstance(p, ast.Call) and p.func is n:
                if not accept(p, False):
                    return False
                continue
            if isinstance(p, ast.Call) and chain(p.func) in ("partial", "functools.partial") and p.args and p.args[0] is n:
                if not accept(p, True):
                    return False
                continue
            a, q = n, p
            in_annotation = False
            while q is not None and not isinstance(q, ast.stmt):
                if (isinstance(q, ast.arg) and q.annotation is a) or (isinstance(q, (ast.FunctionDef, ast.AsyncFunctionDef)) and q.returns is a):
                    in_annotation = True
                a, q = q, parent(q)
            if isinstance(q, ast.AnnAssign) and q.annotation is a:
                in_annotation = True
            if isinstance(q, (ast.FunctionDef, ast.AsyncFunctionDef)) and (q.returns is a or any(
                    x.annotation is not None and any(y is n for y in ast.walk(x.annotation)) for x in ast.walk(q.args) if isinstance(x, ast.arg))):
                in_annotation = True
            if not in_annotation:
                return False
    return True


def _own_socket(ctx: Ctx, fi: FuncInfo | None, e: ast.AST) -> bool:
    """In function fi, expression e always denotes the TunnelExitSocket that created the object / bound the callable fi belongs to:
    fi lives in a class (or is a function) the reviewed tree does not have, which is only ever constructed (called, wrapped in
    functools.partial) inside TunnelExitSocket's own methods with that method's `self` in the position e reads.  Calling
    <e>.sendto(..) is then the socket re-entering its own gated sendto, exactly like the nested closure that captured `self`."""
    if fi is None:
        return False
    if _is_new_file(ctx.repo, fi.module.relpath):
        table = {}                          # (a module the reviewed tree does not have: everything in it is new)
    elif fi.module.relpath == ES:
        table = _reviewed_functions().get(ES)
    else:
        return False
    if table is None or fi.qualname in table:
        return False
    x = _expand(fi, e)
    # (a) a parameter of a new function / method that every caller binds to its own `self`
    if isinstance(x, ast.Name) and x.id in fi.params() and not local_defs(fi, x.id) and x.id not in ("self", "cls"):
        if enclosing_function(fi.node) is not None:
            return False
        is_method = fi.cls is not None and "staticmethod" not in fi.decorator_names()
        if fi.cls is not None and (fi.cls.all_subclasses() or len([c for c in ctx.repo.all_classes() if fi.name in c.methods]) != 1):
            return False

        def accept(call: ast.Call, partial: bool) -> bool:
            if is_method:
                recv = call.args[0] if partial else call.func
                if not (isinstance(recv, ast.Attribute) and isinstance(recv.value, ast.Name)):
                    return False
            a = _bound_argument(fi.node, call, x.id, 1 if is_method else 0, 1 if partial else 0)
            return a is not None and _socket_self_at(ctx, call, a)
        return _only_called(ctx, fi.name, accept)
    # (b) an attribute of a new carrier class that its constructor fills from a parameter every construction binds to `self`
    if not (isinstance(x, ast.Attribute) and isinstance(x.value, ast.Name) and x.value.id == "self" and fi.cls is not None
            and fi.node.args.args[:1] and fi.node.args.args[0].arg == "self" and not local_defs(fi, "self")):
        return False
    k = fi.cls
    if k.name == "TunnelExitSocket" or k.all_subclasses() or k.bases or any(f"{k.name}.{m}" in table for m in k.methods) \
            or len(ctx.repo.classes.get(k.name, [])) != 1 or parent(k.node) is not k.module.tree:
        return False
    if any(b.split(".")[-1] not in ("object", "NamedTuple") for b in k.base_names):
        return False
    attr = x.attr
    init = k.methods.get("__init__")
    param = None
    stores = [(f, n) for m, f, n in ctx.repo.attribute_uses(attr) if isinstance(n.ctx, (ast.Store, ast.Del))
              # (`self.<attr> = ..` in a method of an unrelated class writes another object)
              and not (isinstance(n.value, ast.Name) and n.value.id == "self" and f is not None and f.cls is not None and f.cls is not k
                       and k not in f.cls.mro() and enclosing_function(f.node) is None)]
    if init is not None:
        own = [n for f, n in stores if f == init and isinstance(n.value, ast.Name) and n.value.id == "self"]
        if len(stores) != 1 or len(own) != 1 or "__new__" in k.methods or "__setattr__" in k.methods or "__getattr__" in k.methods:
            return False
        st = parent(own[0])
        if not (isinstance(st, (ast.Assign, ast.AnnAssign)) and st.value is not None and isinstance(strip_cast(st.value), ast.Name)
                and (not isinstance(st, ast.Assign) or (len(st.targets) == 1 and st.targets[0] is own[0]))):
            return False
        param = strip_cast(st.value).id
        if param not in init.params()[1:] or local_defs(init, param) or local_defs(init, "self"):
            return False
        ctor = init.node
    else:
        # a dataclass / NamedTuple: the generated constructor stores its arguments in the fields
        dc = [d for d in k.node.decorator_list if (chain(d.func if isinstance(d, ast.Call) else d) or "").split(".")[-1] == "dataclass"]
        is_nt = [b.split(".")[-1] for b in k.base_names] == ["NamedTuple"]
        if stores or not (is_nt or (dc and len(k.node.decorator_list) == 1 and not k.base_names)) or attr not in k.annotations or attr in k.attrs \
                or any(h in k.methods for h in ("__new__", "__post_init__", "__setattr__", "__getattr__", "__getattribute__", attr)) \
                or any(isinstance(d, ast.Call) and (d.args or any(kw.arg in ("init", "kw_only") for kw in d.keywords)) for d in dc):
            return False
        fields = [t.target.id for t in k.node.body if isinstance(t, ast.AnnAssign) and isinstance(t.target, ast.Name)
                  and "ClassVar" not in norm(t.annotation)]
        if any("InitVar" in norm(t.annotation) for t in k.node.body if isinstance(t, ast.AnnAssign)):
            return False
        param = attr
        ctor = ast.FunctionDef(name="__init__", args=ast.arguments(posonlyargs=[], args=[ast.arg(arg="self"), *[ast.arg(arg=f) for f in fields]],
                                                                   kwonlyargs=[], kw_defaults=[], defaults=[]), body=[], decorator_list=[])

    def accept_ctor(call: ast.Call, partial: bool) -> bool:
        a = _bound_argument(ctor, call, param, 1, 1 if partial else 0)
        return a is not None and _socket_self_at(ctx, call, a)
    return _only_called(ctx, k.name, accept_ctor)


def _is_exit_socket_alias(fi: FuncInfo, c: ast.Call) -> bool:
    f = c.func
    if isinstance(f, ast.Attribute) and isinstance(f.value, ast.Name):
        for _, v, _ in local_defs(fi, f.value.id):
            if v is not None and "exit_sockets" in (chain(v) or norm(v)):
                return True
        for p in fi.node.args.args:
            if p.arg == f.value.id and p.annotation is not None and "TunnelExitSocket" in norm(p.annotation):
                return True
    return False


def rule_null_and_prev_hop(ctx: Ctx) -> None:
    repo = ctx.repo
    on_data = _method(repo, "TunnelCommunity", "on_data", TC)
    osym = _on_data_sim(ctx)
    _unwalked(osym, on_data, "exit_data")
    ed = ctx.anchor(osym.sites("exit_data"), "exit_data call reached from on_data")
    # the guard sits in front of the call - or at the top of exit_data itself (on every path to its send, about its own
    # destination parameter, which the call below fills with the payload's dest_address)
    xs = _exit_data_sim(ctx)
    exd = _method(repo, "TunnelCommunity", "exit_data", TC)
    in_callee = bool(xs.sites("emit")) and all(xs.verdict(c2, "null") for _, c2 in xs.sites("emit"))
    for fr, c in ed:
        # the destination is the payload's dest_address, and it is not the null address on any path to the call
        passed = arg(c, 2, exd.params()[3]) if len(exd.params()) > 3 else None
        moved = in_callee and passed is not None
        ctx.check((osym.verdict(c, "null") or moved) and osym.verdict(c, "payload"), "null-destination", fr.fi, c,
                  "exit_data only on paths with destination != ('0.0.0.0', 0)",
                  "data addressed to 0.0.0.0:0 can be handed to the exit socket", osym.site_facts.get(id(c), []))
        ctx.check(osym.verdict(c, "source"), "previous-hop", fr.fi, c,
                  f"exit_data is given the address the DATA cell was received from ({on_data.params()[1]}) as the sender it compares with the previous hop",
                  f"exit_data's sender argument is not on_data's own source address `{on_data.params()[1]}` on every path: the previous-hop "
                  "comparison in exit_data (sender IP == hop IP, the only thing that opens the outside socket) is then made on a value the "
                  "sender of the cell can choose (e.g. the payload's org_address), so data from any IP can open the exit socket and be emitted",
                  osym.site_facts.get(id(c), []))
    for m, fi, c in repo.callers_of_name("exit_data"):
        ctx.check(fi is not None and (fi == on_data or _via_helper(ctx, osym, fi, c)), "null-destination.who",
                  fi or m.relpath, c, "exit_data called only from on_data", "exit_data is called around the null-destination check")

    ex = _method(repo, "TunnelCommunity", "exit_data", TC)
    cfg = ctx.cfg(ex)
    params = ex.params()
    cid, sock = params[1], params[2]

    def X(e: ast.AST) -> str:
        return _xnorm(ex, e, dict_get=True)

    # the comparison must be about the address / circuit id the caller passed and about the registered hop, not about
    # something exit_data itself wrote just before
    for p in (cid, sock):
        ctx.check(not local_defs(ex, p), "previous-hop", ex, ex.node, f"exit_data judges the {p} it was given",
                  f"exit_data rebinds its parameter {p}: the previous-hop comparison no longer concerns the caller's value")
    xsym = _exit_data_sim(ctx)
    _unwalked(xsym, ex, "enable")
    _unwalked(xsym, ex, "emit")
    en = ctx.anchor(xsym.sites("enable"), "enable() call reached from exit_data")
    sends = xsym.sites("emit")
    sinks = {n for c in calls(ex) if _site_tag(c) in ("enable", "emit") for n in cfg.nodes_for(c)}
    for st, tgt in stores(ex, lambda c: True):
        if isinstance(tgt, ast.Name) or not X(tgt).startswith("self.exit_sockets"):
            continue
        before = any(s in cfg.reach(cfg.nodes_for(st)) for s in sinks)
        ctx.check(not before, "previous-hop", ex, st, "exit_data does not rewrite the registered socket / hop before using it",
                  "exit_data overwrites the registered exit socket or its hop address before the previous-hop comparison / send")
    for fr, c in [*en, *sends]:
        ctx.check(xsym.verdict(c, "fresh"), "previous-hop", fr.fi, c, "nothing on the way rewrote the registered socket / hop",
                  "the registered exit socket or its hop address is overwritten on a path to this call, before the previous-hop comparison / send")
    for fr, c in en:
        ctx.check(xsym.verdict(c, "ip") and xsym.verdict(c, "recv"), "previous-hop", fr.fi, c,
                  "enable() only on paths with sock_addr[0] == exit_sockets[cid].hop.address[0] (or on an already enabled socket)",
                  "the outside socket can be opened by data that did not come from the circuit's previous hop",
                  xsym.site_facts.get(id(c), []))
    # the send itself: either socket already enabled or just enabled by the checked branch
    for fr, c in sends:
        ctx.check(xsym.verdict(c, "known") and xsym.verdict(c, "recv"), "previous-hop", fr.fi, c,
                  "sendto only on the exit socket registered under this circuit id",
                  "data is handed to an exit socket other than the one registered for the cell's circuit id",
                  xsym.site_facts.get(id(c), []))
        # reaching sendto with a disabled socket must have gone through the IP comparison: every path to sendto passed
        # either `enabled` truthy or the enable() call
        ctx.check(xsym.verdict(c, "enabled"), "previous-hop", fr.fi, c, "send requires an enabled socket or the checked enable()",
                  "data can be sent through a socket that was not enabled by the previous-hop check", xsym.site_facts.get(id(c), []))
    for m, fi, c in repo.callers_of_name("enable"):
        if fi is None or not fi.module.relpath.startswith(ANON):
            continue
        ctx.check(fi == ex or _via_helper(ctx, xsym, fi, c), "previous-hop.who", fi, c,
                  "enable() called only from exit_data", "an exit socket is enabled around the previous-hop check")
    # `enabled` written only by enable()  (when `enabled` is a read-only property over a state holder - `return self._state.open` -
    # the attributes on that path are what is written, and the same closed set of writers applies to them)
    backing, holders = {"enabled"}, set()
    sock_cls = repo.cls("TunnelExitSocket", ES)
    getter = next((b.methods["enabled"] for b in sock_cls.mro() if "enabled" in b.methods), None)
    if getter is not None:
        body = [x for x in getter.node.body if not (isinstance(x, ast.Expr) and isinstance(x.value, ast.Constant))]
        path = chain(body[0].value) if len(body) == 1 and isinstance(body[0], ast.Return) and body[0].value is not None else None
        if "property" not in getter.decorator_names() or path is None or not path.startswith("self.") or "(" in path or "[" in path:
            raise AnalysisError("undecided: TunnelExitSocket.enabled is computed by a method, not a stored flag or a property view of one")
        backing |= set(path.split(".")[1:])
        table = _reviewed_functions()
        holders = {c.name for c in repo.all_classes() if c.module.relpath.startswith(ANON) and (
            _is_new_file(repo, c.module.relpath) or (c.module.relpath in table and not any(
                q.startswith(c.name + ".") for q in table[c.module.relpath])))}
    for m in repo.modules.values():
        if not m.relpath.startswith(ANON):
            continue
        for n in ast.walk(m.tree):
            if isinstance(n, (ast.Assign, ast.AnnAssign, ast.AugAssign)):
                tgts = n.targets if isinstance(n, ast.Assign) else [n.target]
                for t in [e for t in tgts for e in (t.elts if isinstance(t, (ast.Tuple, ast.List)) else [t])]:
                    if isinstance(t, ast.Attribute) and t.attr in backing:
                        fi = repo.function_of(n)
                        is_init = _is_method(repo, fi, "TunnelExitSocket", "__init__", ES)
                        ok = _is_method(repo, fi, "TunnelExitSocket", "enable", ES) or is_init
                        v = strip_cast(n.value) if getattr(n, "value", None) is not None else None
                        if is_init:
                            ok = (isinstance(v, ast.Constant) and v.value is False) or (
                                t.attr != "enabled" and isinstance(v, ast.Call) and isinstance(v.func, ast.Name) and v.func.id in holders)
                        elif not ok and fi is not None and fi.cls is not None and fi.cls.name in holders and fi.name == "__init__":
                            ok = isinstance(v, ast.Constant) and v.value is False        # the state holder starts closed
                        ctx.check(ok, "previous-hop.who", fi or m.relpath, n, "`enabled` set only by enable() (False initially)",
                                  "`enabled` is set outside TunnelExitSocket.enable")


def rule_hop_origin(ctx: Ctx) -> None:
    """The `hop.address` that exit_data's previous-hop comparison reads is the address the CREATE cell came from, held by a
    Peer object made for this circuit: the exit socket's Hop wraps a `Peer(key, <address parameter>)` built where the socket
    is created, and that parameter is the source address of the CREATE handler.  A Peer obtained from somewhere else (the
    network's peer table, a cache) is shared: its address is rewritten in place when that key is seen from another address,
    and the comparison then no longer concerns the circuit's previous hop."""
    repo = ctx.repo
    jc = _method(repo, "TunnelCommunity", "join_circuit", TC)
    addr_param = jc.params()[2]

    def ctor_tag(n: ast.AST) -> str | None:
        if isinstance(n, ast.Call) and (chain(n.func) or "").split(".")[-1] == "TunnelExitSocket":
            return "create"
        if isinstance(n, ast.Call) and call_name(n) == "join_circuit":
            return "join"
        return None

    def on_create_socket(sym: _Sym, fr: _Frame, c: ast.Call, tag: str, st: _St) -> dict:
        if tag != "create":
            return {}
        hop = arg(c, 1, "hop")
        xh = sym.C(fr, hop, st) if hop is not None else None
        peer = arg(xh, 0, "peer") if isinstance(xh, ast.Call) and chain(xh.func) == "Hop" else None
        a = arg(peer, 1, "address") if isinstance(peer, ast.Call) and chain(peer.func) == "Peer" else None
        return {"origin": isinstance(a, ast.Name) and a.id == addr_param}
    sym = _sim(ctx, "join_circuit", lambda: _Sym(ctx, jc, ctor_tag, on_create_socket))
    made = ctx.anchor(sym.sites("create"), "TunnelExitSocket(...) construction reached from join_circuit")
    for fr, c in made:
        ctx.check(sym.verdict(c, "origin"), "previous-hop.origin", fr.fi, c,
                  f"the exit socket's hop is Hop(Peer(key, {addr_param}), ..): a Peer made for this circuit from the CREATE's source address",
                  "the exit socket's previous hop is not a Peer constructed here from the address the CREATE cell came from: a shared / "
                  "looked-up Peer has its address rewritten in place when its key shows up elsewhere, so the IP that exit_data compares "
                  "sock_addr with (hop.address) stops being the circuit's previous hop and other senders can open the outside socket",
                  sym.site_facts.get(id(c), []))
    for m, fi, c in repo.callers_of_name("TunnelExitSocket"):
        if m.relpath.startswith(ANON) and fi is not None:
            ctx.check(fi == jc or _via_helper(ctx, sym, fi, c), "previous-hop.origin", fi, c,
                      "exit sockets are created only by join_circuit", "an exit socket is created outside join_circuit: its previous hop is not "
                      "tied to the source address of a CREATE cell")
    oc = _method(repo, "TunnelCommunity", "on_create", TC)
    src_param = oc.params()[1]

    def on_join(sym2: _Sym, fr: _Frame, c: ast.Call, tag: str, st: _St) -> dict:
        if tag != "join":
            return {}
        a = arg(c, 1, addr_param)
        xa = sym2.C(fr, a, st) if a is not None else None
        return {"source": isinstance(xa, ast.Name) and xa.id == src_param}
    osym = _sim(ctx, "on_create", lambda: _Sym(ctx, oc, ctor_tag, on_join))
    joins = ctx.anchor(osym.sites("join"), "join_circuit call reached from on_create")
    for fr, c in joins:
        ctx.check(osym.verdict(c, "source"), "previous-hop.origin", fr.fi, c,
                  f"join_circuit is given the CREATE cell's source address ({src_param})",
                  "join_circuit is called with an address other than the one the CREATE cell came from: the exit socket's previous hop "
                  "(hop.address, compared by exit_data before opening the outside socket) is then not the sender of the CREATE")
    for m, fi, c in repo.callers_of_name("join_circuit"):
        if m.relpath.startswith(ANON) and fi is not None:
            ctx.check(fi == oc or _via_helper(ctx, osym, fi, c), "previous-hop.origin", fi, c,
                      "join_circuit called only from the CREATE handler", "join_circuit is called from outside on_create")


# ------------------------------------------------------------------------------------------ classifiers
# A classifier is a pure function of a few BASE QUANTITIES of its argument: its length, single bytes at constant offsets,
# big-endian fields at constant offsets, constant multi-byte slices.  Every spelling of a read is brought to one of these
# (`data[0:1] == b"d"`, `data.startswith(b"d")`, `data[0] == 100`, `unpack_from("!B", data)[0]`; `unpack_from("!I", data, 8)[0]`,
# `struct.unpack("!I", data[8:12])[0]`, `int.from_bytes(data[8:12], "big")`; `b >> 4`, `b // 16`, `divmod(b, 16)[0]`; `x in range(4)`).
# The function is walked path by path once (loops over literal tables unrolled, any()/all() over literal sequences, flags,
# ternaries, new helpers followed); each path is the list of condition outcomes that select it plus the returned expression.
# The documented behaviour is a predicate over the base quantities.  Each base quantity gets a finite value set: a quantity
# that is only compared with constants gets {c-1, c, c+1 : c a constant it is compared with in the code or the documentation}
# (every region the comparisons can tell apart contains one), a byte that enters arithmetic (bit fields) gets all 256 values.
# Agreement of code and documentation on the product of these sets is agreement on all inputs (quantities are treated as
# independent, which only adds rows).
_L, _B0, _B1, _BL = "len(data)", "data[0]", "data[1]", "data[-1]"
_A0, _A8 = "be(data, 0, 4)", "be(data, 8, 4)"
CLASSIFIER_SPEC = {
    # name: ({base quantity: constants of the documented tests | "all"}, documented predicate over the base quantities)
    "could_be_ipv8": ({_L: [23], _B0: [0], _B1: [1, 2]},
                      lambda v: v[_L] >= 23 and v[_B0] == 0 and v[_B1] in (1, 2)),
    "could_be_dht": ({_L: [1], _B0: [ord("d")], _BL: [ord("e")]},
                     lambda v: v[_L] > 1 and v[_B0] == ord("d") and v[_BL] == ord("e")),
    "could_be_utp": ({_L: [20], _B0: "all", _B1: [0, 3]},
                     lambda v: v[_L] >= 20 and 0 <= (v[_B0] >> 4) <= 4 and (v[_B0] & 15) == 1 and 0 <= v[_B1] <= 3),
    "could_be_udp_tracker": ({_L: [8, 12], _A0: [0, 3], _A8: [0, 3]},
                             lambda v: (v[_L] >= 8 and 0 <= v[_A0] <= 3) or (v[_L] >= 12 and 0 <= v[_A8] <= 3)),
}
_BINOPS = {ast.RShift: lambda a, b: a >> b, ast.LShift: lambda a, b: a << b, ast.BitAnd: lambda a, b: a & b, ast.BitOr: lambda a, b: a | b,
           ast.BitXor: lambda a, b: a ^ b, ast.Add: lambda a, b: a + b, ast.Sub: lambda a, b: a - b, ast.Mult: lambda a, b: a * b,
           ast.FloorDiv: lambda a, b: a // b, ast.Mod: lambda a, b: a % b}
_CMP = {ast.Eq: lambda a, b: a == b, ast.NotEq: lambda a, b: a != b, ast.Lt: lambda a, b: a < b, ast.LtE: lambda a, b: a <= b,
        ast.Gt: lambda a, b: a > b, ast.GtE: lambda a, b: a >= b, ast.In: lambda a, b: a in b, ast.NotIn: lambda a, b: a not in b}


def _is_int_const(e: ast.AST) -> bool:
    return isinstance(e, ast.Constant) and isinstance(e.value, int) and not isinstance(e.value, bool)


def _base_quantity(x: ast.AST) -> str | None:
    """'len' / 'byte' / 'field' / 'slice' when x is a base quantity of `data` (canonical form), else None"""
    if isinstance(x, ast.Call) and chain(x.func) == "len" and len(x.args) == 1 and not x.keywords and chain(x.args[0]) == "data":
        return "len"
    if isinstance(x, ast.Call) and chain(x.func) == "be" and len(x.args) == 3 and chain(x.args[0]) == "data" \
            and all(_is_int_const(a) for a in x.args[1:]):
        return "field"
    if isinstance(x, ast.Subscript) and chain(x.value) == "data":
        if isinstance(x.slice, ast.Slice):
            bounds = [b for b in (x.slice.lower, x.slice.upper) if b is not None]
            return "slice" if x.slice.step is None and all(const_value(b) is not NOCONST for b in bounds) else None
        return "byte" if isinstance(const_value(x.slice), int) else None
    return None


def _scan_quantities(x: ast.AST, out: dict, where: str) -> None:
    """base quantities in canonical expression x: text -> {"kind", "consts", "arith"}; anything else that mentions `data` is
    not a quantity the table can give values to"""
    def visit(n: ast.AST, par: ast.AST | None) -> None:
        k = _base_quantity(n)
        if k is not None:
            q = out.setdefault(norm(n), {"kind": k, "consts": set(), "arith": False})
            if isinstance(par, ast.Compare):
                ops = [par.left, *par.comparators]
                others = [o for o in ops if o is not n]
                for o in others:
                    v = const_value(o)
                    if v is NOCONST and isinstance(o, (ast.List, ast.Set, ast.Tuple)):
                        vs = [const_value(e) for e in o.elts]
                        v = tuple(vs) if all(e is not NOCONST for e in vs) else NOCONST
                    if v is NOCONST:
                        q["arith"] = True           # compared with something that is not a constant
                    else:
                        q["consts"].update(v if isinstance(v, tuple) else [v])
                if any(isinstance(op, (ast.Is, ast.IsNot)) for op in par.ops):
                    raise AnalysisError(f"undecided: identity test `{norm(par)}` in classifier {where}")
                if k == "slice" and any(not isinstance(op, (ast.Eq, ast.NotEq, ast.In, ast.NotIn)) for op in par.ops):
                    raise AnalysisError(f"undecided: classifier {where} orders a byte slice in `{norm(par)}`")
            else:
                q["arith"] = True
            return
        if isinstance(n, ast.Name) and n.id == "data":
            raise AnalysisError(f"undecided: classifier {where} inspects `{norm(par if par is not None else n)[:80]}`, not a length / byte / "
                                f"big-endian field / constant slice of its argument")
        for c in ast.iter_child_nodes(n):
            visit(c, n)
    visit(x, None)


def _ev(x: ast.AST, val: dict, where: str):
    """value of canonical expression x for concrete values of the base quantities"""
    if isinstance(x, ast.Constant):
        return x.value
    if isinstance(x, (ast.Tuple, ast.List, ast.Set)):
        return tuple(_ev(e, val, where) for e in x.elts)
    if _base_quantity(x) is not None:
        return val[norm(x)]
    if isinstance(x, ast.UnaryOp):
        v = _ev(x.operand, val, where)
        if isinstance(x.op, ast.Not):
            return not v
        if isinstance(x.op, ast.USub):
            return -v
        if isinstance(x.op, ast.Invert):
            return ~v
    if isinstance(x, ast.BinOp) and type(x.op) in _BINOPS:
        return _BINOPS[type(x.op)](_ev(x.left, val, where), _ev(x.right, val, where))
    if isinstance(x, ast.BoolOp):
        v = None
        for e in x.values:
            v = _ev(e, val, where)
            if bool(v) != isinstance(x.op, ast.And):
                return v
        return v
    if isinstance(x, ast.IfExp):
        return _ev(x.body if _ev(x.test, val, where) else x.orelse, val, where)
    if isinstance(x, ast.Compare) and all(type(op) in _CMP for op in x.ops):
        vals = [_ev(o, val, where) for o in [x.left, *x.comparators]]
        try:
            return all(_CMP[type(op)](a, b) for op, a, b in zip(x.ops, vals, vals[1:]))
        except TypeError as ex:
            raise AnalysisError(f"undecided: cannot evaluate `{norm(x)}` in classifier {where}: {ex}") from None
    if isinstance(x, ast.Call) and chain(x.func) in ("bool", "int", "any", "all") and len(x.args) == 1 and not x.keywords:
        v = _ev(x.args[0], val, where)
        return {"bool": bool, "int": int, "any": any, "all": all}[chain(x.func)](v)
    raise AnalysisError(f"undecided: classifier {where} decides on `{norm(x)[:80]}`, which is not a comparison of its inspected quantities")


def _quantity_domain(q: str, info: dict, hint, int_consts: set) -> list:
    kind, consts = info["kind"], set(info["consts"])
    if hint == "all":
        info = {**info, "arith": True}
    elif hint:
        consts |= set(hint)
    if kind == "slice":
        cs = sorted(c for c in consts if isinstance(c, bytes))
        other = b"\xfe"
        while other in cs:
            other += b"\xfe"
        return [*cs, other]
    ints = [c for c in consts if isinstance(c, int) and not isinstance(c, bool)]
    hi = {"len": None, "byte": 255, "field": None}[kind]
    if kind == "field":
        hi = 256 ** int(q.rsplit(",", 1)[1].strip(" )")) - 1
    if info["arith"]:
        if kind == "byte":
            return list(range(256))
        if kind == "len":
            return list(range(max([c for c in int_consts if c < 4096] or [0]) + 3))
        raise AnalysisError(f"undecided: the multi-byte field {q} enters arithmetic / is compared with a non-constant")
    dom = {c + d for c in ints for d in (-1, 0, 1)} | {0}
    if hi is not None:
        dom.add(hi)
    return sorted(v for v in dom if v >= 0 and (hi is None or v <= hi))


def _split_fields(x: ast.AST, fields: set[str]) -> ast.AST:
    """copy of canonical expression x in which every big-endian field named in `fields` is spelt by its bytes:
    be(data, o, 2) == data[o] << 8 | data[o + 1]  (the decision table then ranges over the bytes, all 256 values each)"""
    class T(ast.NodeTransformer):
        def visit_Call(self, n: ast.Call) -> ast.AST:
            if _base_quantity(n) == "field" and norm(n) in fields:
                off, width = n.args[1].value, n.args[2].value
                out: ast.AST | None = None
                for i in range(width):
                    b = ast.Subscript(value=ast.Name(id="data", ctx=ast.Load()), slice=ast.Constant(value=off + i), ctx=ast.Load())
                    out = b if out is None else ast.BinOp(left=ast.BinOp(left=out, op=ast.LShift(), right=ast.Constant(value=8)), op=ast.BitOr(), right=b)
                return out
            self.generic_visit(n)
            return n
    return T().visit(clone(x))


def _compiled(x: ast.AST, where: str):
    """val -> value of canonical expression x, as _ev computes it (compiled once: the decision tables have up to 10^5.. rows);
    anything the compiled form cannot evaluate is handed to _ev, which explains itself"""
    class T(ast.NodeTransformer):
        def visit(self, n: ast.AST) -> ast.AST:
            if _base_quantity(n) is not None:
                return ast.Subscript(value=ast.Name(id="v", ctx=ast.Load()), slice=ast.Constant(value=norm(n)), ctx=ast.Load())
            if isinstance(n, (ast.List, ast.Set)):
                n = ast.Tuple(elts=list(n.elts), ctx=ast.Load())
            return self.generic_visit(n)
    fn = None
    try:
        body = T().visit(clone(x))
        if not any(isinstance(n, (ast.Lambda, ast.Attribute, ast.Starred, ast.NamedExpr, ast.Await, ast.Yield, ast.YieldFrom, ast.JoinedStr,
                                  ast.ListComp, ast.SetComp, ast.DictComp, ast.GeneratorExp, ast.Dict)) for n in ast.walk(body)) \
                and all(isinstance(n.func, ast.Name) and n.func.id in ("bool", "int", "any", "all") and len(n.args) == 1 and not n.keywords
                        for n in ast.walk(body) if isinstance(n, ast.Call)) \
                and all(n.id == "v" or n.id in ("bool", "int", "any", "all") for n in ast.walk(body) if isinstance(n, ast.Name)):
            lam = ast.Expression(body=ast.Lambda(args=ast.arguments(posonlyargs=[], args=[ast.arg(arg="v")], kwonlyargs=[], kw_defaults=[], defaults=[]),
                                                 body=body))
            ast.fix_missing_locations(lam)
            fn = eval(compile(lam, "<classifier table>", "eval"), {"__builtins__": {}, "bool": bool, "int": int, "any": any, "all": all})  # noqa: S307
    except Exception:  # noqa: BLE001
        fn = None

    def run(val: dict):
        if fn is not None:
            try:
                return fn(val)
            except Exception:  # noqa: BLE001
                pass
        return _ev(x, val, where)
    return run


class _QSym(_Sym):
    """The walk of one classifier: its paths (conditions + returned expression) and the length established at every read."""

    def __init__(self, ctx: Ctx, fi: FuncInfo) -> None:
        super().__init__(ctx, fi, self._read_site, self._on_read)
        self.reads: dict[int, tuple[ast.AST, int, int]] = {}       # id(node) -> (node, needed length, least length established)
        self.summary: list[tuple[tuple, ast.AST]] = []

    def run(self) -> "_QSym":
        fr, st = self._start(first_as="data")
        self.root = fr
        self.summary = [(st2.trail, ret) for kind, ret, st2 in self._paths(fr, st) if kind == "ret"]
        return self

    # -- EAFP: a read of the argument that raises on short input, inside a try whose handler catches exactly that exception
    # (IndexError for data[k], struct.error for a fixed-format unpack), IS a length test: the read completes iff len(data) >= what it
    # needs, and the handler runs iff len(data) is shorter.  The raising outcome is walked into the handler that catches it (handlers in
    # order, outer try statements and the callers of a walked helper next) with that fact on the trail.
    @staticmethod
    def _marker(st: _St, kind: str) -> str | None:
        return next((k[1] for k in st.facts if k[0] == kind), None)

    @staticmethod
    def _set_marker(st: _St, kind: str, val: str | None) -> None:
        for k in [k for k in st.facts if k[0] == kind]:
            st.facts.pop(k)
        if val is not None:
            st.facts[(kind, val, None)] = True

    @staticmethod
    def _handler_catches(fi: FuncInfo, h: ast.ExceptHandler, exc: str) -> bool:
        if h.type is None:
            return True
        m = fi.module
        for e in (h.type.elts if isinstance(h.type, ast.Tuple) else [h.type]):
            c = chain(e)
            if isinstance(e, ast.Name) and (e.id in m.functions or e.id in m.constants or e.id in m.classes):
                continue
            if c in ("Exception", "BaseException") and c not in m.imports:
                return True
            if exc == "IndexError" and c in ("IndexError", "LookupError") and c not in m.imports:
                return True
            if exc == "struct.error":
                if isinstance(e, ast.Name) and m.imports.get(e.id) == ("struct", "error"):
                    return True
                if isinstance(e, ast.Attribute) and e.attr == "error" and isinstance(e.value, ast.Name) and m.imports.get(e.value.id) == ("struct", None):
                    return True
        return False

    def _catching_try(self, fi: FuncInfo, node: ast.AST, exc: str) -> bool:
        """node lies in the body of a try statement (of its own function) one of whose handlers catches exc"""
        cur, p = node, parent(node)
        while p is not None and not isinstance(p, (ast.FunctionDef, ast.AsyncFunctionDef, ast.Lambda, ast.ClassDef)):
            if isinstance(p, ast.Try) and any(cur is x for x in p.body) and any(self._handler_catches(fi, h, exc) for h in p.handlers):
                return True
            cur, p = p, parent(p)
        return False

    @staticmethod
    def _raises(n: ast.AST, tag: str) -> str | None:
        """the exception a read raises on short input (None: it does not raise - int.from_bytes reads a shorter field instead)"""
        if tag == "index":
            return "IndexError"
        if isinstance(n, ast.Call) and ((chain(n.func) or "") == "int.from_bytes" or (isinstance(n.func, ast.Attribute) and n.func.attr == "from_bytes")):
            return None
        return "struct.error"

    @staticmethod
    def _pre_conditions(n: ast.AST) -> list | None:
        """(condition, outcome) pairs that short-circuit evaluation puts in front of n inside its statement; None: another scope"""
        cur, p = n, parent(n)
        pre: list = []
        while p is not None and isinstance(p, ast.expr):
            if isinstance(p, ast.BoolOp):
                idx = next((i for i, v in enumerate(p.values) if v is cur), 0)
                pre = [*[(v, isinstance(p.op, ast.And)) for v in p.values[:idx]], *pre]
            elif isinstance(p, ast.IfExp) and cur is not p.test:
                pre = [(p.test, cur is p.body), *pre]
            elif isinstance(p, _NEST):
                return None
            cur, p = p, parent(p)
        return pre

    def _risky_reads(self, fr: _Frame, u, st: _St) -> list:
        out = []
        for e in _own_exprs(u):
            for n in _all_exprs(e):
                tag = self._read_site(n)
                exc = self._raises(n, tag) if tag else None
                if exc is None or not self._catching_try(fr.fi, n, exc):
                    continue
                pre = self._pre_conditions(n)
                if pre is None:
                    continue
                st2 = st.copy()
                if not all(self.assume(self.C(fr, v, st2), pol, st2) for v, pol in pre):
                    continue
                need = self._need(fr, n, tag, st2)
                if need is None or self._min_len(st2) >= need:
                    continue
                out.append((n, pre, need, exc))
        out.sort(key=lambda r: (getattr(r[0], "end_lineno", 0) or 0, getattr(r[0], "end_col_offset", 0) or 0))
        return out

    def _eval_node(self, fr: _Frame, u, st: _St) -> list:
        if u.kind == "dispatch":
            exc = self._marker(st, "%exc")
            if exc is None or self._marker(st, "%catch") not in (None, "0"):
                return []
            chosen = next((h for h in u.ast.handlers if self._handler_catches(fr.fi, h, exc)), None)
            st2 = st.copy()
            self._set_marker(st2, "%catch", str(id(chosen)) if chosen is not None else "0")
            return [("exc", st2)]
        if u.kind == "handler":
            if self._marker(st, "%catch") != str(id(u.ast)):
                return []
            st2 = st.copy()
            self._set_marker(st2, "%catch", None)
            self._set_marker(st2, "%exc", None)
            if u.ast is not None and u.ast.name:
                st2.env[u.ast.name] = self._opaque(fr, u.ast.name, u)
            return [(None, st2)]
        if self._marker(st, "%catch") not in (None, "0"):
            return []                       # (the edge from the dispatch that leaves the try although a handler caught the exception)
        # reads that could raise outside such a try are judged by the guarded-reads instances below; the decision table is about
        # completed runs
        base = super()._eval_node(fr, u, st)
        own = [(lab, s) for lab, s in base if lab != "exc"]
        raised = [(lab, s) for lab, s in base if lab == "exc" and self._marker(s, "%exc") is not None]      # raised inside a walked helper
        if u.kind not in ("stmt", "cond") or self._marker(st, "%exc") is not None:
            return own + raised
        risky = self._risky_reads(fr, u, st)
        if not risky:
            return own + raised
        if any(isinstance(c, ast.Call) and self._walkable(fr, c, st) for e in _own_exprs(u) for c in _all_exprs(e)):
            raise AnalysisError(f"undecided: `{norm(u.ast)[:80]}` in classifier {self.fi.name} mixes helper calls with reads that may raise into a handler")
        alive, excs = [st], []
        for n, pre, need, exc in risky:
            nxt = []
            for s in alive:
                cur, dead = s, False
                for v, pol in pre:
                    off = cur.copy()
                    if self.assume(self.C(fr, v, off), not pol, off):
                        nxt.append(off)     # a condition in front of the read fails: the read is not evaluated
                    on = cur.copy()
                    if not self.assume(self.C(fr, v, on), pol, on):
                        dead = True
                        break
                    cur = on
                if dead:
                    continue
                short = ast.Compare(left=ast.Call(func=ast.Name(id="len", ctx=ast.Load()), args=[ast.Name(id="data", ctx=ast.Load())], keywords=[]),
                                    ops=[ast.Lt()], comparators=[ast.Constant(value=need)])
                bad, good = cur.copy(), cur.copy()
                if self.assume(short, True, bad):
                    excs.append((bad, exc))
                if self.assume(clone(short), False, good):
                    nxt.append(good)
            alive = nxt
            if len(alive) + len(excs) > 64:
                raise AnalysisError(f"undecided: too many raising reads in `{norm(u.ast)[:80]}` of classifier {self.fi.name}")
        res: list = []
        for s in alive:
            res.extend((lab, s2) for lab, s2 in super()._eval_node(fr, u, s) if lab != "exc")
        for s, exc in excs:
            s2 = s.copy()
            self._effects(fr, u, s2, False)
            self._set_marker(s2, "%exc", exc)
            res.append(("exc", s2))
        return res + raised

    # -- reads
    @staticmethod
    def _read_site(n: ast.AST) -> str | None:
        if isinstance(n, ast.Subscript) and isinstance(n.ctx, ast.Load) and not isinstance(n.slice, ast.Slice):
            return "index"
        if isinstance(n, ast.Call) and ((chain(n.func) or "") in ("unpack_from", "struct.unpack_from", "unpack", "struct.unpack", "int.from_bytes")
                                        or (isinstance(n.func, ast.Attribute) and n.func.attr in ("unpack_from", "unpack", "from_bytes"))):
            return "unpack"                 # also the methods of a precompiled Struct object (recognised in canonical form by _need)
        return None

    def _need(self, fr: _Frame, n: ast.AST, tag: str, st: _St) -> int | None:
        """bytes of `data` the read needs to mean what it says (None: not a read of the argument)"""
        def base(e: ast.AST) -> tuple[int, int | None] | None:      # (start offset in data, end or None)
            x = self.C(fr, e, st)
            if chain(x) == "data" and isinstance(x, ast.Name):
                return 0, None
            if isinstance(x, ast.Subscript) and isinstance(x.value, ast.Name) and x.value.id == "data" and isinstance(x.slice, ast.Slice) \
                    and x.slice.step is None:
                lo = 0 if x.slice.lower is None else const_value(x.slice.lower)
                hi = None if x.slice.upper is None else const_value(x.slice.upper)
                if isinstance(lo, int) and lo >= 0 and (hi is None or (isinstance(hi, int) and hi >= lo)):
                    return lo, hi
            return None
        if tag == "index":
            b = base(n.value)
            i = const_value(self.C(fr, n.slice, st))
            if b is None or not isinstance(i, int) or isinstance(i, bool):
                return None
            return b[0] + i + 1 if i >= 0 else (b[0] - i if b[1] is None else None)
        c = chain(n.func) or ""
        if c == "int.from_bytes":
            b = base(n.args[0]) if n.args else None
            return None if b is None or b[1] is None else b[1]        # a truncated slice is silently read as a smaller field
        if c not in ("unpack_from", "struct.unpack_from", "unpack", "struct.unpack"):
            # S.unpack_from(buf, off) on a precompiled struct.Struct(fmt) object (a local, a module-level or class-level constant)
            if not (isinstance(n.func, ast.Attribute) and n.func.attr in ("unpack_from", "unpack")):
                return None
            fmt_s = _struct_format(self.C(fr, n.func.value, st))
            if fmt_s is None:
                return None
            n = ast.Call(func=ast.Name(id=n.func.attr, ctx=ast.Load()), args=[ast.Constant(value=fmt_s), *n.args], keywords=n.keywords)
            c = n.func.id
        fmt = const_value(self.C(fr, n.args[0], st)) if n.args else NOCONST
        buf = arg(n, 1, "buffer")
        if not isinstance(fmt, str) or buf is None:
            return None
        try:
            import struct
            size = struct.calcsize(fmt)
        except Exception:  # noqa: BLE001
            return None
        b = base(buf)
        if b is None:
            return None
        off = 0
        if c.endswith("unpack_from"):
            o = arg(n, 2, "offset")
            off = const_value(self.C(fr, o, st)) if o is not None else 0
            if not isinstance(off, int) or off < 0:
                return None
        return b[0] + off + size

    @staticmethod
    def _min_len(st: _St) -> int:
        best = 0
        for f in st.fobj.values():
            l, r = norm(f.left), norm(f.right) if f.right is not None else None
            lc, rc = const_value(f.left), const_value(f.right) if f.right is not None else NOCONST
            if f.op == "truthy" and f.pos and l in ("data", "len(data)"):
                best = max(best, 1)
            elif f.op == "lt":
                if l == "len(data)" and isinstance(rc, int) and not f.pos:
                    best = max(best, rc)                 # not (len < n)
                if r == "len(data)" and isinstance(lc, int) and f.pos:
                    best = max(best, lc + 1)             # n < len
            elif f.op == "eq":
                for a, c in ((l, rc), (r, lc)):
                    if a == "len(data)" and isinstance(c, int):
                        best = max(best, c if f.pos else (1 if c == 0 else 0))
        return best

    def _on_read(self, sym: _Sym, fr: _Frame, n: ast.AST, tag: str, st: _St) -> dict:
        need = self._need(fr, n, tag, st)
        if need is None:
            return {}
        have = self._min_len(st)
        old = self.reads.get(id(n))
        if old is None or (have < need and (old[2] >= old[1] or need - have > old[1] - old[2])):
            self.reads[id(n)] = (n, need, have)             # keep the worst evaluation of this read
        return {"guard": have >= need}


def rule_classifiers(ctx: Ctx) -> None:
    repo = ctx.repo
    _data_checker(repo)
    # could_be_bt = utp or tracker or dht on the same data
    bt = _classifier_fn(repo, "could_be_bt")
    ctx.anchor(bt, "DataChecker.could_be_bt")
    data = bt.params()[0]
    ctx.check(not local_defs(bt, data), "classifier-shape", bt, bt.node, "could_be_bt inspects its own argument",
              "could_be_bt rebinds its data parameter")

    bt_atoms = {n: [("truthy", f"DataChecker.{n}({data})", None)] for n in ("could_be_dht", "could_be_udp_tracker", "could_be_utp")}
    # (a combination of the three classifier results that the walk cannot evaluate is undecided, not a finding)
    # (every row is computed before any is judged: a row the walk could not read makes the whole table undecided)
    ok = all(got == {any(env.values())} for env, got in list(_table_rows(ctx, bt, bt_atoms, ())))
    ctx.check(ok, "classifier-shape", bt, bt.node, "could_be_bt = utp(data) or udp_tracker(data) or dht(data)",
              "could_be_bt is no longer exactly the disjunction of the three BitTorrent classifiers on its argument")
    for name, (spec_q, spec) in CLASSIFIER_SPEC.items():
        fi = _classifier_fn(repo, name)
        ctx.anchor(fi, f"DataChecker.{name}")
        dname = fi.params()[0]
        ctx.check(not local_defs(fi, dname), "classifier-shape", fi, fi.node, f"{name} inspects its own argument",
                  f"{name} rebinds its data parameter")
        sym = _QSym(ctx, fi).run()
        if not sym.summary:
            raise AnalysisError(f"undecided: classifier {name} has no returning path")
        code_q: dict[str, dict] = {}
        int_consts: set[int] = set()
        summary = sym.summary
        for trail, ret in summary:
            for x in [ret, *[c for c, _ in trail]]:
                _scan_quantities(x, code_q, name)
        # a 16-bit field that is shifted / masked (instead of compared with constants) is read as its two bytes
        split = {q for q, info in code_q.items() if info["kind"] == "field" and info["arith"] and q not in spec_q
                 and int(q.rsplit(",", 1)[1].strip(" )")) <= 2}
        if split:
            summary = [(tuple((_split_fields(c, split), lab) for c, lab in trail), _split_fields(ret, split)) for trail, ret in summary]
            code_q = {}
        for trail, ret in summary:
            for x in [ret, *[c for c, _ in trail]]:
                if split:
                    _scan_quantities(x, code_q, name)
                int_consts |= {n.value for n in ast.walk(x) if _is_int_const(n)}
        for cs in spec_q.values():
            int_consts |= {c for c in cs if isinstance(c, int)} if cs != "all" else set()
        qinfo = dict(code_q)
        for q in spec_q:
            if q not in qinfo:
                kind = _base_quantity(ast.parse(q, mode="eval").body)
                qinfo[q] = {"kind": kind, "consts": set(), "arith": False}
        qs = sorted(qinfo)
        doms = [_quantity_domain(q, qinfo[q], spec_q.get(q), int_consts) for q in qs]
        rows = 1
        for d in doms:
            rows *= len(d)
        if rows > 1200000:
            raise AnalysisError(f"undecided: classifier {name} has a decision table of {rows} rows")
        bad = None
        nbad = 0
        fast = [([(_compiled(c, name), lab) for c, lab in trail], _compiled(ret, name)) for trail, ret in summary]
        for vals in itertools.product(*doms):
            val = dict(zip(qs, vals))
            got = set()
            for trail, ret in fast:
                if all(bool(c(val)) == lab for c, lab in trail):
                    got.add(bool(ret(val)))
            want = bool(spec(val))
            if got != {want}:
                nbad += 1
                if bad is None:
                    bad = (val, sorted(got), want)
        extra = [q for q in code_q if q not in spec_q]
        ctx.instance("classifier-shape", fi.where,
                     f"{name}: {rows} rows over {qs} agree with the documented table", ok=bad is None)
        if bad:
            missing = [q for q in spec_q if q not in code_q]
            ctx.violation("classifier-shape", fi, fi.node,
                          f"{name} disagrees with its documented decision table on {nbad} of {rows} rows, e.g. {bad[0]} -> "
                          f"{bad[1]} (documented {bad[2]})"
                          + (f"; documented quantities no longer tested: {missing}" if missing else "")
                          + (f"; undocumented quantities tested: {extra}" if extra else ""))
        # guarded reads: an index / fixed-format unpack / fixed-width int.from_bytes of the argument happens only where the
        # length it needs has been established (or inside a try that catches the failure)
        for node, need, have in sym.reads.values():
            if protected(node, repo.function_of(node) or fi):
                continue
            raises = sym._raises(node, sym._read_site(node) or "")
            if raises is not None and sym._catching_try(repo.function_of(node) or fi, node, raises):
                continue                    # the handler for exactly this failure is the length test (walked above)
            silent = (chain(node.func) or "") == "int.from_bytes" if isinstance(node, ast.Call) else False
            ctx.check(have >= need, "classifier-shape", repo.function_of(node) or fi, node,
                      f"{name}: `{norm(node)}` needs {need} bytes, guarded with >= {have}",
                      f"{name} reads `{norm(node)}` (needs {need} bytes) with only len >= {have} established: "
                      + ("a shorter payload is silently read as a smaller / empty field and misclassified" if silent else
                         "short payloads raise inside the policy gate"))


def run(ctx: Ctx) -> None:
    rule_policy_table(ctx)
    rule_gates(ctx)
    rule_null_and_prev_hop(ctx)
    rule_hop_origin(ctx)
    rule_classifiers(ctx)
    ctx.assume("the DataChecker byte tests are the definition of BitTorrent-/IPv8-shaped traffic (documented in their docstrings)")
    ctx.assume("asyncio DatagramTransport.sendto is the only emission primitive of an exit socket (checked: transports are used only inside TunnelExitSocket)")


WITNESSES = [
    {"name": "ipv8 allowed under BT flag", "file": ES, "rule": "policy-table",
     "old": "and not (is_ipv8 and PEER_FLAG_EXIT_IPV8 in self.overlay.settings.peer_flags)",
     "new": "and not (is_ipv8 and PEER_FLAG_EXIT_BT in self.overlay.settings.peer_flags)"},
    {"name": "own-prefix clause without ipv8 shape", "file": ES, "rule": "policy-table",
     "old": "and not (is_ipv8 and self.overlay.get_prefix() == data[:22]):",
     "new": "and not (self.overlay.get_prefix() == data[:22]):"},
    {"name": "own-prefix clause ignores the prefix version bytes (seeded C06-m15)", "file": ES, "rule": "policy-table",
     "old": "and not (is_ipv8 and self.overlay.get_prefix() == data[:22]):",
     "new": "and not (is_ipv8 and self.overlay.get_prefix()[2:] == data[2:22]):"},
    {"name": "policy returns True on drop path", "file": ES, "rule": "policy-table",
     "old": "            self.logger.warning(\"Dropping data packets, refusing to be an exit node (BT=%s, IPv8=%s)\", is_bt, is_ipv8)\n            return False",
     "new": "            self.logger.warning(\"Dropping data packets, refusing to be an exit node (BT=%s, IPv8=%s)\", is_bt, is_ipv8)\n            return is_bt"},
    {"name": "sendto gate removed", "file": ES, "rule": "gate-out",
     "old": "        if not self.is_allowed(data):\n            return\n\n        # Since this call", "new": "        # Since this call"},
    {"name": "queue drained straight to transport", "file": ES, "rule": "gate-out",
     "old": "                    self.sendto(*self.queue.popleft())",
     "new": "                    queued, dest = self.queue.popleft()\n                    self.transport_ipv4.sendto(queued, dest)"},
    {"name": "inbound gate checks other buffer", "file": ES, "rule": "gate-in",
     "old": "        if self.is_allowed(data):\n            try:\n                self.tunnel_data(source, data)",
     "new": "        if self.is_allowed(data[:64]):\n            try:\n                self.tunnel_data(source, data)"},
    {"name": "resolved address not re-checked (defect fixed by 9e93f06)", "file": ES, "rule": "null-destination",
     "old": """        if destination == ("0.0.0.0", 0):
            # A domain name can resolve to the null address as well.
            self.logger.warning("Cannot exit data, destination is 0.0.0.0:0")
            return

""", "new": ""},
    {"name": "null destination check dropped", "file": TC, "rule": "null-destination",
     "old": "            if destination != (\"0.0.0.0\", 0):\n                self.exit_data(circuit_id, sock_addr, destination, data)",
     "new": "            if destination:\n                self.exit_data(circuit_id, sock_addr, destination, data)"},
    {"name": "previous hop compares port instead of ip", "file": TC, "rule": "previous-hop",
     "old": "if sock_addr[0] == self.exit_sockets[circuit_id].hop.address[0]:",
     "new": "if sock_addr[1] == self.exit_sockets[circuit_id].hop.address[1]:"},
    {"name": "enable on mismatch too", "file": TC, "rule": "previous-hop",
     "old": "                self.logger.error(\"Dropping outbound relayed packet: IP's are %s != %s\",\n                                  str(sock_addr), str(self.exit_sockets[circuit_id].hop.address))\n                return",
     "new": "                self.logger.error(\"Dropping outbound relayed packet: IP's are %s != %s\",\n                                  str(sock_addr), str(self.exit_sockets[circuit_id].hop.address))"},
    {"name": "previous hop compared with itself", "file": TC, "rule": "previous-hop",
     "old": "        if circuit_id not in self.exit_sockets:\n            self.logger.error(\"Dropping data packets with unknown circuit_id\")",
     "new": "        sock_addr = self.exit_sockets[circuit_id].hop.address\n        if circuit_id not in self.exit_sockets:\n            self.logger.error(\"Dropping data packets with unknown circuit_id\")"},
    {"name": "hop address overwritten before the comparison", "file": TC, "rule": "previous-hop",
     "old": "        if not self.exit_sockets[circuit_id].enabled:\n            # Check that we got the data from the correct IP.",
     "new": "        self.exit_sockets[circuit_id].hop.address = sock_addr\n        if not self.exit_sockets[circuit_id].enabled:\n            # Check that we got the data from the correct IP."},
    {"name": "ipv8 length guard clause one byte short", "file": ES, "rule": "classifier-shape",
     "old": "return len(data) >= 23 and data[0:1] == b\"\\x00\" and data[1:2] in [b\"\\x01\", b\"\\x02\"]",
     "new": "if 22 > len(data):\n            return False\n        return data[:1] == b\"\\x00\" and data[1:2] in (b\"\\x01\", b\"\\x02\")"},
    {"name": "previous-hop comparison fed with the payload's origin field (seeded C06-m14)", "file": TC, "rule": "previous-hop",
     "old": "                self.exit_data(circuit_id, sock_addr, destination, data)",
     "new": "                self.exit_data(circuit_id, sock_addr if origin == (\"0.0.0.0\", 0) else origin, destination, data)"},
    {"name": "exit socket enabled at join", "file": TC, "rule": "previous-hop.who",
     "old": "        self.exit_sockets[circuit_id] = TunnelExitSocket(circuit_id, Hop(peer, session_keys), self)\n",
     "new": "        self.exit_sockets[circuit_id] = TunnelExitSocket(circuit_id, Hop(peer, session_keys), self)\n        self.exit_sockets[circuit_id].enable()\n"},
    {"name": "ipv8 classifier accepts any version", "file": ES, "rule": "classifier-shape",
     "old": "return len(data) >= 23 and data[0:1] == b\"\\x00\" and data[1:2] in [b\"\\x01\", b\"\\x02\"]",
     "new": "return len(data) >= 23 and data[0:1] == b\"\\x00\""},
    {"name": "utp type bound widened", "file": ES, "rule": "classifier-shape",
     "old": "if not (0 <= (byte1 >> 4) <= 4 and (byte1 & 15) == 1):", "new": "if not (0 <= (byte1 >> 4) <= 15 and (byte1 & 15) == 1):"},
    {"name": "tracker length guard weakened", "file": ES, "rule": "classifier-shape",
     "old": "or (len(data) >= 12 and 0 <= unpack_from(\"!I\", data, 8)[0] <= 3))",
     "new": "or (len(data) >= 8 and 0 <= unpack_from(\"!I\", data, 8)[0] <= 3))"},
    {"name": "exit hop reuses the network's shared Peer (seeded C06-m7)", "file": TC, "rule": "previous-hop.origin",
     "old": "        peer = Peer(create_payload.node_public_key, previous_node_address)\n",
     "new": "        peer = (self.network.get_verified_by_public_key_bin(create_payload.node_public_key)\n"
            "                or Peer(create_payload.node_public_key, previous_node_address))\n"},
    {"name": "join_circuit given another address than the CREATE's source", "file": TC, "rule": "previous-hop.origin",
     "old": "            self.join_circuit(payload, source_address)", "new": "            self.join_circuit(payload, self.my_peer.address)"},
    {"name": "tracker action read from an unguarded slice (seeded C06-m9)", "file": ES, "rule": "classifier-shape",
     "old": "or (len(data) >= 12 and 0 <= unpack_from(\"!I\", data, 8)[0] <= 3))",
     "new": "or int.from_bytes(data[8:12], \"big\") <= 3)"},
    {"name": "previous-hop test in a compound guard with the wrong connective", "file": TC, "rule": "previous-hop",
     "old": "        if not self.exit_sockets[circuit_id].enabled:\n            # Check that we got the data from the correct IP.\n"
            "            if sock_addr[0] == self.exit_sockets[circuit_id].hop.address[0]:\n                self.exit_sockets[circuit_id].enable()\n"
            "            else:\n",
     "new": "        if self.exit_sockets[circuit_id].enabled or sock_addr[0] != self.exit_sockets[circuit_id].hop.address[0]:\n"
            "            self.exit_sockets[circuit_id].enable()\n        else:\n            if True:\n"},
    {"name": "policy decided on a snapshot of the flags taken when the socket was enabled (seeded C06-m11)", "rule": "policy-table", "edits": [
        {"file": ES, "old": "            self.enabled = True\n",
         "new": "            self.enabled = True\n            self.exit_flags = frozenset(self.overlay.settings.peer_flags)\n"},
        {"file": ES, "old": "        self.enabled = False\n", "new": "        self.enabled = False\n        self.exit_flags = None\n"},
        {"file": ES, "old": "        if not (is_bt and PEER_FLAG_EXIT_BT in self.overlay.settings.peer_flags) \\\n"
                            "           and not (is_ipv8 and PEER_FLAG_EXIT_IPV8 in self.overlay.settings.peer_flags) \\\n",
         "new": "        flags = self.overlay.settings.peer_flags if self.exit_flags is None else self.exit_flags\n"
                "        if not (is_bt and PEER_FLAG_EXIT_BT in flags) \\\n           and not (is_ipv8 and PEER_FLAG_EXIT_IPV8 in flags) \\\n"}]},
    {"name": "classifier verdict of the previous packet reused when header and length agree (seeded C06-m17)", "rule": "policy-table", "edits": [
        {"file": ES, "old": "        self.enabled = False\n", "new": "        self.enabled = False\n        self.last_shape = None\n        self.last_kind = (False, False)\n"},
        {"file": ES, "old": "        is_bt = DataChecker.could_be_bt(data)\n        is_ipv8 = DataChecker.could_be_ipv8(data)\n",
         "new": "        shape = (data[:23], len(data))\n        if shape != self.last_shape:\n            self.last_shape = shape\n"
                "            self.last_kind = (DataChecker.could_be_bt(data), DataChecker.could_be_ipv8(data))\n"
                "        is_bt, is_ipv8 = self.last_kind\n"}]},
    {"name": "utp extension taken from the low nibble of a 16-bit header read (seeded C06-m12)", "rule": "classifier-shape", "edits": [
        {"file": ES, "old": "        byte1, byte2 = unpack_from(\"!BB\", data)\n", "new": "        header, = unpack_from(\"!H\", data)\n"},
        {"file": ES, "old": "if not (0 <= (byte1 >> 4) <= 4 and (byte1 & 15) == 1):",
         "new": "if not (0 <= (header >> 12) <= 4 and ((header >> 8) & 15) == 1):"},
        {"file": ES, "old": "        return 0 <= byte2 <= 3\n", "new": "        return 0 <= (header & 15) <= 3\n"}]},
    {"name": "could_be_bt drops dht", "file": ES, "rule": "classifier-shape",
     "old": "                or DataChecker.could_be_udp_tracker(data)\n                or DataChecker.could_be_dht(data))",
     "new": "                or DataChecker.could_be_udp_tracker(data)\n                or DataChecker.could_be_ipv8(data))"},
]
