"""C08 - Circuit hops are only keyed with the peer the originator chose."""
from __future__ import annotations

import ast

from ..core import Ctx
from ..localnames import load_table
from ..match import _atoms_with_polarity, arg, call_name, calls, fact_of, facts_at, is_param, local_defs, resolve, single_def, stores
from ..model import (NOCONST, AnalysisError, FuncInfo, chain, clone, const_value, enclosing_stmt, norm, parent, strip_cast,
                     walk_no_nested)

LEVEL = "other"
EXPLANATION = (
    "Acceptance of keys as dominance/dataflow facts: each call of _ours_on_created_extended is dominated by a live "
    "RetryRequestCache for that circuit id whose random packet_identifier equals the answer's identifier; inside it, "
    "hop.keys / add_hop / clearing unverified_hop are reachable only after verify_and_generate_shared_secret returned "
    "normally, whose 4th argument is the static key of circuit.unverified_hop.peer (the peer selected in "
    "send_initial_create / send_extend, the only writers of unverified_hop) and whose return is dominated by a truthy "
    "crypto_auth_verify; both DH sides concatenate (ephemeral, static) in the same order; Circuit._hops is append-only "
    "with one caller; relay-side create/extend pairing by cache number, and the relay installs relay_from_to[..] only under the "
    "to/from circuit ids of its own popped CreateRequestCache, keyed from the origin's exit socket, under the dominating fact that "
    "the origin circuit still is an exit socket (an established relay hop is never rewired by an answer). "
    "Answering side: exit sockets (the keys of the hop towards the sender of a CREATE) are installed only by join_circuit, under an "
    "in-use test of the circuit id made after the last await, and removed only by remove_exit_socket, so a CREATE never re-keys an "
    "established hop; the EXTEND request names key and address of one and the same peer on every pair of reaching definitions. "
    "Expressions are compared after expanding single-assignment locals and binding the parameters of helper functions that do "
    "not exist in the reviewed tree to the caller's arguments (the helper is analysed in the caller's context, also when it "
    "returns a decision the caller acts on). Equality of derived keys is X25519/HKDF (trusted)."
)

TC = "ipv8/messaging/anonymization/community.py"
CR = "ipv8/messaging/anonymization/crypto.py"
CA = "ipv8/messaging/anonymization/caches.py"
TU = "ipv8/messaging/anonymization/tunnel.py"

VERIFY = "verify_and_generate_shared_secret"


# ------------------------------------------------------------------------------------ helpers (semantic recognition)
def _snorm(e: ast.AST | None) -> str | None:
    """norm() of an expression with typing.cast(...) wrappers removed (cast is the identity at run time)."""
    return None if e is None else norm(strip_cast(e))


def _rnorm(fi: FuncInfo, e: ast.AST | None) -> str | None:
    """norm() after following single-assignment local aliases and removing casts."""
    return None if e is None else norm(resolve(fi, e))


def _assigned_names(st: ast.stmt) -> list[str]:
    """Local names bound to the whole value of an assignment statement (plain, chained or annotated)."""
    if isinstance(st, ast.Assign):
        return [t.id for t in st.targets if isinstance(t, ast.Name)]
    if isinstance(st, ast.AnnAssign) and isinstance(st.target, ast.Name) and st.value is not None:
        return [st.target.id]
    return []


def _is_new(fi: FuncInfo) -> bool:
    """fi does not exist in the reviewed tree (sa/tables/local_names.json): a helper introduced by a later change"""
    return fi.qualname not in load_table().get(fi.module.relpath, {})


def _pargs(call: ast.Call, names: list[str]) -> list[ast.expr | None] | None:
    """The arguments of `call` in the order of `names` (positional or keyword); None if the call has other arguments."""
    if len(call.args) > len(names) or any(isinstance(a, ast.Starred) for a in call.args) \
            or any(k.arg is None or k.arg not in names[len(call.args):] for k in call.keywords):
        return None
    return [arg(call, i, n) for i, n in enumerate(names)]


_BUILTIN_METHODS = frozenset(n for t in (dict, list, set, tuple, str, bytes, bytearray, int, object) for n in dir(t))


class _View:
    """
    A function analysed in the context of one call: its parameters are bound to the caller's argument expressions (already
    expanded in the caller's view).  expand() rewrites an expression into the terms of the outermost function: pure
    single-assignment locals are replaced by their definition, bound parameters by the caller's argument, typing.cast is
    dropped.  Two expressions with the same expansion are evaluated from the same inputs.
    """

    def __init__(self, ctx: Ctx, fi: FuncInfo, bind: dict | None = None, up: "_View | None" = None, site: ast.Call | None = None):
        self.ctx, self.fi, self.cfg = ctx, fi, ctx.cfg(fi)
        self.bind = bind or {}
        self.up, self.site = up, site
        self.extra: list = []           # facts (in the caller's terms) under which a dispatch selects this callee
        self._targets: dict | None = None
        self._views: dict = {}

    def stack(self) -> list[FuncInfo]:
        out, v = [], self
        while v is not None:
            out.append(v.fi)
            v = v.up
        return out

    # ---- expressions
    def expand(self, e: ast.AST | None, *, keep: frozenset = frozenset(), env: dict | None = None, depth: int = 8):
        return None if e is None else self._x(e, depth, frozenset(keep), env or {})

    def xn(self, e: ast.AST | None, **kw) -> str | None:
        return None if e is None else norm(self.expand(e, **kw))

    def _x(self, e, depth: int, keep: frozenset, env: dict):
        if not isinstance(e, ast.AST):
            return e
        e = strip_cast(e)
        if isinstance(e, ast.Name):
            if isinstance(e.ctx, ast.Load) and e.id not in keep:
                if e.id in env:
                    return clone(env[e.id])
                if e.id in self.bind and not local_defs(self.fi, e.id):
                    return clone(self.bind[e.id])
                if depth > 0:
                    d = self.one_def(e.id)
                    if d is not None and d[1] is None and not isinstance(d[0], (ast.Yield, ast.YieldFrom, ast.Await)):
                        return self._x(d[0], depth - 1, keep | {e.id}, env)
                    if d is not None and d[1] is not None and self._plain_unpack(e.id, d[1]):
                        # `a, b = seq`: a is seq[0] (no starred target before it)
                        return ast.Subscript(value=self._x(d[0], depth - 1, keep | {e.id}, env), slice=ast.Constant(value=d[1]), ctx=ast.Load())
            return clone(e)
        if isinstance(e, (ast.Lambda, ast.GeneratorExp, ast.ListComp, ast.SetComp, ast.DictComp)):
            return clone(e)     # own scopes: left as written
        if isinstance(e, ast.Call) and depth > 0:
            kv = self.helper_of(e)
            if kv is not None:
                vals = kv.result_values()
                if vals is not None and len(vals) == 1:
                    # a new helper that returns one expression or else None / False: where its result is used as an object
                    # it is that expression (the caller has excluded the constant, or fails on it)
                    return kv._x(vals[0], depth - 1, frozenset(), {})
        new = type(e)()
        for f in e._fields:
            if not hasattr(e, f):
                continue
            v = getattr(e, f)
            setattr(new, f, [self._x(x, depth, keep, env) for x in v] if isinstance(v, list) else self._x(v, depth, keep, env))
        for a in e._attributes:
            if hasattr(e, a):
                setattr(new, a, getattr(e, a))
        return new

    def one_def(self, name: str):
        """single_def(), also when the local is assigned the textually same call-free expression at several places (inlined copies)"""
        d = single_def(self.fi, name)
        if d is not None or is_param(self.fi, name):
            return d
        defs = local_defs(self.fi, name)
        if len(defs) > 1 and all(val is not None and i is None for _, val, i in defs) and len({norm(val) for _, val, _i in defs}) == 1 \
                and not any(isinstance(x, (ast.Call, ast.Await, ast.Yield, ast.YieldFrom, ast.NamedExpr)) for x in ast.walk(defs[0][1])) \
                and name not in {x.id for x in ast.walk(defs[0][1]) if isinstance(x, ast.Name)}:
            return defs[0][1], None
        return None

    def _plain_unpack(self, name: str, idx: int) -> bool:
        st = local_defs(self.fi, name)[0][0]
        for t in getattr(st, "targets", None) or [getattr(st, "target", None)]:
            if isinstance(t, (ast.Tuple, ast.List)) and idx < len(t.elts) and isinstance(t.elts[idx], ast.Name) and t.elts[idx].id == name:
                return not any(isinstance(x, ast.Starred) for x in t.elts[:idx])
        return False

    def result_values(self) -> list[ast.AST] | None:
        """The non-constant values this function can return (None / False / True constants and falling off the end left out)."""
        out = []
        for r in walk_no_nested(self.fi.node):
            if isinstance(r, ast.Return) and r.value is not None:
                cv = const_value(strip_cast(r.value))
                if not (cv is None or cv is False or cv is True):
                    out.append(r.value)
        return out

    # ---- calls of helpers that are not part of the reviewed tree
    def bind_call(self, k: FuncInfo, c: ast.Call, ref: ast.AST | None = None) -> "_View | None":
        """view of k for the call c; ref: the expression that denotes k (default c.func; differs for dispatched calls)"""
        ref = strip_cast(ref if ref is not None else c.func)
        a = k.node.args
        if a.vararg or a.kwarg or any(isinstance(x, ast.Starred) for x in c.args) or any(kw.arg is None for kw in c.keywords):
            return None
        pos = [x.arg for x in a.posonlyargs + a.args]
        static = any(chain(d) == "staticmethod" for d in k.node.decorator_list)
        bind = {}
        if k.cls is not None and not static and isinstance(ref, ast.Attribute) and pos:
            recv = strip_cast(ref.value)
            if not (isinstance(recv, ast.Name) and recv.id in ("self", "cls") and self.fi.cls is not None):
                if any(chain(d) == "classmethod" for d in k.node.decorator_list):
                    return None
                bind[pos[0]] = self.expand(recv)       # a method of another object: its `self` is the receiver
            pos = pos[1:]       # self / cls is the receiver
        if len(c.args) > len(pos):
            return None
        bind.update({p: self.expand(x) for p, x in zip(pos, c.args)})
        names = pos + [x.arg for x in a.kwonlyargs]
        for kw in c.keywords:
            if kw.arg not in names or kw.arg in bind:
                return None
            bind[kw.arg] = self.expand(kw.value)
        allpos = [x.arg for x in a.posonlyargs + a.args]
        defaults = dict(zip(allpos[len(allpos) - len(a.defaults):], a.defaults)) if a.defaults else {}
        defaults.update({x.arg: d for x, d in zip(a.kwonlyargs, a.kw_defaults) if d is not None})
        for p in names:
            if p not in bind:
                if p not in defaults:
                    return None
                bind[p] = clone(defaults[p])
        return _View(self.ctx, k, bind, self, c)

    def _callable_alternatives(self, f: ast.AST, depth: int = 3) -> list[tuple[ast.AST, list]] | None:
        """
        The function references a callee expression can evaluate to, each with the facts under which it is selected:
        ``a if c else b``, ``{k1: a, k2: b}[e]``, ``{..}.get(e, d)``, a single-assignment local holding one of these.
        None: not such a dispatch.
        """
        f = strip_cast(f)
        if depth <= 0:
            return None
        if isinstance(f, ast.Name):
            sd = single_def(self.fi, f.id)
            if sd is not None and sd[1] is None:
                return self._callable_alternatives(sd[0], depth - 1)
            return [(f, [])] if not is_param(self.fi, f.id) and not local_defs(self.fi, f.id) else None
        if isinstance(f, ast.Attribute):
            return [(f, [])]
        if isinstance(f, ast.IfExp):
            a, b = self._callable_alternatives(f.body, depth - 1), self._callable_alternatives(f.orelse, depth - 1)
            if a is None or b is None:
                return None
            return [(r, fs + _atoms_with_polarity(f.test, True)) for r, fs in a] + [(r, fs + _atoms_with_polarity(f.test, False)) for r, fs in b]
        table = key = default = None
        if isinstance(f, ast.Subscript):
            table, key = resolve(self.fi, f.value), f.slice
        elif isinstance(f, ast.Call) and isinstance(f.func, ast.Attribute) and f.func.attr == "get" and len(f.args) == 2 and not f.keywords:
            table, key, default = resolve(self.fi, f.func.value), f.args[0], f.args[1]
        if isinstance(table, ast.Dict) and key is not None and all(k is not None for k in table.keys):
            out = []
            for k, val in zip(table.keys, table.values):
                alts = self._callable_alternatives(val, depth - 1)
                kc = const_value(strip_cast(k))
                if alts is None:
                    return None
                if kc is True or kc is False:
                    sel = _atoms_with_polarity(key, kc)
                else:
                    sel = [fact_of(ast.Compare(left=key, ops=[ast.Eq()], comparators=[k]), True)]
                out += [(r, fs + sel) for r, fs in alts]
            if default is not None:
                alts = self._callable_alternatives(default, depth - 1)
                if alts is None:
                    return None
                out += alts
            return out
        return None

    def _resolve_ref(self, ref: ast.AST, c: ast.Call) -> list[FuncInfo]:
        repo = self.ctx.repo
        try:
            if isinstance(ref, ast.Attribute) and isinstance(ref.value, ast.Name) and ref.value.id in ("self", "cls") and self.fi.cls is not None:
                return repo.dispatch(self.fi.cls, ref.attr)
            if isinstance(ref, ast.Name):
                r = repo.resolve_name(self.fi.module, ref.id)
                return [r] if isinstance(r, FuncInfo) else []
        except Exception:  # noqa: BLE001
            return []
        return []

    def call_targets(self, c: ast.Call) -> list[tuple[FuncInfo, ast.AST, list]]:
        """(callee, expression denoting it, selecting facts) for a call in this function; [] if the callee is not known"""
        f = strip_cast(c.func)
        direct = isinstance(f, ast.Attribute) or isinstance(f, ast.Name) and not is_param(self.fi, f.id) and not local_defs(self.fi, f.id)
        if direct:
            try:
                targets = self.ctx.repo.resolve_call(self.fi, c)
            except Exception:  # noqa: BLE001
                targets = []
            if not targets and isinstance(f, ast.Attribute) and f.attr not in _BUILTIN_METHODS:
                # receiver of unknown type: a method name that exactly one function of the repository has denotes it
                same = [g for g in self.ctx.repo.all_functions() if g.name == f.attr]
                targets = same if len(same) == 1 and same[0].cls is not None else []
            return [(targets[0], f, [])] if len(targets) == 1 else []
        alts = self._callable_alternatives(f)
        if not alts or len(alts) < 2:
            return []
        out = []
        for ref, facts in alts:
            ks = self._resolve_ref(strip_cast(ref), c)
            if len(ks) != 1:
                return []
            out.append((ks[0], strip_cast(ref), facts))
        return out

    def _helper_targets(self) -> dict:
        if self._targets is None:
            self._targets = {}
            if len(self.stack()) <= 4:
                for c in calls(self.fi, nested=False):
                    ts = [(k, ref, facts) for k, ref, facts in self.call_targets(c)
                          if _is_new(k) and k not in self.stack()
                          and not any(isinstance(n, (ast.Yield, ast.YieldFrom)) for n in walk_no_nested(k.node))]   # a generator call does not run the body
                    if ts:
                        self._targets[id(c)] = (c, ts)
        return self._targets

    def views_of(self, c: ast.AST) -> list["_View"]:
        """views of the new helpers the call `c` (in this function) can run; several for a dispatched call"""
        t = self._helper_targets().get(id(c))
        if t is None or t[0] is not c:
            return []
        if id(c) not in self._views:
            self._views[id(c)] = []           # re-entrancy guard while the arguments are expanded
            out = []
            for k, ref, facts in t[1]:
                kv = self.bind_call(k, c, ref)
                if kv is not None:
                    kv.extra = list(facts)
                    out.append(kv)
            self._views[id(c)] = out
        return self._views[id(c)]

    def helper_of(self, c: ast.AST) -> "_View | None":
        """view of the callee if `c` is a call (in this function) of one new, uniquely resolved, non-generator helper"""
        t = self._helper_targets().get(id(c))
        vs = self.views_of(c)
        return vs[0] if len(vs) == 1 and len(t[1]) == 1 and len(self.call_targets(c)) == 1 else None

    def helpers(self) -> list[tuple[ast.Call, "_View"]]:
        return [(c, kv) for c, _ts in self._helper_targets().values() for kv in self.views_of(c)]

    def helper_calls(self) -> list[tuple[ast.Call, list["_View"], bool]]:
        """(call, views of the new helpers it can run, complete) - complete: every possible callee is one of these views"""
        return [(c, self.views_of(c), len(self.views_of(c)) == len(self.call_targets(c))) for c, _ts in self._helper_targets().values()]

    def closure(self) -> list["_View"]:
        out = [self]
        for _, kv in self.helpers():
            out.extend(kv.closure())
        return out


def _closure_functions(views: list[_View]) -> set[FuncInfo]:
    return {v.fi for v in views}


# ---- facts in expanded form: (op, positive, left, right) with left/right expanded syntax trees
def _fkey(op: str, pos: bool, ls: str, rs: str = "") -> tuple:
    if op == "eq" and rs < ls:
        ls, rs = rs, ls
    return op, pos, ls, rs


def _tkey(t: tuple) -> tuple:
    return _fkey(t[0], t[1], norm(t[2]), norm(t[3]) if t[3] is not None else "")


def _cv(v: _View, e: ast.AST | None):
    """constant value of e (literal, or a module / class level constant name), NOCONST if unknown"""
    if e is None:
        return None
    e = strip_cast(e)
    c = const_value(e)
    if c is NOCONST and isinstance(e, (ast.Name, ast.Attribute)) and not (isinstance(e, ast.Name) and (is_param(v.fi, e.id) or local_defs(v.fi, e.id))):
        try:
            c = v.ctx.repo.resolve_const(v.fi.module, e, v.fi.cls)
        except Exception:  # noqa: BLE001
            c = NOCONST
    return c


def _helper_call(v: _View, e: ast.AST | None) -> ast.Call | None:
    """the call of a new helper that `e` (directly or as a single-assignment local) holds the result of"""
    if e is None:
        return None
    e = strip_cast(e)
    if isinstance(e, ast.Name):
        sd = single_def(v.fi, e.id)
        if sd is None or sd[1] is not None:
            return None
        e = strip_cast(sd[0])
    if isinstance(e, ast.Await):
        e = strip_cast(e.value)
    return e if isinstance(e, ast.Call) and v.helper_of(e) is not None else None


def _node_awaits(n) -> bool:
    a = n.ast
    if a is None or n.kind not in ("stmt", "cond", "loop"):
        return False
    if isinstance(a, (ast.AsyncWith, ast.AsyncFor)):
        return True
    if isinstance(a, ast.With):
        return any(isinstance(x, ast.Await) for i in a.items for x in walk_no_nested(i.context_expr))
    if isinstance(a, (ast.For, ast.While, ast.FunctionDef, ast.AsyncFunctionDef, ast.ClassDef)):
        return False
    return any(isinstance(x, ast.Await) for x in walk_no_nested(a))


def _suspends_before(v: _View, nodes: list) -> bool:
    """some path to `nodes` passes a point where the coroutine can be suspended (other tasks run in between)"""
    aw = [n for n in v.cfg.nodes if _node_awaits(n)]
    return bool(aw) and any(n in v.cfg.reach(aw) for n in nodes)


def _fresh_facts(v: _View, site) -> list:
    """
    Dominating facts that were established after the last suspension point on every path to the site: the outcome of a test
    made before an `await` says nothing about the state after it (other handlers ran in between).
    """
    cfg = v.cfg
    nodes = cfg.nodes_for(site) if isinstance(site, ast.AST) else [site]
    starts = [cfg.entry] + [n for n in cfg.nodes if _node_awaits(n)]
    out = []
    if not nodes:
        return out
    for c in cfg.nodes:
        if c.kind != "cond" or c in nodes:
            continue
        for pol in (True, False):
            if any(lab is pol for _, lab in c.succ):
                r = cfg.reach(starts, cut_edge=lambda u, w, lab, c=c, pol=pol: u is c and lab is pol)
                if all(n not in r for n in nodes):
                    out.append(fact_of(c.ast, pol))
    return out


def _completed_loop_facts(v: _View, site) -> list:
    """
    After ``for x in (a, b, c): ...`` ran to completion (no break; the site is only reached through the loop's normal exit), a
    test outcome that every iteration must have had in order to reach the next one holds for each element:
    ``for t in (A, B): if k in t: return True`` .. afterwards k is in neither A nor B.
    """
    cfg = v.cfg
    nodes = cfg.nodes_for(site) if isinstance(site, ast.AST) else [site]
    out = []
    if not nodes:
        return out
    for lp in cfg.nodes:
        s = lp.ast
        if lp.kind != "loop" or not isinstance(s, ast.For) or not isinstance(s.target, ast.Name):
            continue
        it = strip_cast(s.iter)
        if not isinstance(it, (ast.Tuple, ast.List)) or any(isinstance(x, ast.Starred) for x in it.elts) or len(local_defs(v.fi, s.target.id)) != 1 \
                or any(isinstance(x, (ast.Break, ast.Await)) for b in s.body for x in walk_no_nested(b)):
            continue
        if not all(cfg.must_pass_edges(n, lambda u, w, lab, lp=lp: u is lp and lab is False) for n in nodes):
            continue
        body = [w for w, lab in lp.succ if lab is True]
        inside = cfg.reach(body, cut_nodes=[lp])
        for c in inside:
            if c.kind != "cond":
                continue
            for pol in (True, False):
                if any(lab is pol for _, lab in c.succ) and lp not in cfg.reach(body, cut_edge=lambda u, w, lab, c=c, pol=pol: u is c and lab is pol):
                    out += [fact_of(_subst_name(c.ast, s.target.id, x), pol) for x in it.elts]
    return out


def _xfacts(v: _View, site, *, depth: int = 3, local: bool = False, extra=(), fresh: bool = False) -> list[tuple]:
    """
    Facts that hold whenever `site` is evaluated in view v, in expanded form.  Besides the dominating CFG facts: a truthy / falsy
    single-assignment local yields the atoms of its defining expression (``ok = a and b`` .. ``if not ok: return``), bool(x)
    yields x, a fact on the result of a new helper (truthy / falsy / compared with a constant tag) yields the facts common to
    all returns of the helper that are compatible with it (decision helpers), and everything that holds at the call site of a
    helper view holds inside it (unless local).
    """
    out: list[tuple] = []
    seen: set = set()

    def put(t: tuple) -> bool:
        k = _tkey(t)
        if k in seen:
            return False
        seen.add(k)
        out.append(t)
        return True

    def emit(f, d: int) -> None:
        if not put((f.op, f.pos, v.expand(f.left), v.expand(f.right) if f.right is not None else None)) or d <= 0:
            return
        if f.op in ("eq", "is") and f.right is not None:
            for side, other in ((f.left, f.right), (f.right, f.left)):
                k = const_value(strip_cast(other))
                b = strip_cast(side)
                if isinstance(b, ast.Name):
                    sd = single_def(v.fi, b.id)
                    b = strip_cast(sd[0]) if sd is not None and sd[1] is None else b
                if (k is True or k is False) and (isinstance(b, ast.Compare) or isinstance(b, ast.UnaryOp) and isinstance(b.op, ast.Not)
                                                  or isinstance(b, ast.Call) and isinstance(b.func, ast.Name) and b.func.id == "bool" and len(b.args) == 1):
                    inner = b.args[0] if isinstance(b, ast.Call) else b
                    for g in _atoms_with_polarity(inner, (k is True) == f.pos):
                        emit(g, d - 1)
            for side, other in ((f.left, f.right), (f.right, f.left)):
                hc, k = _helper_call(v, side), _cv(v, other)
                if hc is not None and k is not NOCONST:
                    if f.pos:
                        may = lambda c, k=k: c is NOCONST or (c is k if f.op == "is" or k is None or isinstance(k, bool) else c == k)   # noqa: E731
                    else:
                        may = lambda c, k=k: c is NOCONST or not (c is k if f.op == "is" or k is None or isinstance(k, bool) else c == k)   # noqa: E731
                    for t2 in _return_facts(v.helper_of(hc), d - 1, may, None, fresh):
                        put(t2)
            return
        if f.op != "truthy":
            return
        e = strip_cast(f.left)
        if isinstance(e, ast.Name):
            sd = single_def(v.fi, e.id)
            if sd is None or sd[1] is not None:
                return
            e = strip_cast(sd[0])
        if isinstance(e, ast.Call) and isinstance(e.func, ast.Name) and e.func.id == "bool" and len(e.args) == 1 and not e.keywords:
            e = strip_cast(e.args[0])
        if isinstance(e, ast.Call) and isinstance(e.func, ast.Name) and e.func.id in ("any", "all") and len(e.args) == 1 and not e.keywords \
                and (e.func.id == "all") == f.pos and isinstance(e.args[0], (ast.GeneratorExp, ast.ListComp)) and len(e.args[0].generators) == 1:
            # not any(P(x) for x in (a, b)) : P fails for a and for b;  all(..) : P holds for each
            g = e.args[0].generators[0]
            it = strip_cast(g.iter)
            if not g.ifs and not g.is_async and isinstance(g.target, ast.Name) and isinstance(it, (ast.Tuple, ast.List)) \
                    and not any(isinstance(x, ast.Starred) for x in it.elts):
                for x in it.elts:
                    for a in _atoms_with_polarity(_subst_name(e.args[0].elt, g.target.id, x), f.pos):
                        emit(a, d - 1)
            return
        hc = _helper_call(v, e)
        if hc is not None:
            may = (lambda c: c is NOCONST or bool(c)) if f.pos else (lambda c: c is NOCONST or not c)
            for t2 in _return_facts(v.helper_of(hc), d - 1, may, f.pos, fresh):
                put(t2)
        for g in _atoms_with_polarity(e, f.pos):
            if g.left is not f.left or g.op != "truthy":
                emit(g, d - 1)

    for f in list(_fresh_facts(v, site) if fresh else facts_at(v.cfg, site)) + list(extra):
        emit(f, depth)
    for f in _completed_loop_facts(v, site):
        emit(f, depth - 1)
    if depth > 0 and not fresh:
        nodes = [site] if not isinstance(site, ast.AST) else v.cfg.nodes_for(site)
        for c, kvs, complete in v.helper_calls():
            if not complete or len(kvs) != 1:
                continue
            kv = kvs[0]
            cn = [n for n in v.cfg.nodes_for(c) if n not in nodes]
            if cn and nodes and all(v.cfg.must_complete(n, cn) for n in nodes):
                # the helper returned normally on every path to the site: what holds at each of its normal exits holds here
                for t in _xfacts(kv, kv.cfg.exit, depth=depth - 1, local=True):
                    put(t)
    if not local and v.up is not None and not (fresh and _suspends_before(v, v.cfg.nodes_for(site) if isinstance(site, ast.AST) else [site])):
        for t in _xfacts(v.up, v.site, depth=depth, fresh=fresh, extra=v.extra):
            put(t)
    return out


def _return_facts(kv: _View, depth: int, may, truth: bool | None, fresh: bool = False) -> list[tuple]:
    """
    Facts (expanded) common to every return of the helper whose value is compatible with what the caller observed
    (may(constant value or NOCONST) -> bool); with truth = True / False the returned expression itself is known truthy / falsy.
    """
    cfg = kv.cfg
    rets = [r for r in walk_no_nested(kv.fi.node) if isinstance(r, ast.Return)]
    if may(None) and cfg.exit in cfg.reach(cut_nodes=[n for r in rets for n in cfg.nodes_for(r)]):
        return []           # falling off the end is compatible too: nothing is known
    cand = [r for r in rets if may(None if r.value is None else _cv(kv, r.value))]
    if not cand:
        return []
    per = [_xfacts(kv, r, depth=max(depth, 0), local=True, fresh=fresh,
                   extra=_atoms_with_polarity(r.value, truth) if truth is not None and r.value is not None else ()) for r in cand]
    keys = [{_tkey(t) for t in fs} for fs in per]
    return [t for t in per[0] if all(_tkey(t) in ks for ks in keys[1:])]


def _always(v: _View, nodes: list, event, *, local: bool = False, depth: int = 3) -> bool:
    """
    Every path to `nodes` (CFG nodes of view v) - from the entry of the outermost function unless local - has completed one of
    the statements event(view) normally.  A call of a new helper counts when each of its normal exits has completed one; a
    helper view inherits what holds at its call site.
    """
    through = [n for a in event(v) for n in v.cfg.nodes_for(a)]
    if depth > 0:
        for c, kvs, complete in v.helper_calls():
            if complete and kvs and all(_always(kv, [kv.cfg.exit], event, local=True, depth=depth - 1) for kv in kvs):
                through += v.cfg.nodes_for(c)
    if nodes and all(v.cfg.must_complete(n, through) for n in nodes):
        return True
    if not local and v.up is not None:
        return _always(v.up, v.up.cfg.nodes_for(v.site), event, depth=depth)
    return False


_HOP_WRITERS = ("send_initial_create", "send_extend", "_ours_on_created_extended")


def _is_pending_hop(ctx: Ctx, fi: FuncInfo, e: ast.AST | None, site: ast.AST) -> bool:
    """
    Does `e`, evaluated at `site`, denote the Hop object that `circuit.unverified_hop` holds there?
    Accepted: the attribute read itself, or a local N with exactly one definition such that every store to
    circuit.unverified_hop in this function stores N (``circuit.unverified_hop = N`` or the chained form
    ``circuit.unverified_hop = N = Hop(..)``), such a store has completed on every path to `site` (CFG), and no function
    that rewrites unverified_hop is called from here.  Then N and the attribute are the same object at `site`.
    """
    if e is None:
        return False
    e = strip_cast(e)
    if norm(e) == "circuit.unverified_hop":
        return is_param(fi, "circuit") and not local_defs(fi, "circuit")
    if not isinstance(e, ast.Name) or is_param(fi, e.id):
        return False
    d = local_defs(fi, e.id)
    if len(d) != 1 or d[0][1] is None or d[0][2] is not None:
        return False
    sts = [st for st, t in stores(fi, "circuit.unverified_hop")]
    if not sts or not is_param(fi, "circuit") or local_defs(fi, "circuit"):
        return False
    for st in sts:
        if not isinstance(st, (ast.Assign, ast.AnnAssign)):
            return False
        same_stmt = st is d[0][0]
        v = strip_cast(st.value) if st.value is not None else None
        if not (same_stmt or (isinstance(v, ast.Name) and v.id == e.id)):
            return False
    if any(call_name(c) in _HOP_WRITERS for c in calls(fi)):
        return False
    cfg = ctx.cfg(fi)
    through = [n for st in sts for n in cfg.nodes_for(st)]
    nodes = cfg.nodes_for(site)
    return bool(nodes) and all(cfg.must_complete(n, through) for n in nodes)


def _old_retry_cache_dropped_before(ctx: Ctx, fi: FuncInfo, site: ast.AST) -> bool:
    """
    Every path entry -> site either completed ``self.request_cache.pop(RetryRequestCache, circuit.circuit_id)`` or took the
    false edge of ``self.request_cache.has(RetryRequestCache, circuit.circuit_id)`` (there was nothing to pop).
    """
    cfg = ctx.cfg(fi)

    def is_key(c: ast.AST, name: str) -> bool:
        c = resolve(fi, c) if isinstance(c, ast.Name) else c
        return isinstance(c, ast.Call) and chain(c.func) == f"self.request_cache.{name}" and chain(arg(c, 0)) == "RetryRequestCache" \
            and _rnorm(fi, arg(c, 1)) == "circuit.circuit_id"

    pops = [p for p in calls(fi) if is_key(p, "pop")]
    pop_nodes = [n for p in pops for n in cfg.nodes_for(p)]
    r = cfg.reach(cut_out_normal=pop_nodes, cut_edge=lambda u, v, lab: u.kind == "cond" and lab is False and is_key(u.ast, "has"))
    nodes = cfg.nodes_for(site)
    return bool(pops) and bool(nodes) and all(n not in r for n in nodes)


def _flatten_ifexp(e: ast.AST) -> list[ast.AST]:
    e = strip_cast(e)
    if isinstance(e, ast.IfExp):
        return _flatten_ifexp(e.body) + _flatten_ifexp(e.orelse)
    if isinstance(e, ast.BoolOp) and isinstance(e.op, ast.Or):
        return [x for v in e.values for x in _flatten_ifexp(v)]      # `key or self.key` evaluates to one of its operands
    return [e]


def _is_responder_static_key(fi: FuncInfo, e: ast.AST, param: str, depth: int = 3) -> bool:
    """
    `e` can only evaluate to the caller-supplied static key parameter or to self.key (the community's own static key):
    the parameter itself (rebound, if at all, only to self.key), or a local all of whose reaching definitions are such values
    (also through conditional expressions).
    """
    alts = _flatten_ifexp(e)
    if len(alts) > 1:
        return all(_is_responder_static_key(fi, x, param, depth) for x in alts)
    e = alts[0]
    if norm(e) == "self.key":
        return True
    if not isinstance(e, ast.Name) or depth <= 0:
        return False
    defs = local_defs(fi, e.id)
    if e.id == param:
        return all(v is not None and i is None and all(norm(x) == "self.key" or (isinstance(x, ast.Name) and x.id == param)
                                                         for x in _flatten_ifexp(v)) for _, v, i in defs)
    if is_param(fi, e.id) or not defs:
        return False
    return all(v is not None and i is None and all(_is_responder_static_key(fi, x, param, depth - 1) for x in _flatten_ifexp(v))
               for _, v, i in defs)


def _subst_name(e: ast.AST, name: str, by: ast.AST) -> ast.AST:
    """copy of e with every load of `name` replaced by `by`"""
    if isinstance(e, ast.Name):
        return clone(by) if e.id == name and isinstance(e.ctx, ast.Load) else clone(e)
    if not isinstance(e, ast.AST):
        return e
    new = type(e)()
    for f in e._fields:
        if hasattr(e, f):
            v = getattr(e, f)
            setattr(new, f, [_subst_name(x, name, by) for x in v] if isinstance(v, list) else _subst_name(v, name, by))
    return new


def _concat_parts(e: ast.AST) -> list[ast.AST]:
    """Operands of a bytes concatenation in order: ``a + b`` and ``b"".join((a, b))`` / ``b"".join([a, b])`` are the same value."""
    e = strip_cast(e)
    if isinstance(e, ast.BinOp) and isinstance(e.op, ast.Add):
        return _concat_parts(e.left) + _concat_parts(e.right)
    if isinstance(e, ast.Call) and isinstance(e.func, ast.Attribute) and e.func.attr == "join" and const_value(e.func.value) == b"" \
            and len(e.args) == 1 and not e.keywords:
        seq = e.args[0]
        if isinstance(seq, (ast.Tuple, ast.List)) and not any(isinstance(x, ast.Starred) for x in seq.elts):
            return [p for x in seq.elts for p in _concat_parts(x)]
        if isinstance(seq, (ast.GeneratorExp, ast.ListComp)) and len(seq.generators) == 1:
            g = seq.generators[0]
            it = strip_cast(g.iter)
            if not g.ifs and not g.is_async and isinstance(g.target, ast.Name) and isinstance(it, (ast.Tuple, ast.List)) \
                    and not any(isinstance(x, ast.Starred) for x in it.elts):
                return [p for x in it.elts for p in _concat_parts(_subst_name(seq.elt, g.target.id, x))]
    return [e]


def _prefix32(e: ast.AST) -> ast.AST | None:
    """X if e is X[:32] (also spelled X[0:32]), else None."""
    e = strip_cast(e)
    if isinstance(e, ast.Subscript) and isinstance(e.slice, ast.Slice):
        s = e.slice
        if (s.lower is None or const_value(s.lower) == 0) and s.upper is not None and const_value(s.upper) == 32 \
                and (s.step is None or const_value(s.step) == 1):
            return e.value
    return None


def _is_randbelow(fi: FuncInfo, c: ast.AST) -> bool:
    if not isinstance(c, ast.Call) or len(c.args) != 1 or c.keywords:
        return False
    if chain(c.func) == "secrets.randbelow":
        return fi.module.imports.get("secrets", ("secrets", None))[0] == "secrets"
    return isinstance(c.func, ast.Name) and fi.module.imports.get(c.func.id) == ("secrets", "randbelow")


# ------------------------------------------------------------------------------------ the answer handlers and what they accept
def _ours(ctx: Ctx) -> FuncInfo:
    return ctx.repo.method("TunnelCommunity", "_ours_on_created_extended", TC)


_ANSWER_HANDLERS = ("TunnelCommunity.on_created", "TunnelCommunity.on_extended")


def _acceptances(ctx: Ctx) -> list[tuple[_View, ast.Call, _View | None, list]]:
    """
    (view containing the call, call of _ours_on_created_extended, view of _ours_on_created_extended bound to that call) for
    every call site in an answer handler or in a new helper only the answer handlers reach (analysed in the handler's context).
    """
    cached = getattr(ctx, "_c08_acceptances", None)
    if cached is None:
        cached = []
        refs: set = set()
        ctx._c08_accept_refs = refs
        ours = _ours(ctx)
        for q in _ANSWER_HANDLERS:
            r = _View(ctx, ctx.repo.method("TunnelCommunity", q.split(".")[1], TC))
            for v in r.closure():
                for c in calls(v.fi):
                    for k, ref, facts in v.call_targets(c):
                        if k == ours:
                            w = v.bind_call(ours, c, ref)
                            if w is not None:
                                w.extra = list(facts)
                            cached.append((v, c, w, list(facts)))
                            refs.add(id(ref))
        ctx._c08_acceptances = cached
    return cached


def _handler_members(ctx: Ctx) -> set[FuncInfo]:
    """the answer handlers and the new helpers that only they (transitively) call"""
    views = [v for q in _ANSWER_HANDLERS for v in _View(ctx, ctx.repo.method("TunnelCommunity", q.split(".")[1], TC)).closure()]
    members = _closure_functions(views)
    changed = True
    while changed:
        changed = False
        for f in list(members):
            if f.qualname not in _ANSWER_HANDLERS and any(g is None or g not in members for _, g, _c in ctx.repo.callers_of_name(f.name)):
                members.discard(f)
                changed = True
    return members


def _root(v: _View) -> _View:
    while v.up is not None:
        v = v.up
    return v


def _circuit_terms(r: _View) -> tuple[str, str, str]:
    """(payload parameter of the handler, the circuit the answer is for, its pending hop) in the handler's terms"""
    p = _root(r).fi.params()[2]
    return p, f"self.circuits[{p}.circuit_id]", f"self.circuits[{p}.circuit_id].unverified_hop"


def _accept_sites(views: list[_View]) -> list[tuple[_View, ast.AST, str]]:
    out = []
    for v in views:
        for st, t in stores(v.fi, lambda c: c.endswith(".keys")):
            out.append((v, st, "keys"))
        for st, t in stores(v.fi, lambda c: c.endswith(".unverified_hop")):
            out.append((v, st, "pending"))
        out += [(v, c, "add_hop") for c in calls(v.fi) if call_name(c) == "add_hop"]
    return out


def _store_target(st: ast.stmt, suffix: str) -> ast.AST | None:
    ts = st.targets if isinstance(st, (ast.Assign, ast.Delete)) else [st.target]
    for t in ts:
        for e in (t.elts if isinstance(t, (ast.Tuple, ast.List)) else [t]):
            if isinstance(e, ast.Attribute) and e.attr == suffix:
                return e
    return None


def _unverified_return_consts(kv: _View, verified_local) -> dict | None:
    """
    For a helper some of whose normal exits are not preceded by a successful verification: which constants mark those exits.
    {None: consts} for the whole return value, {i: consts} for element i of returned tuple displays; None if the helper has no
    verified exit or an unverified exit returns something else than None / False (the caller cannot tell the outcomes apart).
    """
    cfg = kv.cfg
    rets = [r for r in walk_no_nested(kv.fi.node) if isinstance(r, ast.Return)]
    bad = [r for r in rets if not verified_local(kv, cfg.nodes_for(r))]
    if len(bad) == len(rets):
        return None
    falls_off = cfg.exit in cfg.reach(cut_nodes=[n for r in rets for n in cfg.nodes_for(r)])
    whole: set = {None} if falls_off else set()
    whole_ok = True
    tuples = []
    for r in bad:
        val = strip_cast(r.value) if r.value is not None else None
        if val is None:
            whole.add(None)
        elif isinstance(val, ast.Tuple) and not any(isinstance(x, ast.Starred) for x in val.elts):
            tuples.append(val)
            whole_ok = False
        elif const_value(val) is None or const_value(val) is False:
            whole.add(const_value(val))
        else:
            whole_ok = False
    out: dict = {}
    if whole_ok and whole:
        out[None] = whole
    if tuples and len(tuples) == len(bad) and not falls_off and len({len(t.elts) for t in tuples}) == 1:
        for i in range(len(tuples[0].elts)):
            cs = {const_value(t.elts[i]) for t in tuples}
            if all(c is None or c is False for c in cs):
                out[i] = cs
    return out or None


def _verified_at(v: _View, nodes: list, *, local: bool = False, depth: int = 3) -> bool:
    """
    Every path to `nodes` has seen verify_and_generate_shared_secret return normally: directly, inside a new helper all of
    whose normal exits follow the verification, or inside a new decision helper whose unverified exits return None / False
    (possibly as an element of a tuple) while a dominating fact on the result excludes that constant.
    """
    if not nodes:
        return False
    cfg = v.cfg
    through = [n for c in calls(v.fi) if call_name(c) == VERIFY for n in cfg.nodes_for(c)]
    conditional = []
    if depth > 0:
        for c, kvs, complete in v.helper_calls():
            if not complete or not kvs or not all(any(call_name(x) == VERIFY for w in kv.closure() for x in calls(w.fi)) for kv in kvs):
                continue
            kv = kvs[0]
            if all(_verified_at(k2, [k2.cfg.exit], local=True, depth=depth - 1) for k2 in kvs):
                through += cfg.nodes_for(c)
            elif len(kvs) == 1:
                consts = _unverified_return_consts(kv, lambda w, ns: _verified_at(w, ns, local=True, depth=depth - 1))
                if consts:
                    conditional.append((c, consts))
    if all(cfg.must_complete(n, through) for n in nodes):
        return True
    for c, consts in conditional:
        cn = cfg.nodes_for(c)
        if all(cfg.must_complete(n, through + cn) for n in nodes) and all(_result_excludes(v, c, consts, n) for n in nodes):
            return True
    if not local and v.up is not None:
        return _verified_at(v.up, v.up.cfg.nodes_for(v.site), depth=depth)
    return False


def _result_excludes(v: _View, c: ast.Call, consts: dict, node) -> bool:
    """A fact dominating `node` says that the result of call c (or the tuple element bound from it) is not one of the constants."""
    def which(e: ast.AST):
        e = strip_cast(e)
        if e is c:
            return None, True
        if isinstance(e, ast.Name) and not is_param(v.fi, e.id):
            d = local_defs(v.fi, e.id)
            if len(d) == 1 and d[0][1] is not None and strip_cast(d[0][1]) is c:
                return d[0][2], True
        return None, False

    for f in facts_at(v.cfg, node):
        idx, hit = which(f.left)
        if not hit or idx not in consts:
            continue
        cs = consts[idx]
        if f.op == "truthy" and f.pos:
            return True
        if f.op in ("is", "eq") and f.right is not None:
            rv = const_value(f.right)
            if f.pos and rv is True:
                return True
            if not f.pos and (rv is None or rv is False) and cs <= {rv}:
                return True
    return False


def _key_values(v: _View, e: ast.AST, depth: int = 3) -> list[ast.AST]:
    """Expanded values `e` can have; the result of a new helper stands for its non-constant return values (the caller excluded the constants)."""
    r = resolve(v.fi, e)
    idx = None
    if isinstance(r, ast.Name) and not is_param(v.fi, r.id):
        d = local_defs(v.fi, r.id)
        if len(d) == 1 and d[0][1] is not None and d[0][2] is not None:
            r, idx = strip_cast(d[0][1]), d[0][2]
    kv = v.helper_of(r) if isinstance(r, ast.Call) else None
    if kv is None or depth <= 0:
        return [v.expand(e)]
    out = []
    for ret in [x for x in walk_no_nested(kv.fi.node) if isinstance(x, ast.Return)]:
        val = strip_cast(ret.value) if ret.value is not None else None
        if idx is not None:
            if not isinstance(val, ast.Tuple) or idx >= len(val.elts):
                out.append(v.expand(e))
                continue
            val = val.elts[idx]
        if val is None or const_value(val) is None or const_value(val) is False:
            continue
        out += _key_values(kv, val, depth - 1)
    return out or [v.expand(e)]


def rule_identifier(ctx: Ctx) -> None:
    repo = ctx.repo
    n = 0
    # the acceptance function is only ever *called*, by name, from the two answer handlers
    accs = _acceptances(ctx)
    for m, fi, a in repo.attribute_uses("_ours_on_created_extended"):
        par = parent(a)
        if id(a) in ctx._c08_accept_refs and not (isinstance(par, ast.Call) and par.func is a):
            n += 1          # one alternative of a dispatched call in an answer handler: analysed below under its selecting facts
        elif not (isinstance(par, ast.Call) and par.func is a):
            raise AnalysisError(f"undecided: _ours_on_created_extended is referenced without being called in {fi.qualname if fi else m.relpath} "
                                "(stored in a table / passed on): its callers cannot be enumerated")
    members = _handler_members(ctx)
    for m, fi, c in repo.callers_of_name("_ours_on_created_extended"):
        if fi is None:
            continue
        n += 1
        ok_who = fi in members
        ctx.check(ok_who, "identifier-match", fi, c, f"_ours_on_created_extended called from {fi.qualname}",
                  "keys can be accepted through a caller other than on_created/on_extended")
    for r, c, w, sel in accs:
        fi = r.fi
        payload, circ, _ = _circuit_terms(r)
        xf = _xfacts(r, c, extra=sel)
        gets = set()
        for op, pos, l, rt in xf:
            live = op == "truthy" and pos or op == "is" and not pos and rt is not None and const_value(rt) is None
            if live and isinstance(l, ast.Call) and chain(l.func) == "self.request_cache.get" and chain(arg(l, 0)) == "RetryRequestCache" \
                    and _snorm(arg(l, 1)) == f"{payload}.circuit_id" and len(l.args) + len(l.keywords) == 2:
                gets.add(norm(l))
        keys = {_tkey(t) for t in xf}
        ident_ok = any(_fkey("eq", True, f"{g}.packet_identifier", f"{payload}.identifier") in keys for g in gets)
        # the circuit whose pending hop is keyed / appended is the circuit of that retry cache
        args_ok = False
        if w is not None:
            views = w.closure()
            touched = [v.xn(x.func.value) for v, x, kind in _accept_sites(views) if kind == "add_hop" and isinstance(x.func, ast.Attribute)]
            touched += [v.xn(getattr(_store_target(x, "unverified_hop"), "value", None)) for v, x, kind in _accept_sites(views) if kind == "pending"]
            args_ok = bool(touched) and all(t == circ for t in touched) and not local_defs(_root(r).fi, payload)
        ctx.check(bool(gets) and ident_ok and args_ok, "identifier-match", fi, c,
                  "answer accepted only if a RetryRequestCache for payload.circuit_id exists and its packet_identifier == payload.identifier",
                  "a created/extended answer with a wrong identifier, for another circuit, or after the attempt was abandoned is processed",
                  [f"{op}{'' if pos else '-not'}: {norm(l)}{' / ' + norm(rt) if rt is not None else ''}" for op, pos, l, rt in xf])
    ctx.floor("identifier-match", n, 2)
    # packet_identifier: random, assigned once
    init = repo.method("RetryRequestCache", "__init__", CA)
    sts = [s for s, t in stores(init, "self.packet_identifier")]
    ok = len(sts) == 1 and isinstance(sts[0], (ast.Assign, ast.AnnAssign)) and sts[0].value is not None
    if ok:
        v = resolve(init, sts[0].value)
        ok = _is_randbelow(init, v) and repo.resolve_const(init.module, v.args[0]) == 65536
    ctx.check(ok, "identifier-match", init, init.node, "packet_identifier = secrets.randbelow(2**16) per attempt",
              "the per-attempt identifier is not a fresh 16-bit random value")
    for m, fi, a in repo.attribute_uses("packet_identifier"):
        if isinstance(a.ctx, ast.Store):
            ctx.check(fi is not None and fi.qualname == "RetryRequestCache.__init__", "identifier-match", fi or m.relpath, enclosing_stmt(a),
                      "packet_identifier written only at construction", "packet_identifier is rewritten after construction")
    # each attempt constructs a new cache and sends *its* identifier
    for meth, pl in (("send_initial_create", "CreatePayload"), ("send_extend", "ExtendPayload")):
        fi = repo.method("TunnelCommunity", meth, TC)
        views = _View(ctx, fi).closure()
        ctors = [(v, c) for v in views for c in calls(v.fi, "RetryRequestCache")]
        pls = [(v, c) for v in views for c in calls(v.fi, pl)]
        ok = len(ctors) == 1 and len(pls) == 1
        if ok:
            # the identifier sent is the one of the cache constructed (once) and registered here, whatever locals carry it
            (cv_, ctor), (pv, pcall) = ctors[0], pls[0]
            ct = cv_.xn(ctor)
            pa = _pargs(pcall, ["circuit_id", "identifier", "node_public_key", "key", "node_addr"][:5 if pl == "ExtendPayload" else 4])
            ident = pv.expand(pa[1]) if pa and pa[1] is not None else None
            ok = isinstance(ident, ast.Attribute) and ident.attr == "packet_identifier" and norm(ident.value) == ct \
                and pv.xn(pa[0]) == "circuit.circuit_id" and is_param(fi, "circuit") and not local_defs(fi, "circuit") \
                and any(chain(a.func) == "self.request_cache.add" and v.xn(arg(a, 0)) == ct for v in views for a in calls(v.fi))
            # old attempt's cache is popped first (so an answer to the old attempt finds the new identifier): on every path
            # to the construction of the new cache the old one was popped or there was none (CFG, not line order)
            site, sv_ = ctor, cv_
            while sv_.up is not None:
                site, sv_ = sv_.site, sv_.up
            ok = ok and _old_retry_cache_dropped_before(ctx, fi, site)
        ctx.check(ok, "identifier-match", fi, fi.node, f"{meth}: pops the old retry cache, registers a new one and sends its identifier",
                  f"{meth} does not bind the request to a fresh retry cache identifier")


def rule_verify_before_accept(ctx: Ctx) -> None:
    repo = ctx.repo
    fi = _ours(ctx)
    acc = [(r, c, w) for r, c, w, _sel in _acceptances(ctx) if w is not None]
    if not acc:
        raise AnalysisError("undecided: no call of _ours_on_created_extended from on_created / on_extended whose arguments can be bound")
    n_sites = 0
    for r, c0, w in acc:
        payload, circ, hop = _circuit_terms(r)
        views = w.closure()
        vcalls = [(v, c) for v in views for c in calls(v.fi) if call_name(c) == VERIFY]
        ctx.anchor(vcalls, "verify call")
        vnorms = {v.xn(c) for v, c in vcalls}
        sites = _accept_sites(views)
        n_sites = max(n_sites, len(sites))
        # accepted state changes
        for v, s, kind in sites:
            ctx.check(_verified_at(v, v.cfg.nodes_for(s)), "verify-before-accept", v.fi, s,
                      f"`{norm(s)[:60]}` reachable only after verify_and_generate_shared_secret returned normally",
                      "session keys / the new hop are accepted on a path on which the authenticated DH verification did not succeed")
        # keys derive from the verified secret and are installed on the pending hop of this circuit
        for v, st, kind in sites:
            if kind != "keys":
                continue
            vals = _key_values(v, st.value) if isinstance(st, (ast.Assign, ast.AnnAssign)) and st.value is not None else []
            ok = bool(vals) and all(isinstance(x, ast.Call) and call_name(x) == "generate_session_keys" and len(x.args) == 1 and not x.keywords
                                    and norm(x.args[0]) in vnorms for x in vals)
            ctx.check(ok, "verify-before-accept", v.fi, st, "hop.keys = generate_session_keys(<verified shared secret>)",
                      "the accepted session keys are not derived from the verified shared secret")
            tgt = _store_target(st, "keys")
            ctx.check(tgt is not None and v.xn(tgt.value) == hop, "verify-before-accept", v.fi, st,
                      "the session keys are installed on the circuit's pending hop",
                      "the accepted session keys are installed on something other than the pending hop of the answered circuit")
        # the pending hop is cleared before the hop is appended: nothing that can raise lies between acceptance and the reset,
        # otherwise a duplicate of the same answer verifies again and appends the same peer twice

        def resets(x: _View) -> list[ast.AST]:
            return [s_ for s_, t in stores(x.fi, lambda c: c.endswith(".unverified_hop"))
                    if isinstance(s_, (ast.Assign, ast.AnnAssign)) and s_.value is not None and const_value(s_.value) is None
                    and x.xn(t.value) == circ]

        for v, c, kind in sites:
            if kind != "add_hop":
                continue
            ctx.check(_always(v, v.cfg.nodes_for(c), resets), "verify-before-accept", v.fi, c, "circuit.unverified_hop is cleared before add_hop on every path",
                      "the accepted hop stays registered as the pending hop on some path after add_hop: a duplicated answer is verified again and the same peer is appended twice")
            # the hop that is added is the unverified hop of this circuit
            ok = isinstance(c.func, ast.Attribute) and v.xn(c.func.value) == circ and len(c.args) == 1 and not c.keywords and v.xn(c.args[0]) == hop
            ctx.check(ok, "verify-before-accept", v.fi, c,
                      "circuit.add_hop(hop) with hop = circuit.unverified_hop of self.circuits[circuit_id]",
                      "the hop appended is not the circuit's own unverified hop")
        # ---- selected-peer-key
        for v, c in vcalls:
            pa = _pargs(c, ["dh_secret", "dh_received", "auth", "b"])
            a = [v.xn(x) for x in pa] if pa else []
            ok = a == [f"{hop}.dh_secret", f"{payload}.key", f"{payload}.auth", f"{hop}.peer.public_key.get_crypt_pk()"]
            ctx.check(ok, "selected-peer-key", v.fi, c, "verify(hop.dh_secret, payload.key, payload.auth, hop.peer.public_key.get_crypt_pk())",
                      "the DH verification is not bound to the static key of the peer the originator selected for this hop")
    ctx.floor("verify-before-accept", n_sites, 3)
    # the session keys are derived from the WHOLE shared secret (ephemeral and static half)
    gk = repo.method("TunnelCrypto", "generate_session_keys", CR)
    ks = [c for c in calls(gk, "_generate_session_keys")]
    ok = len(ks) == 1 and len(ks[0].args) == 1 and not ks[0].keywords and _rnorm(gk, ks[0].args[0]) == gk.params()[0] and not local_defs(gk, gk.params()[0])
    imp = gk.module.imports.get("_generate_session_keys")
    ok = ok and imp is not None and imp[0] == "ipv8_rust_tunnels"
    ctx.check(ok, "selected-peer-key", gk, gk.node, "session keys = KDF(whole shared secret)",
              "the KDF is not fed the complete shared secret: the half that binds the keys to the selected peer's static key is dropped, so whoever answers with an own ephemeral key shares the accepted keys")
    # ---- inside the verification
    vf = repo.method("TunnelCrypto", VERIFY, CR)
    vv = _View(ctx, vf)
    p = vf.params()
    rets = [r for r in walk_no_nested(vf.node) if isinstance(r, ast.Return)]
    ctx.anchor(rets, "return in verify_and_generate_shared_secret")
    for r in rets:
        xf = _xfacts(vv, r)
        secret = vv.expand(r.value) if r.value is not None else None
        ok = False
        for op, pos, l, rt in xf:
            if op == "truthy" and pos and isinstance(l, ast.Call) and chain(l.func) == "crypto_auth_verify" and len(l.args) == 3 and not l.keywords:
                mac = _prefix32(l.args[1])
                if secret is not None and mac is not None and norm(mac) == norm(secret) and _snorm(l.args[0]) == p[2] and _snorm(l.args[2]) == p[1]:
                    ok = True
        ctx.check(ok, "verify-before-accept", vf, r, "shared secret returned only under truthy crypto_auth_verify(auth, secret[:32], dh_received)",
                  "verify_and_generate_shared_secret can return a secret without a successful authenticator check",
                  [f"{op}{'' if pos else '-not'}: {norm(l)}" for op, pos, l, rt in xf])
        parts = [norm(x) for x in _concat_parts(secret)] if secret is not None else []
        ok2 = parts == [f"{p[0]}.diffie_hellman({p[1]})", f"{p[0]}.diffie_hellman({p[3]})"]
        ctx.check(ok2, "selected-peer-key", vf, r, "secret = DH(secret, received ephemeral) + DH(secret, static key b)",
                  "the shared secret does not combine the ephemeral and the selected peer's static key in (ephemeral, static) order")
    for name in p:
        ctx.check(not local_defs(vf, name), "selected-peer-key", vf, vf.node, f"parameter {name} not rebound", f"parameter {name} is rebound")
    imp = vf.module.imports.get("crypto_auth_verify")
    ctx.check(imp is not None and imp[0] == "ipv8_rust_tunnels", "verify-before-accept", vf, "crypto_auth_verify",
              "crypto_auth_verify is the ipv8_rust_tunnels primitive", "crypto_auth_verify is shadowed by a local definition")
    # responder side mirrors the order
    gf = repo.method("TunnelCrypto", "generate_diffie_shared_secret", CR)
    gv = _View(ctx, gf)
    keep = frozenset({"tmp_key"})       # the ephemeral key object keeps its name: identity matters, not its constructor text
    rets = [(r, gv.expand(r.value, keep=keep)) for r in walk_no_nested(gf.node) if isinstance(r, ast.Return) and r.value is not None]
    rets = [(r, t) for r, t in rets if isinstance(t, ast.Tuple)]
    ctx.anchor(rets, "return in generate_diffie_shared_secret")
    for r, t in rets:
        recv, keyp = gf.params()[1], gf.params()[2]
        parts = _concat_parts(t.elts[0]) if len(t.elts) == 3 else []
        ok = len(parts) == 2 and not local_defs(gf, recv)
        if ok:
            eph, sta = parts
            ok = norm(eph) == f"tmp_key.diffie_hellman({recv})" and isinstance(sta, ast.Call) and call_name(sta) == "diffie_hellman" \
                and len(sta.args) == 1 and not sta.keywords and norm(sta.args[0]) == recv \
                and _is_responder_static_key(gf, sta.func.value, keyp)
        tk = single_def(gf, "tmp_key")
        ok = ok and tk is not None  # one ephemeral key object: the one in the DH is the one whose public half is authenticated
        au = t.elts[2] if ok else None
        ok_au = isinstance(au, ast.Call) and chain(au.func) == "crypto_auth" and len(au.args) == 2 and not au.keywords \
            and _prefix32(au.args[0]) is not None and norm(_prefix32(au.args[0])) == norm(t.elts[0]) \
            and norm(au.args[1]) == "tmp_key.get_crypt_pk()" and norm(t.elts[1]) == "tmp_key.get_crypt_pk()"
        ctx.check(ok and ok_au, "selected-peer-key", gf, r, "responder: secret = DH(ephemeral, X) + DH(static, X); auth over secret[:32] and its ephemeral key",
                  "responder side of the handshake does not mirror the originator's (ephemeral, static) construction")


def rule_unverified_hop_writers(ctx: Ctx) -> None:
    repo = ctx.repo
    ours = _ours(ctx)
    sic = repo.method("TunnelCommunity", "send_initial_create", TC)
    se = repo.method("TunnelCommunity", "send_extend", TC)
    cinit = repo.method("Circuit", "__init__", TU)
    # the closed set of writers: the four reviewed functions plus new helpers only they reach (analysed with bound parameters)
    owner: dict[FuncInfo, tuple[FuncInfo, _View]] = {}
    for root in (cinit, ours, sic, se):
        views = _View(ctx, root).closure()
        members = _closure_functions(views)
        for v in views:
            if v.fi is not root and any(f is None or f not in members for _, f, _c in repo.callers_of_name(v.fi.name)):
                continue        # also reachable from elsewhere: not a private part of this writer
            owner.setdefault(v.fi, (root, v))
    n = 0
    for m in repo.modules.values():
        for node in ast.walk(m.tree):
            if isinstance(node, ast.Attribute) and node.attr == "unverified_hop" and isinstance(node.ctx, ast.Store):
                fi = repo.function_of(node)
                st = enclosing_stmt(node)
                n += 1
                root, v = owner.get(fi, (None, None)) if fi is not None else (None, None)
                q = root.qualname if root else (fi.qualname if fi else "?")
                val = st.value if isinstance(st, (ast.Assign, ast.AnnAssign)) else None
                if val is not None and isinstance(st, ast.Assign) and isinstance(st.value, ast.Tuple):
                    # element-wise tuple assignment: the element stored into this target
                    for t in st.targets:
                        if isinstance(t, (ast.Tuple, ast.List)) and len(t.elts) == len(st.value.elts) and node in t.elts:
                            val = st.value.elts[t.elts.index(node)]
                ok = False
                if root is None or val is None:
                    ok = False
                elif root is cinit or root is ours:
                    ok = const_value(strip_cast(val)) is None
                elif root is sic:
                    h = v.expand(val)
                    cand = root.params()[2]
                    ok = isinstance(h, ast.Call) and chain(h.func) == "Hop" and _snorm(arg(h, 0, "peer")) == f"{cand}[0]" \
                        and not local_defs(root, cand)
                elif root is se:
                    h = v.expand(val, keep=frozenset({"extend_hop_public_bin"}))
                    ok = isinstance(h, ast.Call) and chain(h.func) == "Hop"
                    if ok:
                        pe = strip_cast(arg(h, 0, "peer"))
                        k = strip_cast(arg(pe, 0, "key")) if isinstance(pe, ast.Call) and chain(pe.func) == "Peer" else None
                        ok = isinstance(k, ast.Call) and call_name(k) == "key_from_public_bin" and chain(arg(k, 0)) == "extend_hop_public_bin"
                ctx.check(ok, "selected-peer-key", fi or m.relpath, st, f"unverified_hop written in {q} from the chosen candidate",
                          "the hop awaiting verification is set from something other than the candidate the originator selected")
    ctx.floor("selected-peer-key.writers", n, 4)
    # the extend request names the same key that will be verified
    for c in calls(se, "ExtendPayload"):
        pa = _pargs(c, ["circuit_id", "identifier", "node_public_key", "key", "node_addr"]) or [None] * 5
        a2, a3 = (strip_cast(x) if x is not None else None for x in pa[2:4])
        ok = isinstance(a2, ast.Attribute) and a2.attr == "public_key_bin" and _is_pending_hop(ctx, se, a2.value, c) \
            and isinstance(a3, ast.Attribute) and a3.attr == "dh_first_part" and _is_pending_hop(ctx, se, a3.value, c)
        ctx.check(ok, "selected-peer-key", se, c, "extend request carries unverified_hop's key and DH part",
                  "the extend request names a different node than the one whose key will be verified")
    sv = _View(ctx, sic)
    for c in calls(sic, "CreatePayload"):
        pa = _pargs(c, ["circuit_id", "identifier", "node_public_key", "key"]) or [None] * 4
        a3 = strip_cast(pa[3]) if pa[3] is not None else None
        ok = isinstance(a3, ast.Attribute) and a3.attr == "dh_first_part" and _is_pending_hop(ctx, sic, a3.value, c)
        ctx.check(ok, "selected-peer-key", sic, c, "create request carries unverified_hop's DH part", "create carries another DH part")
        # the create goes to the address of the selected first hop: the candidate itself, or the peer of the pending hop
        snd = [s for s in calls(sic, "self.send_cell") if any(x is c for x in ast.walk(s))] or calls(sic, "self.send_cell")
        ok = False
        if snd:
            dest = sv.expand(arg(snd[0], 0))
            raw = resolve(sic, arg(snd[0], 0))
            ok = norm(dest) == f"{sic.params()[2]}[0].address" and not local_defs(sic, sic.params()[2])
            if not ok and isinstance(raw, ast.Attribute) and raw.attr == "address":
                b = strip_cast(raw.value)
                if isinstance(b, ast.Attribute) and b.attr == "peer":
                    b = b.value                      # Hop.address is Hop.peer.address
                ok = _is_pending_hop(ctx, sic, b, snd[0])
        ctx.check(ok, "selected-peer-key", sic, c,
                  "create is sent to the selected first hop", "create is sent to a peer other than the selected first hop")
    _extend_names_one_node(ctx, se)
    # dh_secret generated per attempt
    for fi in (sic, se):
        g = [c for v in _View(ctx, fi).closure() for c in calls(v.fi) if call_name(c) == "generate_diffie_secret"]
        ctx.check(len(g) == 1, "selected-peer-key", fi, fi.node, f"{fi.name}: fresh DH secret per attempt", "DH secret is not generated per attempt")


def _closed_members(ctx: Ctx, root: FuncInfo) -> set[FuncInfo]:
    """root and the new helpers that only root (transitively) calls"""
    members = _closure_functions(_View(ctx, root).closure())
    changed = True
    while changed:
        changed = False
        for f in list(members):
            if f is not root and any(g is None or g not in members for _, g, _c in ctx.repo.callers_of_name(f.name)):
                members.discard(f)
                changed = True
    return members


_DICT_ADD = ("update", "setdefault", "__setitem__", "__ior__")
_DICT_DEL = ("pop", "popitem", "clear", "__delitem__")


def rule_responder_keying(ctx: Ctx) -> None:
    """
    The answering side of a hop: the exit socket of a circuit id carries the session keys negotiated with whoever sent the
    CREATE.  It is installed only by join_circuit, only for a circuit id that is in no table (checked after the last suspension
    point, so that no second CREATE for the id slipped in between), and removed only by remove_exit_socket - a CREATE, which is
    unauthenticated plaintext, can never re-key or take over an established hop.
    """
    repo = ctx.repo
    jc = repo.method("TunnelCommunity", "join_circuit", TC)
    rex = repo.method("TunnelCommunity", "remove_exit_socket", TC)
    may_install, may_remove = _closed_members(ctx, jc), _closed_members(ctx, rex)
    n = 0
    for m, fi, a in repo.attribute_uses("exit_sockets"):
        par = parent(a)
        st = enclosing_stmt(a)
        kind = None
        if isinstance(a.ctx, ast.Store):
            kind = "bind"
        elif isinstance(par, ast.Subscript) and par.value is a and isinstance(par.ctx, ast.Store):
            kind = "install"
        elif isinstance(par, ast.Subscript) and par.value is a and isinstance(par.ctx, ast.Del):
            kind = "remove"
        elif isinstance(par, ast.Attribute) and isinstance(parent(par), ast.Call) and parent(par).func is par:
            kind = "install" if par.attr in _DICT_ADD else "remove" if par.attr in _DICT_DEL else None
        elif isinstance(par, ast.AugAssign) and par.target is a:
            kind = "install"
        if kind is None:
            continue
        n += 1
        if kind == "bind":
            ctx.check(fi is not None and fi.name == "__init__", "responder-keying", fi or m.relpath, st, "exit_sockets bound at construction only",
                      "the table of exit sockets (answering ends of hops and their keys) is replaced after construction")
        elif kind == "install":
            ctx.check(fi is not None and fi in may_install, "responder-keying", fi or m.relpath, st, "exit socket installed by join_circuit only",
                      "an exit socket (the answering end of a hop with its session keys) is installed outside join_circuit: "
                      "a hop can be keyed without the create handshake and its in-use check")
        else:
            ctx.check(fi is not None and fi in may_remove, "responder-keying", fi or m.relpath, st, "exit socket removed by remove_exit_socket only",
                      f"{fi.qualname if fi else m.relpath} removes an exit socket itself: once the established answering end of a hop is gone the "
                      "in-use check of join_circuit passes again, so an (unauthenticated) CREATE for that circuit id re-keys the hop with whoever sent it")
    ctx.floor("responder-keying", n, 4)
    need = {"self.exit_sockets", "self.relay_from_to", "self.circuits"}

    def unused_id_known(views: list[_View]) -> tuple[bool, int]:
        ok, cnt = True, 0
        for v in views:
            for st, k, val in _route_installs(v, "self.exit_sockets"):
                cnt += 1
                have = {norm(rt) for op, pos, l, rt in _xfacts(v, st, fresh=True) if op == "in" and not pos and rt is not None and norm(l) == norm(k)}
                ok = ok and need <= have
        return ok, cnt

    root = _View(ctx, jc)
    ok, cnt = unused_id_known(root.closure())
    ctx.anchor(cnt, "exit socket installation in join_circuit")
    if not ok:
        # the check may live in the callers instead - then in every caller, after its last suspension point
        callers = [(g, c) for _, g, c in repo.callers_of_name("join_circuit") if g is not None and g not in may_install]
        ok = bool(callers)
        for g, c in callers:
            w = _View(ctx, g).bind_call(jc, c)
            ok = ok and w is not None and unused_id_known(w.closure())[0]
    sites = [st for v in root.closure() for st, k, val in _route_installs(v, "self.exit_sockets")]
    ctx.check(ok, "responder-keying", jc, sites[0],
              "exit socket installed only for a circuit id that is not in circuits / relay_from_to / exit_sockets, tested after the last await",
              "join_circuit installs self.exit_sockets[circuit_id] (new session keys for the hop towards the sender of the CREATE) without a "
              "dominating in-use test of that id made after the last suspension point: a second CREATE for the same circuit id "
              "(duplicate in flight, or forged - CREATE is plaintext) re-keys an established hop, and the originator's keys match nobody")


def _reaching_defs(v: _View, e: ast.AST) -> list[tuple[ast.AST | None, ast.AST | None, int | None]]:
    e = strip_cast(e)
    if isinstance(e, ast.Name) and not is_param(v.fi, e.id) and local_defs(v.fi, e.id):
        return list(local_defs(v.fi, e.id))
    return [(None, e, None)]


def _jointly_reach(v: _View, sb, sa, kb: list, ka: list, site_nodes: list) -> bool:
    """
    Some path reaches the site on which the last definition of the key local is statement sb and the last definition of the
    address local is statement sa (None: the expression is not a local with definitions).  kb / ka: all defining statements.
    """
    cfg = v.cfg

    def nodes(stmts, *, but=()):
        return [n for s in stmts if not any(s is x for x in but) for n in cfg.nodes_for(s)]

    nb = cfg.nodes_for(sb) if sb is not None else []
    na = cfg.nodes_for(sa) if sa is not None else []
    later = nodes(kb, but=(sb,)) + nodes(ka, but=(sa,))          # any of these after both definitions replaces one of them
    later = [n for n in later if n not in nb and n not in na and n not in site_nodes]
    if sb is None and sa is None:
        return True
    if sb is None or sa is None or sb is sa:
        first = nb or na
        return any(n in cfg.reach(first, cut_nodes=[x for x in later if x not in first]) for n in site_nodes)
    b_kills_a, a_kills_b = any(sb is s for s in ka), any(sa is s for s in kb)
    # sb first, then sa: nothing may redefine the key in between (sa itself must not), afterwards nothing may redefine either
    if not a_kills_b:
        mid = [n for n in nodes(kb, but=(sb,)) if n not in nb and n not in site_nodes]
        if any(n in cfg.reach(nb, cut_nodes=mid) for n in na) and any(n in cfg.reach(na, cut_nodes=[x for x in later + nb if x not in na]) for n in site_nodes):
            return True
    if not b_kills_a:
        mid = [n for n in nodes(ka, but=(sa,)) if n not in na and n not in site_nodes]
        if any(n in cfg.reach(na, cut_nodes=mid) for n in nb) and any(n in cfg.reach(nb, cut_nodes=[x for x in later + na if x not in nb]) for n in site_nodes):
            return True
    return False


def _target_pairs(v: _View, eb: ast.AST, ea: ast.AST, site, depth: int = 3) -> list[tuple[_View, ast.AST, ast.AST]]:
    """(view, key expression, address expression) for every pair of definitions that can be current together at the site"""
    rb, ra = _reaching_defs(v, eb), _reaching_defs(v, ea)
    kb, ka = [s for s, _v, _i in rb if s is not None], [s for s, _v, _i in ra if s is not None]
    rb, ra = [d for d in rb if d[0] is not site], [d for d in ra if d[0] is not site]     # the site's own definitions come after it
    site_nodes = v.cfg.nodes_for(site) if isinstance(site, ast.AST) else [site]
    out = []
    for sb, vb, ib in rb:
        for sa, va, ia in ra:
            if not _jointly_reach(v, sb, sa, kb, ka, site_nodes):
                continue
            if ib is None and ia is None and vb is not None and va is not None:
                # a definition that merely keeps the current value (`x, y = x, other`, left by inlining) stands for the definitions before it
                keep_b = isinstance(strip_cast(vb), ast.Name) and isinstance(strip_cast(eb), ast.Name) and strip_cast(vb).id == strip_cast(eb).id
                keep_a = isinstance(strip_cast(va), ast.Name) and isinstance(strip_cast(ea), ast.Name) and strip_cast(va).id == strip_cast(ea).id
                if keep_b or keep_a:
                    sub = _target_pairs(v, eb if keep_b else vb, ea if keep_a else va, sb if keep_b else sa, depth - 1) if depth > 0 else []
                    if not sub:
                        raise AnalysisError(f"undecided: definitions of the node to extend to in {v.fi.qualname} (`{norm(sb)[:80]}`)")
                    out += sub
                    continue
                out.append((v, vb, va))
                continue
            call = strip_cast(vb) if vb is not None else None
            kv = v.helper_of(call) if sb is sa and vb is va and isinstance(call, ast.Call) else None
            if kv is None or depth <= 0 or ib is None or ia is None:
                raise AnalysisError(f"undecided: key and address of the node to extend to are bound in {v.fi.qualname} in a way that is not followed "
                                    f"(`{norm(sb or sa)[:80]}`)")
            for r in [x for x in walk_no_nested(kv.fi.node) if isinstance(x, ast.Return)]:
                t = strip_cast(r.value) if r.value is not None else None
                if not isinstance(t, ast.Tuple) or max(ib, ia) >= len(t.elts) or any(isinstance(x, ast.Starred) for x in t.elts):
                    raise AnalysisError(f"undecided: {kv.fi.qualname} does not return a tuple display at `{norm(r)[:60]}`")
                out += _target_pairs(kv, t.elts[ib], t.elts[ia], r, depth - 1)
    return out


def _same_peer(v: _View, key: ast.AST, addr: ast.AST) -> bool:
    """key is X.public_key.key_to_bin() and addr is X.address for one peer object X (a call-free expression over stable names)"""
    key, addr = strip_cast(key), strip_cast(addr)
    if not (isinstance(addr, ast.Attribute) and addr.attr == "address"):
        return False
    if not (isinstance(key, ast.Call) and not key.args and not key.keywords and isinstance(key.func, ast.Attribute) and key.func.attr == "key_to_bin"
            and isinstance(key.func.value, ast.Attribute) and key.func.value.attr == "public_key"):
        return False
    x, y = strip_cast(addr.value), strip_cast(key.func.value.value)
    if norm(x) != norm(y) or any(isinstance(n, (ast.Call, ast.Await, ast.NamedExpr)) for n in ast.walk(x)):
        return False
    for nm in {n.id for n in ast.walk(x) if isinstance(n, ast.Name)}:
        if not is_param(v.fi, nm) and nm != "self" and len(local_defs(v.fi, nm)) != 1:
            return False
        if is_param(v.fi, nm) and local_defs(v.fi, nm):
            return False
    return True


def _extend_names_one_node(ctx: Ctx, se: FuncInfo) -> None:
    """
    The extend request names the next node by key and, where the relay cannot know it, by address.  Both must belong to the
    same peer: the relay connects to the address, the originator verifies (and lists) the key.
    """
    v = _View(ctx, se)
    for c in calls(se, "ExtendPayload"):
        pa = _pargs(c, ["circuit_id", "identifier", "node_public_key", "key", "node_addr"])
        if pa is None or pa[4] is None:
            continue
        # the key that is named: the one the pending hop was built from (checked by the writer rule): key_from_public_bin(<B>)
        keys = []
        for st, t in stores(se, "circuit.unverified_hop"):
            h = v.expand(st.value, keep=frozenset({"extend_hop_public_bin"})) if isinstance(st, (ast.Assign, ast.AnnAssign)) and st.value is not None else None
            pe = strip_cast(arg(h, 0, "peer")) if isinstance(h, ast.Call) and chain(h.func) == "Hop" else None
            k = strip_cast(arg(pe, 0, "key")) if isinstance(pe, ast.Call) and chain(pe.func) == "Peer" else None
            if isinstance(k, ast.Call) and call_name(k) == "key_from_public_bin" and arg(k, 0) is not None:
                keys.append(arg(k, 0))
        if len(keys) != 1:
            continue        # reported by the writer rule
        bad = []
        for pv, kb, ka in _target_pairs(v, keys[0], pa[4], c):
            null_addr = const_value(strip_cast(ka)) == ("0.0.0.0", 0)
            no_key = const_value(strip_cast(kb)) is not NOCONST and not const_value(strip_cast(kb))
            if not (null_addr or no_key or _same_peer(pv, kb, ka)):
                bad.append(f"key `{norm(kb)[:50]}` with address `{norm(ka)[:50]}`")
        ctx.check(not bad, "selected-peer-key", se, c, "extend request: key and address of the next node belong to one peer (or no address is given)",
                  "send_extend names the next node by the key of one peer and the address of another (" + "; ".join(bad) + "): the relay "
                  "sends the create to that address, a node other than the selected peer joins, and the originator lists - and derives keys for - "
                  "a peer that is not in the circuit")


def _is_hops(e: ast.AST) -> bool:
    return _snorm(e) == "self._hops"


def _copies_hops(e: ast.AST) -> bool:
    """e evaluates to a new sequence with exactly the elements of self._hops in order"""
    e = strip_cast(e)
    if _is_hops(e):
        return True
    if isinstance(e, (ast.List, ast.Tuple)) and len(e.elts) == 1 and isinstance(e.elts[0], ast.Starred):
        return _copies_hops(e.elts[0].value)
    if isinstance(e, ast.Call) and isinstance(e.func, ast.Name) and e.func.id in ("list", "tuple") and len(e.args) == 1 and not e.keywords:
        return _copies_hops(e.args[0])
    if isinstance(e, ast.Call) and isinstance(e.func, ast.Attribute) and e.func.attr == "copy" and not e.args and not e.keywords:
        return _is_hops(e.func.value)
    if isinstance(e, ast.Subscript) and isinstance(e.slice, ast.Slice) and e.slice.lower is None and e.slice.upper is None and e.slice.step is None:
        return _is_hops(e.value)
    if isinstance(e, (ast.GeneratorExp, ast.ListComp)) and len(e.generators) == 1:
        g = e.generators[0]
        return not g.ifs and not g.is_async and isinstance(g.target, ast.Name) and isinstance(e.elt, ast.Name) and e.elt.id == g.target.id \
            and _copies_hops(g.iter)
    return False


def _is_tuple_copy_of_hops(e: ast.AST) -> bool:
    e = strip_cast(e)
    if isinstance(e, ast.Call) and isinstance(e.func, ast.Name) and e.func.id == "tuple" and len(e.args) == 1 and not e.keywords:
        return _copies_hops(e.args[0])
    return isinstance(e, ast.Tuple) and len(e.elts) == 1 and isinstance(e.elts[0], ast.Starred) and _copies_hops(e.elts[0].value)


def _appends_only(fi: FuncInfo, st: ast.stmt) -> bool:
    """st rebinds / extends self._hops to `old elements + new ones` (the established prefix is kept in place)"""
    if isinstance(st, ast.AugAssign):
        return isinstance(st.op, ast.Add) and _is_hops(st.target) and isinstance(strip_cast(st.value), (ast.List, ast.Tuple))
    if isinstance(st, ast.Assign) and len(st.targets) == 1 and _is_hops(st.targets[0]):
        v = resolve(fi, st.value)
        if isinstance(v, ast.BinOp) and isinstance(v.op, ast.Add):
            return _copies_hops(v.left) and isinstance(strip_cast(v.right), (ast.List, ast.Tuple)) and not isinstance(strip_cast(v.left), ast.Tuple)
        if isinstance(v, ast.List) and v.elts and isinstance(v.elts[0], ast.Starred):
            return _copies_hops(v.elts[0].value) and not any(isinstance(x, ast.Starred) for x in v.elts[1:])
    return False


def rule_append_only(ctx: Ctx) -> None:
    repo = ctx.repo
    circ = repo.cls("Circuit", TU)
    n = 0
    for m in repo.modules.values():
        for node in ast.walk(m.tree):
            if isinstance(node, ast.Attribute) and node.attr == "_hops":
                fi = repo.function_of(node)
                n += 1
                inside = fi is not None and fi.cls is circ
                ctx.check(inside, "hops-append-only", fi or m.relpath, enclosing_stmt(node), "_hops touched only inside Circuit",
                          "Circuit._hops is accessed from outside the Circuit class")
                if not inside:
                    continue
                par = getattr(node, "_parent", None)
                if isinstance(node.ctx, ast.Store):
                    st = enclosing_stmt(node)
                    ctx.check(fi.name == "__init__" or fi.name == "add_hop" and _appends_only(fi, st), "hops-append-only", fi, st,
                              "_hops assigned only in __init__ (add_hop may extend it in place)",
                              "the hop list of a circuit is replaced after construction")
                elif isinstance(par, ast.Attribute) and isinstance(getattr(par, "_parent", None), ast.Call):
                    call = par._parent
                    grows = par.attr == "append" or \
                        par.attr == "extend" and len(call.args) == 1 and not call.keywords and isinstance(strip_cast(call.args[0]), (ast.List, ast.Tuple)) or \
                        par.attr == "insert" and len(call.args) == 2 and not call.keywords and _snorm(call.args[0]) == "len(self._hops)"
                    reads = par.attr in ("copy", "index", "count") or par.attr.startswith("__") and par.attr in ("__len__", "__iter__", "__getitem__", "__contains__")
                    ctx.check(reads or grows and fi.name == "add_hop", "hops-append-only", fi, enclosing_stmt(node),
                              f"_hops.{par.attr} in {fi.name}", f"the hop list is mutated with `{par.attr}` (established hops can change)")
                elif isinstance(par, ast.Subscript) and isinstance(par.ctx, (ast.Store, ast.Del)):
                    ctx.check(False, "hops-append-only", fi, enclosing_stmt(node), "no element assignment", "an established hop is overwritten")
    ctx.floor("hops-append-only", n, 4)
    hp = circ.methods.get("hops")
    rets = [r for r in walk_no_nested(hp.node) if isinstance(r, ast.Return)]
    ok = bool(rets) and all(r.value is not None and (_is_tuple_copy_of_hops(resolve(hp, r.value)) or const_value(r.value) == ()) for r in rets)
    ctx.check(ok, "hops-append-only", hp, hp.node, "Circuit.hops returns a tuple copy", "Circuit.hops hands out the mutable hop list")
    allowed = _closure_functions(_View(ctx, _ours(ctx)).closure())
    for m, fi, c in repo.callers_of_name("add_hop"):
        if fi is None:
            continue
        ctx.check(fi in allowed, "hops-append-only", fi, c,
                  f"add_hop called from {fi.qualname}", "hops are appended outside the verified create/extend completion")
    # hop.keys of established hops: stores to `.keys` on hops only in _ours_on_created_extended
    for m in repo.modules.values():
        if not m.relpath.startswith("ipv8/messaging/anonymization/"):
            continue
        for node in ast.walk(m.tree):
            if isinstance(node, ast.Attribute) and node.attr == "keys" and isinstance(node.ctx, ast.Store):
                fi = repo.function_of(node)
                ctx.check(fi is not None and fi in allowed, "hops-append-only", fi or m.relpath,
                          enclosing_stmt(node), "hop.keys assigned only on verified completion", "session keys of a hop are assigned elsewhere")


def _ctor_field_param(repo, clsname: str, relpath: str, attr: str) -> int | None:
    """index (among the call arguments) of the constructor parameter that `self.<attr>` is initialised from, if it is a plain copy"""
    init = repo.method(clsname, "__init__", relpath)
    sts = [s for s, t in stores(init, f"self.{attr}")]
    if len(sts) != 1 or not isinstance(sts[0], (ast.Assign, ast.AnnAssign)) or sts[0].value is None:
        return None
    v = strip_cast(sts[0].value)
    ps = init.params()
    if isinstance(v, ast.Name) and v.id in ps and not local_defs(init, v.id):
        return ps.index(v.id) - 1
    return None


def _route_installs(v: _View, table: str = "self.relay_from_to") -> list[tuple[ast.AST, ast.AST | None, ast.AST | None]]:
    """(statement, key, value) - expanded - for every way view v puts an entry into the dict `table` (self.relay_from_to)"""
    out = []

    def alternatives(k: ast.AST, val: ast.AST | None):
        # a key / value taken from a for-loop over a literal sequence of tuples stands for each of its elements
        names = {x.id for e in (k, val) if e is not None for x in ast.walk(e) if isinstance(x, ast.Name)}
        for nm in names:
            d = local_defs(v.fi, nm)
            if len(d) == 1 and isinstance(d[0][0], (ast.For, ast.AsyncFor)):
                loop = d[0][0]
                it = strip_cast(loop.iter)
                tg = loop.target
                if isinstance(it, (ast.Tuple, ast.List)) and it.elts and isinstance(tg, (ast.Tuple, ast.List)) \
                        and all(isinstance(x, ast.Name) for x in tg.elts) \
                        and all(isinstance(e, (ast.Tuple, ast.List)) and len(e.elts) == len(tg.elts) for e in it.elts):
                    return [{t.id: v.expand(x) for t, x in zip(tg.elts, e.elts)} for e in it.elts]
        return [{}]

    def add(st, k, val):
        for env in alternatives(k, val):
            out.append((st, v.expand(k, env=env), v.expand(val, env=env) if val is not None else None))

    for st in walk_no_nested(v.fi.node):
        targets = st.targets if isinstance(st, (ast.Assign, ast.Delete)) else [st.target] if isinstance(st, (ast.AugAssign, ast.AnnAssign)) else []
        for t in targets:
            elts = t.elts if isinstance(t, (ast.Tuple, ast.List)) else [t]
            for i, e in enumerate(elts):
                if isinstance(e, ast.Subscript) and v.xn(e.value) == table and not isinstance(st, ast.Delete):
                    val = None
                    if isinstance(st, ast.Assign):
                        if e is t:
                            val = st.value
                        elif isinstance(strip_cast(st.value), (ast.Tuple, ast.List)) and len(strip_cast(st.value).elts) == len(elts):
                            val = strip_cast(st.value).elts[i]
                    elif isinstance(st, ast.AnnAssign):
                        val = st.value
                    add(st, e.slice, val)
    for c in calls(v.fi):
        if not isinstance(c.func, ast.Attribute) or v.xn(c.func.value) != table:
            continue
        st = enclosing_stmt(c)
        if c.func.attr == "__setitem__" and len(c.args) == 2 and not c.keywords:
            add(st, c.args[0], c.args[1])
        elif c.func.attr == "setdefault" and len(c.args) == 2 and not c.keywords:
            add(st, c.args[0], c.args[1])
        elif c.func.attr == "update":
            d = resolve(v.fi, c.args[0]) if len(c.args) == 1 and not c.keywords else None
            if not isinstance(d, ast.Dict) or any(k is None for k in d.keys):
                raise AnalysisError(f"undecided: {table}.update(..) in {v.fi.qualname} with something other than a dict display")
            for k, val in zip(d.keys, d.values):
                add(st, k, val)
    return out


def rule_relay_pairing(ctx: Ctx) -> None:
    repo = ctx.repo
    oe = repo.method("TunnelCommunity", "on_extend", TC)
    ev = _View(ctx, oe)
    pe = oe.params()[2]
    ctors = ctx.anchor([(v, c) for v in ev.closure() for c in calls(v.fi, "CreateRequestCache")], "CreateRequestCache in on_extend")
    v0, c = ctors[0]
    pa = _pargs(c, ["community", "identifier", "to_circuit_id", "from_circuit_id", "peer", "to_peer"]) or [None] * 6
    new_ids = [x for v in ev.closure() for x in calls(v.fi, "self._generate_circuit_id")]
    ok = len(ctors) == 1 and len(new_ids) == 1 and [v0.xn(x) for x in pa[:4]] == ["self", f"{pe}.identifier", "self._generate_circuit_id()", f"{pe}.circuit_id"] \
        and not local_defs(oe, pe)
    ct = v0.xn(c)
    cps = [(v, x) for v in ev.closure() for x in calls(v.fi, "CreatePayload")]
    if ok and len(cps) == 1:
        v1, cp = cps[0]
        qa = _pargs(cp, ["circuit_id", "identifier", "node_public_key", "key"]) or [None] * 4
        to_field = _ctor_field_param(repo, "CreateRequestCache", CA, "to_circuit_id")
        # the forwarded create runs under the circuit id the relay just generated (the local, or the field the cache copied it to)
        ok = (v1.xn(qa[0]) == "self._generate_circuit_id()" or v1.xn(qa[0]) == f"{ct}.to_circuit_id" and to_field == 2) \
            and v1.xn(qa[1]) == f"{ct}.number" and v1.xn(qa[3]) == f"{pe}.key"
    else:
        ok = False
    ctx.check(ok, "relay-pairing", oe, c, "on_extend: cache(extend id, new to_circuit_id, from circuit) and create(to_circuit_id, cache.number, .., payload.key)",
              "the relay does not pair the forwarded create with the pending extend (identifier / circuit ids / key material)")
    oc = repo.method("TunnelCommunity", "on_created", TC)
    ov = _View(ctx, oc)
    views = ov.closure()
    pl = oc.params()[2]
    pops = [(v, p) for v in views for p in calls(v.fi) if isinstance(p.func, ast.Attribute) and p.func.attr == "pop"
            and v.xn(p.func.value) == "self.request_cache" and chain(arg(p, 0)) == "CreateRequestCache"]
    ctx.anchor(pops, "CreateRequestCache pop in on_created")
    for v, p in pops:
        xf = _xfacts(v, p)
        key = v.xn(arg(p, 1))
        ok = key == f"{pl}.identifier" and not local_defs(oc, pl) and len(p.args) == 2 and not p.keywords and \
            _fkey("truthy", True, f"self.request_cache.has(CreateRequestCache, {key})") in {_tkey(t) for t in xf}
        ctx.check(ok, "relay-pairing", v.fi, p, "created consumed by payload.identifier only when such a cache exists (has before pop)",
                  "a created answer is paired with a pending extend without checking the cache exists / by another key",
                  [f"{op}{'' if pos else '-not'}: {norm(l)}" for op, pos, l, rt in xf])
    # ---- the routes installed for the new hop are those of the pending extend *as the relay stored it*
    req = pops[0][0].xn(pops[0][1])            # the popped CreateRequestCache, in on_created's terms
    one_pop = len(pops) == 1

    def req_attr(e: ast.AST | None) -> str | None:
        """attribute name if the (expanded) e is <popped request>.<attr>"""
        e = strip_cast(e) if e is not None else None
        return e.attr if one_pop and isinstance(e, ast.Attribute) and norm(e.value) == req else None

    def from_exit_socket_keys(e: ast.AST | None) -> bool:
        """e is self.exit_sockets[<request>.from_circuit_id].hop.keys (the keys negotiated with the circuit owner's side)"""
        e = strip_cast(e) if e is not None else None
        if not (isinstance(e, ast.Attribute) and e.attr == "keys" and isinstance(e.value, ast.Attribute) and e.value.attr == "hop"):
            return False
        sock = strip_cast(e.value.value)
        if isinstance(sock, ast.Subscript):
            return chain(sock.value) == "self.exit_sockets" and req_attr(sock.slice) == "from_circuit_id"
        return isinstance(sock, ast.Call) and chain(sock.func) == "self.exit_sockets.get" and req_attr(arg(sock, 0)) == "from_circuit_id"

    def still_exit_socket(t: tuple) -> bool:
        """dominating fact: the origin circuit id of the pending extend is (still) an exit socket of this relay"""
        op, pos, l, rt = t
        if op == "in" and pos:
            return req_attr(l) == "from_circuit_id" and chain(rt) == "self.exit_sockets"
        if op == "truthy" and pos or op == "is" and not pos and rt is not None and const_value(rt) is None:
            return isinstance(l, ast.Call) and chain(l.func) == "self.exit_sockets.get" and req_attr(arg(l, 0)) == "from_circuit_id" \
                and (len(l.args) == 1 or const_value(l.args[1]) is None) and not l.keywords
        return False

    def socket_lookups(x: _View) -> list[ast.AST]:
        """statements that evaluate self.exit_sockets[<request>.from_circuit_id]: completing one normally means the key is present"""
        return [s for s in walk_no_nested(x.fi.node) if isinstance(s, ast.Subscript) and isinstance(s.ctx, ast.Load)
                and x.xn(s) == f"self.exit_sockets[{req}.from_circuit_id]"]

    expect = {"to_circuit_id": ("from_circuit_id", "peer", "BACKWARD"), "from_circuit_id": ("to_circuit_id", "to_peer", "FORWARD")}
    seen = []
    for v in views:
        for st, k, val in _route_installs(v):
            xf = _xfacts(v, st)
            ka = req_attr(k)
            ok = ka in expect and isinstance(val, ast.Call) and chain(val.func) == "RelayRoute"
            if ok:
                seen.append(ka)
                other, peer, direction = expect[ka]
                hp = strip_cast(arg(val, 1, "hop"))
                ok = req_attr(arg(val, 0, "circuit_id")) == other and isinstance(hp, ast.Call) and chain(hp.func) == "Hop" \
                    and req_attr(arg(hp, 0, "peer")) == peer and from_exit_socket_keys(arg(hp, 1, "keys")) \
                    and _snorm(arg(val, 2, "direction")) == direction
            ok = ok and (any(still_exit_socket(t) for t in xf) or _always(v, v.cfg.nodes_for(st), socket_lookups))
            ctx.check(ok, "relay-pairing", v.fi, st,
                      "relay route registered under the pending extend's own to/from circuit id (from the popped CreateRequestCache), "
                      "keyed from the origin's exit socket, only while the origin circuit still is an exit socket here",
                      "on_created installs relay_from_to[...] under a circuit id taken from the answer (or not from the relay's own "
                      "CreateRequestCache), or while the origin circuit is no longer an exit socket: a created answer carrying a foreign "
                      "circuit id, or one that answers an earlier abandoned extend attempt, rewires an already established hop of a circuit "
                      "whose originator is keyed with (and lists) another peer",
                      [f"{op}{'' if pos else '-not'}: {norm(l)}{' / ' + norm(rt) if rt is not None else ''}" for op, pos, l, rt in xf])
    ctx.check(sorted(seen) == sorted(expect), "relay-pairing", oc, oc.node,
              "on_created registers exactly the backward route under to_circuit_id and the forward route under from_circuit_id",
              "on_created does not register exactly one backward and one forward route for the pending extend")
    for v in views:
        for e in calls(v.fi, "ExtendedPayload"):
            pa = _pargs(e, ["circuit_id", "identifier", "key", "auth", "candidates_enc"])
            ok = pa is not None and all(x is not None for x in pa)
            if ok:
                a0 = v.expand(pa[0])
                # the origin circuit: the request's from_circuit_id, or the circuit id of a RelayRoute constructed with it (the backward route)
                origin_ok = req_attr(a0) == "from_circuit_id" or (
                    isinstance(a0, ast.Attribute) and a0.attr == "circuit_id" and isinstance(strip_cast(a0.value), ast.Call)
                    and chain(strip_cast(a0.value).func) == "RelayRoute" and req_attr(arg(strip_cast(a0.value), 0, "circuit_id")) == "from_circuit_id")
                ok = origin_ok and req_attr(v.expand(pa[1])) == "extend_identifier" and not local_defs(oc, pl) \
                    and [v.xn(x) for x in pa[2:]] == [f"{pl}.key", f"{pl}.auth", f"{pl}.candidates_enc"]
            ctx.check(ok, "relay-pairing", v.fi, e, "extended answer = (origin circuit, extend identifier, key, auth, candidates) forwarded unchanged",
                      "the relay alters identifier or key material when forwarding created as extended")


def run(ctx: Ctx) -> None:
    rule_identifier(ctx)
    rule_verify_before_accept(ctx)
    rule_unverified_hop_writers(ctx)
    rule_append_only(ctx)
    rule_relay_pairing(ctx)
    rule_responder_keying(ctx)
    ctx.assume("X25519 / crypto_auth / HKDF in ipv8_rust_tunnels and OpenSSL keys are sound: equal inputs give equal session keys, crypto_auth_verify is a MAC check (trusted)")
    ctx.assume("replay of an old answer is excluded only through the fresh packet_identifier of each attempt (checked), not by exploring schedules")


WITNESSES = [
    {"name": "created accepted without identifier match", "file": TC, "rule": "identifier-match",
     "old": "        if cache and cache.packet_identifier == payload.identifier:\n            self._ours_on_created_extended(circuit_id, payload)",
     "new": "        if cache:\n            self._ours_on_created_extended(circuit_id, payload)"},
    {"name": "extended accepted with stale identifier", "file": TC, "rule": "identifier-match",
     "old": "        if not cache or cache.packet_identifier != payload.identifier:\n            self.logger.warning(\"Received unexpected extended for circuit %s\", circuit_id)\n            return\n",
     "new": "        if not cache:\n            self.logger.warning(\"Received unexpected extended for circuit %s\", circuit_id)\n            return\n"},
    {"name": "identifier reused across attempts", "file": CA, "rule": "identifier-match",
     "old": "self.packet_identifier = secrets.randbelow(2**16)", "new": "self.packet_identifier = circuit.circuit_id % 2**16"},
    {"name": "keys accepted when verification raises", "file": TC, "rule": "verify-before-accept",
     "old": """        try:
            shared_secret = self.crypto.verify_and_generate_shared_secret(hop.dh_secret, payload.key, payload.auth,
                                                                          hop.peer.public_key.get_crypt_pk())
            session_keys = self.crypto.generate_session_keys(shared_secret)
            hop.keys = session_keys

        except ValueError:
            self.remove_circuit(circuit.circuit_id, "error while verifying shared secret")
            return
""",
     "new": """        try:
            shared_secret = self.crypto.verify_and_generate_shared_secret(hop.dh_secret, payload.key, payload.auth,
                                                                          hop.peer.public_key.get_crypt_pk())
            session_keys = self.crypto.generate_session_keys(shared_secret)
            hop.keys = session_keys

        except Exception:
            self.logger.warning("error while verifying shared secret")
            session_keys = None
"""},
    {"name": "auth check result ignored", "file": CR, "rule": "verify-before-accept",
     "old": "        if not crypto_auth_verify(auth, shared_secret[:32], dh_received):\n            raise CryptoException\n",
     "new": "        crypto_auth_verify(auth, shared_secret[:32], dh_received)\n"},
    {"name": "verify against key from the answer", "file": TC, "rule": "selected-peer-key",
     "old": "                                                                          hop.peer.public_key.get_crypt_pk())",
     "new": "                                                                          payload.key)"},
    {"name": "static part dropped from secret", "file": CR, "rule": "selected-peer-key",
     "old": "        s2 = dh_secret.diffie_hellman(b)\n", "new": "        s2 = dh_secret.diffie_hellman(dh_received)\n"},
    {"name": "hop list replaced", "file": TU, "rule": "hops-append-only",
     "old": "        self._hops.append(hop)\n", "new": "        self._hops = [*self._hops[:-1], hop] if self.unverified_hop is None and self._hops else [*self._hops, hop]\n"},
    {"name": "hops property leaks list", "file": TU, "rule": "hops-append-only",
     "old": "        return tuple(self._hops)", "new": "        return self._hops"},
    {"name": "unverified hop rewritten by answer", "file": TC, "rule": "selected-peer-key",
     "old": "        if cache and cache.packet_identifier == payload.identifier:\n            self._ours_on_created_extended(circuit_id, payload)",
     "new": "        if cache and cache.packet_identifier == payload.identifier:\n            self.circuits[circuit_id].unverified_hop = Hop(Peer(payload.key, source_address))\n            self._ours_on_created_extended(circuit_id, payload)"},
    {"name": "relay pairs created by circuit id", "file": TC, "rule": "relay-pairing",
     "old": "        if self.request_cache.has(CreateRequestCache, payload.identifier):\n            request = self.request_cache.pop(CreateRequestCache, payload.identifier)",
     "new": "        if self.request_cache.has(CreateRequestCache, payload.identifier):\n            request = self.request_cache.pop(CreateRequestCache, payload.identifier % 65536)"},
    {"name": "relay route registered under the circuit id of the answer", "file": TC, "rule": "relay-pairing",
     "old": "            self.relay_from_to[request.to_circuit_id] = bw_relay\n",
     "new": "            self.relay_from_to[circuit_id] = bw_relay\n"},
    {"name": "established relay rewired by a late created", "file": TC, "rule": "relay-pairing",
     "old": "            if request.from_circuit_id not in self.exit_sockets:\n                self.logger.info(\"Created for unknown exit socket %s\", request.from_circuit_id)\n                return\n            session_keys = self.exit_sockets[request.from_circuit_id].hop.keys\n",
     "new": "            if request.from_circuit_id not in self.exit_sockets and request.from_circuit_id not in self.relay_from_to:\n                self.logger.info(\"Created for unknown exit socket %s\", request.from_circuit_id)\n                return\n            session_keys = (self.exit_sockets.get(request.from_circuit_id) or self.relay_from_to[request.from_circuit_id]).hop.keys\n"},
    {"name": "create carries the DH part of a hop that is not (always) the pending hop", "rule": "selected-peer-key", "edits": [
        {"file": TC,
         "old": "        circuit.unverified_hop = Hop(first_hop, flags=self.candidates.get(first_hop))\n        circuit.unverified_hop.dh_secret, circuit.unverified_hop.dh_first_part = self.crypto.generate_diffie_secret()\n",
         "new": "        new_hop = Hop(first_hop, flags=self.candidates.get(first_hop))\n        new_hop.dh_secret, new_hop.dh_first_part = self.crypto.generate_diffie_secret()\n        if circuit.unverified_hop is None:\n            circuit.unverified_hop = new_hop\n"},
        {"file": TC,
         "old": "                                                        circuit.unverified_hop.dh_first_part))",
         "new": "                                                        new_hop.dh_first_part))"}]},
    {"name": "old retry cache not popped on every path before the new attempt", "file": TC, "rule": "identifier-match",
     "old": "        if self.request_cache.has(RetryRequestCache, circuit.circuit_id):\n            self.request_cache.pop(RetryRequestCache, circuit.circuit_id)\n            self.logger.info(\"Retrying first hop",
     "new": "        if self.request_cache.has(RetryRequestCache, circuit.circuit_id) and max_tries > 1:\n            self.request_cache.pop(RetryRequestCache, circuit.circuit_id)\n            self.logger.info(\"Retrying first hop"},
    {"name": "relay substitutes key material", "file": TC, "rule": "relay-pairing",
     "old": "                           ExtendedPayload(bw_relay.circuit_id, request.extend_identifier,\n                                           payload.key, payload.auth, payload.candidates_enc))",
     "new": "                           ExtendedPayload(bw_relay.circuit_id, payload.identifier,\n                                           payload.key, payload.auth, payload.candidates_enc))"},
    {"name": "join_circuit keys a hop for a circuit id that already has an exit socket", "file": TC, "rule": "responder-keying",
     "old": "        if circuit_id in self.circuits or circuit_id in self.relay_from_to or circuit_id in self.exit_sockets:\n            self.logger.warning(\"Refusing to join",
     "new": "        if circuit_id in self.circuits or circuit_id in self.relay_from_to:\n            self.logger.warning(\"Refusing to join"},
    {"name": "in-use test of the circuit id made before the await of the join policy", "rule": "responder-keying", "edits": [
        {"file": TC,
         "old": "        if circuit_id in self.circuits or circuit_id in self.relay_from_to or circuit_id in self.exit_sockets:\n            self.logger.warning(\"Refusing to join circuit %d: circuit id is already in use\", circuit_id)\n            return\n\n",
         "new": ""},
        {"file": TC,
         "old": "        result = await self.should_join_circuit(payload, source_address)\n",
         "new": "        if (payload.circuit_id in self.circuits or payload.circuit_id in self.relay_from_to\n                or payload.circuit_id in self.exit_sockets):\n            return\n        result = await self.should_join_circuit(payload, source_address)\n"}]},
    {"name": "in-use test of the circuit id made by the caller after the await (still atomic with the installation)", "kind": "twin",
     "rule": "responder-keying", "at": "join_circuit", "edits": [
        {"file": TC,
         "old": "        if circuit_id in self.circuits or circuit_id in self.relay_from_to or circuit_id in self.exit_sockets:\n            self.logger.warning(\"Refusing to join circuit %d: circuit id is already in use\", circuit_id)\n            return\n\n",
         "new": ""},
        {"file": TC,
         "old": "        if result:\n            self.join_circuit(payload, source_address)\n",
         "new": "        if result:\n            if (payload.circuit_id in self.circuits or payload.circuit_id in self.relay_from_to\n                    or payload.circuit_id in self.exit_sockets):\n                return\n            self.join_circuit(payload, source_address)\n"}]},
    {"name": "a repeated create drops the established exit socket", "file": TC, "rule": "responder-keying",
     "old": "        result = await self.should_join_circuit(payload, source_address)\n",
     "new": "        self.exit_sockets.pop(payload.circuit_id, None)\n        result = await self.should_join_circuit(payload, source_address)\n"},
    {"name": "extend names the key of one peer and the address of another", "file": TC, "rule": "selected-peer-key",
     "old": "                    extend_hop_addr = peer.address\n", "new": "                    extend_hop_addr = choices[0].address\n"},
    {"name": "verification moved into a decision helper whose failure result is ignored", "rule": "verify-before-accept", "edits": [
        {"file": TC,
         "old": "            shared_secret = self.crypto.verify_and_generate_shared_secret(hop.dh_secret, payload.key, payload.auth,\n                                                                          hop.peer.public_key.get_crypt_pk())\n            session_keys = self.crypto.generate_session_keys(shared_secret)\n            hop.keys = session_keys\n",
         "new": "            session_keys = self._c08_witness_keys(hop, payload)\n            hop.keys = session_keys\n"},
        {"file": TC,
         "old": "    def _ours_on_created_extended(self, circuit_id: int, payload: CreatedPayload | ExtendedPayload) -> None:\n",
         "new": "    def _c08_witness_keys(self, hop: Hop, payload: CreatedPayload | ExtendedPayload) -> SessionKeys | None:\n        try:\n            secret = self.crypto.verify_and_generate_shared_secret(hop.dh_secret, payload.key, payload.auth,\n                                                                   hop.peer.public_key.get_crypt_pk())\n            return self.crypto.generate_session_keys(secret)\n        except CryptoException:\n            return None\n\n    def _ours_on_created_extended(self, circuit_id: int, payload: CreatedPayload | ExtendedPayload) -> None:\n"}]},
]
