"""C08 - Circuit hops are only keyed with the peer the originator chose."""
from __future__ import annotations

import ast

from ..core import Ctx
from ..match import arg, call_name, calls, facts_at, is_param, local_defs, resolve, single_def, stores
from ..model import AnalysisError, FuncInfo, chain, const_value, enclosing_stmt, norm, strip_cast, walk_no_nested

LEVEL = "other"
EXPLANATION = (
    "Acceptance of keys as dominance/dataflow facts: each call of _ours_on_created_extended is dominated by a live "
    "RetryRequestCache for that circuit id whose random packet_identifier equals the answer's identifier; inside it, "
    "hop.keys / add_hop / clearing unverified_hop are reachable only after verify_and_generate_shared_secret returned "
    "normally, whose 4th argument is the static key of circuit.unverified_hop.peer (the peer selected in "
    "send_initial_create / send_extend, the only writers of unverified_hop) and whose return is dominated by a truthy "
    "crypto_auth_verify; both DH sides concatenate (ephemeral, static) in the same order; Circuit._hops is append-only "
    "with one caller; relay-side create/extend pairing by cache number, and the relay installs relay_from_to[..] only under the "
    "to/from circuit ids of its own popped CreateRequestCache, keyed from the origin's exit socket, under the dominating fact that "
    "the origin circuit still is an exit socket (an established relay hop is never rewired by an answer). "
    "Equality of derived keys is X25519/HKDF (trusted)."
)

TC = "ipv8/messaging/anonymization/community.py"
CR = "ipv8/messaging/anonymization/crypto.py"
CA = "ipv8/messaging/anonymization/caches.py"
TU = "ipv8/messaging/anonymization/tunnel.py"


# ------------------------------------------------------------------------------------ helpers (semantic recognition)
def _snorm(e: ast.AST | None) -> str | None:
    """norm() of an expression with typing.cast(...) wrappers removed (cast is the identity at run time)."""
    return None if e is None else norm(strip_cast(e))


def _rnorm(fi: FuncInfo, e: ast.AST | None) -> str | None:
    """norm() after following single-assignment local aliases and removing casts."""
    return None if e is None else norm(resolve(fi, e))


def _assigned_names(st: ast.stmt) -> list[str]:
    """Local names bound to the whole value of an assignment statement (plain, chained or annotated)."""
    if isinstance(st, ast.Assign):
        return [t.id for t in st.targets if isinstance(t, ast.Name)]
    if isinstance(st, ast.AnnAssign) and isinstance(st.target, ast.Name) and st.value is not None:
        return [st.target.id]
    return []


_HOP_WRITERS = ("send_initial_create", "send_extend", "_ours_on_created_extended")


def _is_pending_hop(ctx: Ctx, fi: FuncInfo, e: ast.AST | None, site: ast.AST) -> bool:
    """
    Does `e`, evaluated at `site`, denote the Hop object that `circuit.unverified_hop` holds there?
    Accepted: the attribute read itself, or a local N with exactly one definition such that every store to
    circuit.unverified_hop in this function stores N (``circuit.unverified_hop = N`` or the chained form
    ``circuit.unverified_hop = N = Hop(..)``), such a store has completed on every path to `site` (CFG), and no function
    that rewrites unverified_hop is called from here.  Then N and the attribute are the same object at `site`.
    """
    if e is None:
        return False
    e = strip_cast(e)
    if norm(e) == "circuit.unverified_hop":
        return is_param(fi, "circuit") and not local_defs(fi, "circuit")
    if not isinstance(e, ast.Name) or is_param(fi, e.id):
        return False
    d = local_defs(fi, e.id)
    if len(d) != 1 or d[0][1] is None or d[0][2] is not None:
        return False
    sts = [st for st, t in stores(fi, "circuit.unverified_hop")]
    if not sts or not is_param(fi, "circuit") or local_defs(fi, "circuit"):
        return False
    for st in sts:
        if not isinstance(st, (ast.Assign, ast.AnnAssign)):
            return False
        same_stmt = st is d[0][0]
        v = strip_cast(st.value) if st.value is not None else None
        if not (same_stmt or (isinstance(v, ast.Name) and v.id == e.id)):
            return False
    if any(call_name(c) in _HOP_WRITERS for c in calls(fi)):
        return False
    cfg = ctx.cfg(fi)
    through = [n for st in sts for n in cfg.nodes_for(st)]
    nodes = cfg.nodes_for(site)
    return bool(nodes) and all(cfg.must_complete(n, through) for n in nodes)


def _old_retry_cache_dropped_before(ctx: Ctx, fi: FuncInfo, site: ast.AST) -> bool:
    """
    Every path entry -> site either completed ``self.request_cache.pop(RetryRequestCache, circuit.circuit_id)`` or took the
    false edge of ``self.request_cache.has(RetryRequestCache, circuit.circuit_id)`` (there was nothing to pop).
    """
    cfg = ctx.cfg(fi)

    def is_key(c: ast.AST, name: str) -> bool:
        return isinstance(c, ast.Call) and chain(c.func) == f"self.request_cache.{name}" and chain(arg(c, 0)) == "RetryRequestCache" \
            and _rnorm(fi, arg(c, 1)) == "circuit.circuit_id"

    pops = [p for p in calls(fi) if is_key(p, "pop")]
    pop_nodes = [n for p in pops for n in cfg.nodes_for(p)]
    r = cfg.reach(cut_out_normal=pop_nodes, cut_edge=lambda u, v, lab: u.kind == "cond" and lab is False and is_key(u.ast, "has"))
    nodes = cfg.nodes_for(site)
    return bool(pops) and bool(nodes) and all(n not in r for n in nodes)


def _flatten_ifexp(e: ast.AST) -> list[ast.AST]:
    e = strip_cast(e)
    if isinstance(e, ast.IfExp):
        return _flatten_ifexp(e.body) + _flatten_ifexp(e.orelse)
    return [e]


def _is_responder_static_key(fi: FuncInfo, e: ast.AST, param: str, depth: int = 3) -> bool:
    """
    `e` can only evaluate to the caller-supplied static key parameter or to self.key (the community's own static key):
    the parameter itself (rebound, if at all, only to self.key), or a local all of whose reaching definitions are such values
    (also through conditional expressions).
    """
    e = strip_cast(e)
    if norm(e) == "self.key":
        return True
    if not isinstance(e, ast.Name) or depth <= 0:
        return False
    defs = local_defs(fi, e.id)
    if e.id == param:
        return all(v is not None and i is None and all(norm(x) == "self.key" or (isinstance(x, ast.Name) and x.id == param)
                                                         for x in _flatten_ifexp(v)) for _, v, i in defs)
    if is_param(fi, e.id) or not defs:
        return False
    return all(v is not None and i is None and all(_is_responder_static_key(fi, x, param, depth - 1) for x in _flatten_ifexp(v))
               for _, v, i in defs)


def rule_identifier(ctx: Ctx) -> None:
    repo = ctx.repo
    n = 0
    for m, fi, c in repo.callers_of_name("_ours_on_created_extended"):
        if fi is None:
            continue
        n += 1
        ok_who = fi.qualname in ("TunnelCommunity.on_created", "TunnelCommunity.on_extended")
        ctx.check(ok_who, "identifier-match", fi, c, f"_ours_on_created_extended called from {fi.qualname}",
                  "keys can be accepted through a caller other than on_created/on_extended")
        if not ok_who:
            continue
        cfg = ctx.cfg(fi)
        payload = fi.params()[2]
        facts = facts_at(cfg, c)
        cache_ok = ident_ok = False
        for f in facts:
            if f.op == "truthy" and f.pos and isinstance(f.left, ast.Name):
                d = single_def(fi, f.left.id)
                if d is not None:
                    v = strip_cast(d[0])
                    if isinstance(v, ast.Call) and chain(v.func) == "self.request_cache.get" and chain(arg(v, 0)) == "RetryRequestCache" \
                            and norm(resolve(fi, arg(v, 1))) == f"{payload}.circuit_id":
                        cache_ok = f.left.id
        for f in facts:
            if f.op == "eq" and f.pos and cache_ok:
                if {norm(f.left), norm(f.right)} == {f"{cache_ok}.packet_identifier", f"{payload}.identifier"}:
                    ident_ok = True
        args_ok = norm(resolve(fi, arg(c, 0))) == f"{payload}.circuit_id" and chain(arg(c, 1)) == payload
        ctx.check(bool(cache_ok) and ident_ok and args_ok, "identifier-match", fi, c,
                  "answer accepted only if a RetryRequestCache for payload.circuit_id exists and its packet_identifier == payload.identifier",
                  "a created/extended answer with a wrong identifier, for another circuit, or after the attempt was abandoned is processed",
                  [str(f) for f in facts])
    ctx.floor("identifier-match", n, 2)
    # packet_identifier: random, assigned once
    init = repo.method("RetryRequestCache", "__init__", CA)
    sts = [s for s, t in stores(init, "self.packet_identifier")]
    ok = len(sts) == 1 and isinstance(sts[0].value, ast.Call) and chain(sts[0].value.func) == "secrets.randbelow" \
        and repo.resolve_const(init.module, sts[0].value.args[0]) == 65536
    ctx.check(ok, "identifier-match", init, init.node, "packet_identifier = secrets.randbelow(2**16) per attempt",
              "the per-attempt identifier is not a fresh 16-bit random value")
    for m, fi, a in repo.attribute_uses("packet_identifier"):
        if isinstance(a.ctx, ast.Store):
            ctx.check(fi is not None and fi.qualname == "RetryRequestCache.__init__", "identifier-match", fi or m.relpath, enclosing_stmt(a),
                      "packet_identifier written only at construction", "packet_identifier is rewritten after construction")
    # each attempt constructs a new cache and sends *its* identifier
    for meth, pl in (("send_initial_create", "CreatePayload"), ("send_extend", "ExtendPayload")):
        fi = repo.method("TunnelCommunity", meth, TC)
        ctors = calls(fi, "RetryRequestCache")
        pls = calls(fi, pl)
        ok = len(ctors) == 1 and len(pls) == 1
        if ok:
            # the local(s) the new cache is bound to (plain / chained / annotated assignment), each assigned once
            names = [v for v in _assigned_names(enclosing_stmt(ctors[0])) if len(local_defs(fi, v)) == 1]
            ident = strip_cast(arg(pls[0], 1))
            ok = isinstance(ident, ast.Attribute) and ident.attr == "packet_identifier" and \
                isinstance(strip_cast(ident.value), ast.Name) and strip_cast(ident.value).id in names \
                and _rnorm(fi, arg(pls[0], 0)) == "circuit.circuit_id" \
                and any(chain(a.func) == "self.request_cache.add" and chain(strip_cast(arg(a, 0))) in names for a in calls(fi))
            # old attempt's cache is popped first (so an answer to the old attempt finds the new identifier): on every path
            # to the construction of the new cache the old one was popped or there was none (CFG, not line order)
            ok = ok and _old_retry_cache_dropped_before(ctx, fi, ctors[0])
        ctx.check(ok, "identifier-match", fi, fi.node, f"{meth}: pops the old retry cache, registers a new one and sends its identifier",
                  f"{meth} does not bind the request to a fresh retry cache identifier")


def rule_verify_before_accept(ctx: Ctx) -> None:
    repo = ctx.repo
    fi = repo.method("TunnelCommunity", "_ours_on_created_extended", TC)
    cfg = ctx.cfg(fi)
    params = fi.params()
    cid, payload = params[1], params[2]
    vcalls = ctx.anchor([c for c in calls(fi) if call_name(c) == "verify_and_generate_shared_secret"], "verify call")
    vnodes = [n for c in vcalls for n in cfg.nodes_for(c)]
    # accepted state changes
    accept_sites = []
    for st, t in stores(fi, lambda c: c.endswith(".keys") or c.endswith(".unverified_hop")):
        accept_sites.append(st)
    accept_sites += [c for c in calls(fi) if call_name(c) == "add_hop"]
    ctx.floor("verify-before-accept", len(accept_sites), 3)
    for s in accept_sites:
        for sn in cfg.nodes_for(s):
            ctx.check(cfg.must_complete(sn, vnodes), "verify-before-accept", fi, s,
                      f"`{norm(s)[:60]}` reachable only after verify_and_generate_shared_secret returned normally",
                      "session keys / the new hop are accepted on a path on which the authenticated DH verification did not succeed")
    # keys derive from the verified secret
    for st, t in stores(fi, lambda c: c.endswith(".keys")):
        v = resolve(fi, st.value)
        ok = isinstance(v, ast.Call) and call_name(v) == "generate_session_keys" and \
            isinstance(resolve(fi, arg(v, 0)), ast.Call) and resolve(fi, arg(v, 0)) in vcalls
        ctx.check(ok, "verify-before-accept", fi, st, "hop.keys = generate_session_keys(<verified shared secret>)",
                  "the accepted session keys are not derived from the verified shared secret")
    # the pending hop is cleared before the hop is appended: nothing that can raise lies between acceptance and the reset,
    # otherwise a duplicate of the same answer verifies again and appends the same peer twice
    resets = [n for s_, t in stores(fi, lambda c: c.endswith(".unverified_hop")) if const_value(s_.value) is None for n in cfg.nodes_for(s_)]
    for c in [c for c in calls(fi) if call_name(c) == "add_hop"]:
        ok = bool(resets) and all(cfg.must_complete(n, resets) for n in cfg.nodes_for(c))
        ctx.check(ok, "verify-before-accept", fi, c, "circuit.unverified_hop is cleared before add_hop on every path",
                  "the accepted hop stays registered as the pending hop on some path after add_hop: a duplicated answer is verified again and the same peer is appended twice")
    # the session keys are derived from the WHOLE shared secret (ephemeral and static half)
    gk = repo.method("TunnelCrypto", "generate_session_keys", CR)
    ks = [c for c in calls(gk, "_generate_session_keys")]
    ok = len(ks) == 1 and norm(arg(ks[0], 0)) == gk.params()[0] and not local_defs(gk, gk.params()[0])
    imp = gk.module.imports.get("_generate_session_keys")
    ok = ok and imp is not None and imp[0] == "ipv8_rust_tunnels"
    ctx.check(ok, "selected-peer-key", gk, gk.node, "session keys = KDF(whole shared secret)",
              "the KDF is not fed the complete shared secret: the half that binds the keys to the selected peer's static key is dropped, so whoever answers with an own ephemeral key shares the accepted keys")
    # the hop that is added is the unverified hop of this circuit
    circ = single_def(fi, "circuit")
    ok_circ = circ is not None and norm(circ[0]) == f"self.circuits[{cid}]"
    hop = single_def(fi, "hop")
    ok_hop = hop is not None and norm(hop[0]) == "circuit.unverified_hop"
    for c in [c for c in calls(fi) if call_name(c) == "add_hop"]:
        ctx.check(ok_circ and ok_hop and chain(c.func) == "circuit.add_hop" and chain(arg(c, 0)) == "hop", "verify-before-accept", fi, c,
                  "circuit.add_hop(hop) with hop = circuit.unverified_hop of self.circuits[circuit_id]",
                  "the hop appended is not the circuit's own unverified hop")
    # ---- selected-peer-key
    for c in vcalls:
        a = [_snorm(x) for x in c.args]  # typing.cast(..) around an argument is the identity
        ok = len(a) == 4 and not c.keywords and a[0] == "hop.dh_secret" and a[1] == f"{payload}.key" and a[2] == f"{payload}.auth" \
            and a[3] == "hop.peer.public_key.get_crypt_pk()" and ok_hop and ok_circ
        ctx.check(ok, "selected-peer-key", fi, c, "verify(hop.dh_secret, payload.key, payload.auth, hop.peer.public_key.get_crypt_pk())",
                  "the DH verification is not bound to the static key of the peer the originator selected for this hop")
    # ---- inside the verification
    vf = repo.method("TunnelCrypto", "verify_and_generate_shared_secret", CR)
    cfgv = ctx.cfg(vf)
    p = vf.params()
    rets = [r for r in walk_no_nested(vf.node) if isinstance(r, ast.Return)]
    ctx.anchor(rets, "return in verify_and_generate_shared_secret")
    for r in rets:
        facts = facts_at(cfgv, r)
        av = None
        for f in facts:
            if f.op == "truthy" and f.pos and isinstance(f.left, ast.Call) and chain(f.left.func) == "crypto_auth_verify":
                av = f.left
        mac_key = resolve(vf, av.args[1]) if av is not None and len(av.args) == 3 else None  # `auth_key = secret[:32]` alias accepted
        ok = mac_key is not None and _snorm(av.args[0]) == p[2] and _snorm(av.args[2]) == p[1] and \
            isinstance(mac_key, ast.Subscript) and isinstance(strip_cast(r.value), ast.Name) and \
            chain(mac_key.value) == chain(strip_cast(r.value)) and len(local_defs(vf, chain(mac_key.value))) == 1 and norm(mac_key.slice) == ":32"
        ctx.check(ok, "verify-before-accept", vf, r, "shared secret returned only under truthy crypto_auth_verify(auth, secret[:32], dh_received)",
                  "verify_and_generate_shared_secret can return a secret without a successful authenticator check", [str(f) for f in facts])
        ss = resolve(vf, r.value)
        ok2 = isinstance(ss, ast.BinOp) and isinstance(ss.op, ast.Add) and \
            norm(resolve(vf, ss.left)) == f"{p[0]}.diffie_hellman({p[1]})" and norm(resolve(vf, ss.right)) == f"{p[0]}.diffie_hellman({p[3]})"
        ctx.check(ok2, "selected-peer-key", vf, r, "secret = DH(secret, received ephemeral) + DH(secret, static key b)",
                  "the shared secret does not combine the ephemeral and the selected peer's static key in (ephemeral, static) order")
    for name in p:
        ctx.check(not local_defs(vf, name), "selected-peer-key", vf, vf.node, f"parameter {name} not rebound", f"parameter {name} is rebound")
    imp = vf.module.imports.get("crypto_auth_verify")
    ctx.check(imp is not None and imp[0] == "ipv8_rust_tunnels", "verify-before-accept", vf, "crypto_auth_verify",
              "crypto_auth_verify is the ipv8_rust_tunnels primitive", "crypto_auth_verify is shadowed by a local definition")
    # responder side mirrors the order
    gf = repo.method("TunnelCrypto", "generate_diffie_shared_secret", CR)
    rets = [r for r in walk_no_nested(gf.node) if isinstance(r, ast.Return) and isinstance(r.value, ast.Tuple)]
    ctx.anchor(rets, "return in generate_diffie_shared_secret")
    for r in rets:
        ss = resolve(gf, r.value.elts[0])
        recv, keyp = gf.params()[1], gf.params()[2]
        ok = len(r.value.elts) == 3 and isinstance(ss, ast.BinOp) and isinstance(ss.op, ast.Add) and not local_defs(gf, recv)
        if ok:
            eph, sta = resolve(gf, ss.left), resolve(gf, ss.right)
            ok = norm(eph) == f"tmp_key.diffie_hellman({recv})" and isinstance(sta, ast.Call) and call_name(sta) == "diffie_hellman" \
                and len(sta.args) == 1 and not sta.keywords and norm(sta.args[0]) == recv \
                and _is_responder_static_key(gf, sta.func.value, keyp)
        tk = single_def(gf, "tmp_key")
        ok = ok and tk is not None  # one ephemeral key object: the one in the DH is the one whose public half is authenticated
        au = resolve(gf, r.value.elts[2]) if ok else None
        ok_au = isinstance(au, ast.Call) and chain(au.func) == "crypto_auth" and len(au.args) == 2 \
            and isinstance(strip_cast(r.value.elts[0]), ast.Name) and len(local_defs(gf, chain(strip_cast(r.value.elts[0])))) == 1 \
            and _rnorm(gf, au.args[0]) == f"{chain(strip_cast(r.value.elts[0]))}[:32]" \
            and _rnorm(gf, au.args[1]) == "tmp_key.get_crypt_pk()" and _rnorm(gf, r.value.elts[1]) == "tmp_key.get_crypt_pk()"
        ctx.check(ok and ok_au, "selected-peer-key", gf, r, "responder: secret = DH(ephemeral, X) + DH(static, X); auth over secret[:32] and its ephemeral key",
                  "responder side of the handshake does not mirror the originator's (ephemeral, static) construction")


def rule_unverified_hop_writers(ctx: Ctx) -> None:
    repo = ctx.repo
    n = 0
    for m in repo.modules.values():
        for node in ast.walk(m.tree):
            if isinstance(node, ast.Attribute) and node.attr == "unverified_hop" and isinstance(node.ctx, ast.Store):
                fi = repo.function_of(node)
                st = enclosing_stmt(node)
                n += 1
                q = fi.qualname if fi else "?"
                if q == "Circuit.__init__" or q == "TunnelCommunity._ours_on_created_extended":
                    ok = isinstance(st, (ast.Assign, ast.AnnAssign)) and isinstance(st.value, ast.Constant) and st.value.value is None
                elif q == "TunnelCommunity.send_initial_create":
                    v = resolve(fi, st.value)
                    ok = isinstance(v, ast.Call) and chain(v.func) == "Hop" and norm(resolve(fi, arg(v, 0, "peer"))) == "candidate_peers[0]" \
                        and not local_defs(fi, "candidate_peers")
                elif q == "TunnelCommunity.send_extend":
                    v = resolve(fi, st.value)
                    ok = isinstance(v, ast.Call) and chain(v.func) == "Hop"
                    if ok:
                        pe = strip_cast(arg(v, 0))
                        k = resolve(fi, arg(pe, 0)) if isinstance(pe, ast.Call) and chain(pe.func) == "Peer" else None
                        ok = isinstance(k, ast.Call) and call_name(k) == "key_from_public_bin" and chain(arg(k, 0)) == "extend_hop_public_bin"
                else:
                    ok = False
                ctx.check(ok, "selected-peer-key", fi or m.relpath, st, f"unverified_hop written in {q} from the chosen candidate",
                          "the hop awaiting verification is set from something other than the candidate the originator selected")
    ctx.floor("selected-peer-key.writers", n, 4)
    # the extend request names the same key that will be verified
    se = repo.method("TunnelCommunity", "send_extend", TC)
    for c in calls(se, "ExtendPayload"):
        a2, a3 = strip_cast(arg(c, 2)), strip_cast(arg(c, 3))
        ok = isinstance(a2, ast.Attribute) and a2.attr == "public_key_bin" and _is_pending_hop(ctx, se, a2.value, c) \
            and isinstance(a3, ast.Attribute) and a3.attr == "dh_first_part" and _is_pending_hop(ctx, se, a3.value, c)
        ctx.check(ok, "selected-peer-key", se, c, "extend request carries unverified_hop's key and DH part",
                  "the extend request names a different node than the one whose key will be verified")
    sic = repo.method("TunnelCommunity", "send_initial_create", TC)
    for c in calls(sic, "CreatePayload"):
        a3 = strip_cast(arg(c, 3))
        ok = isinstance(a3, ast.Attribute) and a3.attr == "dh_first_part" and _is_pending_hop(ctx, sic, a3.value, c)
        ctx.check(ok, "selected-peer-key", sic, c, "create request carries unverified_hop's DH part", "create carries another DH part")
        snd = [s for s in calls(sic, "self.send_cell")]
        ctx.check(bool(snd) and norm(arg(snd[0], 0)) == "first_hop.address", "selected-peer-key", sic, c,
                  "create is sent to the selected first hop", "create is sent to a peer other than the selected first hop")
    # dh_secret generated per attempt
    for fi in (sic, se):
        g = [c for c in calls(fi) if call_name(c) == "generate_diffie_secret"]
        ctx.check(len(g) == 1, "selected-peer-key", fi, fi.node, f"{fi.name}: fresh DH secret per attempt", "DH secret is not generated per attempt")


def rule_append_only(ctx: Ctx) -> None:
    repo = ctx.repo
    circ = repo.cls("Circuit", TU)
    n = 0
    for m in repo.modules.values():
        for node in ast.walk(m.tree):
            if isinstance(node, ast.Attribute) and node.attr == "_hops":
                fi = repo.function_of(node)
                n += 1
                inside = fi is not None and fi.cls is circ
                ctx.check(inside, "hops-append-only", fi or m.relpath, enclosing_stmt(node), "_hops touched only inside Circuit",
                          "Circuit._hops is accessed from outside the Circuit class")
                if not inside:
                    continue
                par = getattr(node, "_parent", None)
                if isinstance(node.ctx, ast.Store):
                    ctx.check(fi.name == "__init__", "hops-append-only", fi, enclosing_stmt(node), "_hops assigned only in __init__",
                              "the hop list of a circuit is replaced after construction")
                elif isinstance(par, ast.Attribute) and isinstance(getattr(par, "_parent", None), ast.Call):
                    ctx.check(par.attr == "append" and fi.name == "add_hop", "hops-append-only", fi, enclosing_stmt(node),
                              f"_hops.{par.attr} in {fi.name}", f"the hop list is mutated with `{par.attr}` (established hops can change)")
                elif isinstance(par, ast.Subscript) and isinstance(par.ctx, (ast.Store, ast.Del)):
                    ctx.check(False, "hops-append-only", fi, enclosing_stmt(node), "no element assignment", "an established hop is overwritten")
    ctx.floor("hops-append-only", n, 4)
    hp = circ.methods.get("hops")
    rets = [r for r in walk_no_nested(hp.node) if isinstance(r, ast.Return)]
    ok = len(rets) == 1 and norm(rets[0].value) == "tuple(self._hops)"
    ctx.check(ok, "hops-append-only", hp, hp.node, "Circuit.hops returns a tuple copy", "Circuit.hops hands out the mutable hop list")
    for m, fi, c in repo.callers_of_name("add_hop"):
        if fi is None:
            continue
        ctx.check(fi.qualname == "TunnelCommunity._ours_on_created_extended" or fi.module.relpath.startswith("ipv8/REST/") and False, "hops-append-only", fi, c,
                  f"add_hop called from {fi.qualname}", "hops are appended outside the verified create/extend completion")
    # hop.keys of established hops: stores to `.keys` on hops only in _ours_on_created_extended
    for m in repo.modules.values():
        if not m.relpath.startswith("ipv8/messaging/anonymization/"):
            continue
        for node in ast.walk(m.tree):
            if isinstance(node, ast.Attribute) and node.attr == "keys" and isinstance(node.ctx, ast.Store):
                fi = repo.function_of(node)
                ctx.check(fi is not None and fi.qualname == "TunnelCommunity._ours_on_created_extended", "hops-append-only", fi or m.relpath,
                          enclosing_stmt(node), "hop.keys assigned only on verified completion", "session keys of a hop are assigned elsewhere")


def rule_relay_pairing(ctx: Ctx) -> None:
    repo = ctx.repo
    oe = repo.method("TunnelCommunity", "on_extend", TC)
    ctors = ctx.anchor(calls(oe, "CreateRequestCache"), "CreateRequestCache in on_extend")
    c = ctors[0]
    a = [norm(x) for x in c.args]
    ok = a[:4] == ["self", "payload.identifier", "to_circuit_id", "circuit_id"] and norm(resolve(oe, c.args[3])) == "payload.circuit_id"
    st = enclosing_stmt(c)
    var = st.targets[0].id if isinstance(st, ast.Assign) else None
    cps = calls(oe, "CreatePayload")
    ok = ok and len(cps) == 1 and norm(arg(cps[0], 0)) == "to_circuit_id" and norm(arg(cps[0], 1)) == f"{var}.number" \
        and norm(arg(cps[0], 3)) == "payload.key"
    ok = ok and isinstance(resolve(oe, ast.Name(id="to_circuit_id", ctx=ast.Load())), ast.Call) and \
        chain(resolve(oe, ast.Name(id="to_circuit_id", ctx=ast.Load())).func) == "self._generate_circuit_id"
    ctx.check(ok, "relay-pairing", oe, c, "on_extend: cache(extend id, new to_circuit_id, from circuit) and create(to_circuit_id, cache.number, .., payload.key)",
              "the relay does not pair the forwarded create with the pending extend (identifier / circuit ids / key material)")
    oc = repo.method("TunnelCommunity", "on_created", TC)
    cfg = ctx.cfg(oc)
    pops = [p for p in calls(oc, "self.request_cache.pop") if chain(arg(p, 0)) == "CreateRequestCache"]
    ctx.anchor(pops, "CreateRequestCache pop in on_created")
    for p in pops:
        facts = facts_at(cfg, p)
        ok = any(f.op == "truthy" and f.pos and isinstance(f.left, ast.Call) and chain(f.left.func) == "self.request_cache.has"
                 and chain(f.left.args[0]) == "CreateRequestCache" and norm(f.left.args[1]) == norm(arg(p, 1)) for f in facts) \
            and norm(arg(p, 1)) == "payload.identifier"
        ctx.check(ok, "relay-pairing", oc, p, "created consumed by payload.identifier only when such a cache exists (has before pop)",
                  "a created answer is paired with a pending extend without checking the cache exists / by another key", [str(f) for f in facts])
    # ---- the routes installed for the new hop are those of the pending extend *as the relay stored it*
    # locals bound (once) to the popped CreateRequestCache
    req_names = {v for p in pops for v in _assigned_names(enclosing_stmt(p)) if len(local_defs(oc, v)) == 1}

    def req_attr(e: ast.AST | None) -> str | None:
        """attribute name if e is (an alias of) <popped request>.<attr>"""
        e = resolve(oc, e) if e is not None else None
        if isinstance(e, ast.Attribute) and isinstance(strip_cast(e.value), ast.Name) and strip_cast(e.value).id in req_names:
            return e.attr
        return None

    def from_exit_socket_keys(e: ast.AST | None) -> bool:
        """e is self.exit_sockets[<request>.from_circuit_id].hop.keys (the keys negotiated with the circuit owner's side)"""
        e = resolve(oc, e) if e is not None else None
        if not (isinstance(e, ast.Attribute) and e.attr == "keys" and isinstance(e.value, ast.Attribute) and e.value.attr == "hop"):
            return False
        sock = resolve(oc, e.value.value)
        if isinstance(sock, ast.Subscript):
            return chain(sock.value) == "self.exit_sockets" and req_attr(sock.slice) == "from_circuit_id"
        return isinstance(sock, ast.Call) and chain(sock.func) == "self.exit_sockets.get" and req_attr(arg(sock, 0)) == "from_circuit_id"

    def still_exit_socket(f) -> bool:
        """dominating fact: the origin circuit id of the pending extend is (still) an exit socket of this relay"""
        if f.op == "in" and f.pos:
            return req_attr(f.left) == "from_circuit_id" and chain(f.right) == "self.exit_sockets"
        if f.op == "truthy" and f.pos or f.op == "is" and not f.pos and const_value(f.right) is None:
            v = resolve(oc, f.left)
            return isinstance(v, ast.Call) and chain(v.func) == "self.exit_sockets.get" and req_attr(arg(v, 0)) == "from_circuit_id" \
                and (len(v.args) == 1 or const_value(v.args[1]) is None) and isinstance(f.left, ast.Name)
        return False

    expect = {"to_circuit_id": ("from_circuit_id", "peer", "BACKWARD"), "from_circuit_id": ("to_circuit_id", "to_peer", "FORWARD")}
    seen = set()
    routes = stores(oc, "self.relay_from_to[]")
    for st, t in routes:
        facts = facts_at(cfg, st)
        ka = req_attr(t.slice) if isinstance(t, ast.Subscript) else None
        v = resolve(oc, st.value) if isinstance(st, ast.Assign) else None
        ok = ka in expect and isinstance(v, ast.Call) and chain(v.func) == "RelayRoute"
        if ok:
            seen.add(ka)
            other, peer, direction = expect[ka]
            hp = resolve(oc, arg(v, 1, "hop"))
            ok = req_attr(arg(v, 0, "circuit_id")) == other and isinstance(hp, ast.Call) and chain(hp.func) == "Hop" \
                and req_attr(arg(hp, 0, "peer")) == peer and from_exit_socket_keys(arg(hp, 1, "keys")) \
                and _snorm(arg(v, 2, "direction")) == direction
        ok = ok and any(still_exit_socket(f) for f in facts)
        ctx.check(ok, "relay-pairing", oc, st,
                  "relay route registered under the pending extend's own to/from circuit id (from the popped CreateRequestCache), "
                  "keyed from the origin's exit socket, only while the origin circuit still is an exit socket here",
                  "on_created installs relay_from_to[...] under a circuit id taken from the answer (or not from the relay's own "
                  "CreateRequestCache), or while the origin circuit is no longer an exit socket: a created answer carrying a foreign "
                  "circuit id, or one that answers an earlier abandoned extend attempt, rewires an already established hop of a circuit "
                  "whose originator is keyed with (and lists) another peer", [str(f) for f in facts])
    ctx.check(seen == set(expect) and len(routes) == 2, "relay-pairing", oc, oc.node,
              "on_created registers exactly the backward route under to_circuit_id and the forward route under from_circuit_id",
              "on_created does not register exactly one backward and one forward route for the pending extend")
    # local name(s) of the backward route (the value stored under to_circuit_id); its circuit id is request.from_circuit_id (checked above)
    bw_names = {st.value.id for st, t in routes if isinstance(t, ast.Subscript) and req_attr(t.slice) == "to_circuit_id"
                and isinstance(st, ast.Assign) and isinstance(st.value, ast.Name) and len(local_defs(oc, st.value.id)) == 1}
    pl = oc.params()[2]
    for e in calls(oc, "ExtendedPayload"):
        a0 = resolve(oc, arg(e, 0)) if e.args else None
        origin_ok = req_attr(a0) == "from_circuit_id" or (
            isinstance(a0, ast.Attribute) and a0.attr == "circuit_id" and isinstance(a0.value, ast.Name) and a0.value.id in bw_names)
        ok = len(e.args) == 5 and not e.keywords and origin_ok and req_attr(e.args[1]) == "extend_identifier" and not local_defs(oc, pl) \
            and [_rnorm(oc, x) for x in e.args[2:]] == [f"{pl}.key", f"{pl}.auth", f"{pl}.candidates_enc"]
        ctx.check(ok, "relay-pairing", oc, e, "extended answer = (origin circuit, extend identifier, key, auth, candidates) forwarded unchanged",
                  "the relay alters identifier or key material when forwarding created as extended")


def run(ctx: Ctx) -> None:
    rule_identifier(ctx)
    rule_verify_before_accept(ctx)
    rule_unverified_hop_writers(ctx)
    rule_append_only(ctx)
    rule_relay_pairing(ctx)
    ctx.assume("X25519 / crypto_auth / HKDF in ipv8_rust_tunnels and OpenSSL keys are sound: equal inputs give equal session keys, crypto_auth_verify is a MAC check (trusted)")
    ctx.assume("replay of an old answer is excluded only through the fresh packet_identifier of each attempt (checked), not by exploring schedules")


WITNESSES = [
    {"name": "created accepted without identifier match", "file": TC, "rule": "identifier-match",
     "old": "        if cache and cache.packet_identifier == payload.identifier:\n            self._ours_on_created_extended(circuit_id, payload)",
     "new": "        if cache:\n            self._ours_on_created_extended(circuit_id, payload)"},
    {"name": "extended accepted with stale identifier", "file": TC, "rule": "identifier-match",
     "old": "        if not cache or cache.packet_identifier != payload.identifier:\n            self.logger.warning(\"Received unexpected extended for circuit %s\", circuit_id)\n            return\n",
     "new": "        if not cache:\n            self.logger.warning(\"Received unexpected extended for circuit %s\", circuit_id)\n            return\n"},
    {"name": "identifier reused across attempts", "file": CA, "rule": "identifier-match",
     "old": "self.packet_identifier = secrets.randbelow(2**16)", "new": "self.packet_identifier = circuit.circuit_id % 2**16"},
    {"name": "keys accepted when verification raises", "file": TC, "rule": "verify-before-accept",
     "old": """        try:
            shared_secret = self.crypto.verify_and_generate_shared_secret(hop.dh_secret, payload.key, payload.auth,
                                                                          hop.peer.public_key.get_crypt_pk())
            session_keys = self.crypto.generate_session_keys(shared_secret)
            hop.keys = session_keys

        except ValueError:
            self.remove_circuit(circuit.circuit_id, "error while verifying shared secret")
            return
""",
     "new": """        try:
            shared_secret = self.crypto.verify_and_generate_shared_secret(hop.dh_secret, payload.key, payload.auth,
                                                                          hop.peer.public_key.get_crypt_pk())
            session_keys = self.crypto.generate_session_keys(shared_secret)
            hop.keys = session_keys

        except Exception:
            self.logger.warning("error while verifying shared secret")
            session_keys = None
"""},
    {"name": "auth check result ignored", "file": CR, "rule": "verify-before-accept",
     "old": "        if not crypto_auth_verify(auth, shared_secret[:32], dh_received):\n            raise CryptoException\n",
     "new": "        crypto_auth_verify(auth, shared_secret[:32], dh_received)\n"},
    {"name": "verify against key from the answer", "file": TC, "rule": "selected-peer-key",
     "old": "                                                                          hop.peer.public_key.get_crypt_pk())",
     "new": "                                                                          payload.key)"},
    {"name": "static part dropped from secret", "file": CR, "rule": "selected-peer-key",
     "old": "        s2 = dh_secret.diffie_hellman(b)\n", "new": "        s2 = dh_secret.diffie_hellman(dh_received)\n"},
    {"name": "hop list replaced", "file": TU, "rule": "hops-append-only",
     "old": "        self._hops.append(hop)\n", "new": "        self._hops = [*self._hops[:-1], hop] if self.unverified_hop is None and self._hops else [*self._hops, hop]\n"},
    {"name": "hops property leaks list", "file": TU, "rule": "hops-append-only",
     "old": "        return tuple(self._hops)", "new": "        return self._hops"},
    {"name": "unverified hop rewritten by answer", "file": TC, "rule": "selected-peer-key",
     "old": "        if cache and cache.packet_identifier == payload.identifier:\n            self._ours_on_created_extended(circuit_id, payload)",
     "new": "        if cache and cache.packet_identifier == payload.identifier:\n            self.circuits[circuit_id].unverified_hop = Hop(Peer(payload.key, source_address))\n            self._ours_on_created_extended(circuit_id, payload)"},
    {"name": "relay pairs created by circuit id", "file": TC, "rule": "relay-pairing",
     "old": "        if self.request_cache.has(CreateRequestCache, payload.identifier):\n            request = self.request_cache.pop(CreateRequestCache, payload.identifier)",
     "new": "        if self.request_cache.has(CreateRequestCache, payload.identifier):\n            request = self.request_cache.pop(CreateRequestCache, payload.identifier % 65536)"},
    {"name": "relay route registered under the circuit id of the answer", "file": TC, "rule": "relay-pairing",
     "old": "            self.relay_from_to[request.to_circuit_id] = bw_relay\n",
     "new": "            self.relay_from_to[circuit_id] = bw_relay\n"},
    {"name": "established relay rewired by a late created", "file": TC, "rule": "relay-pairing",
     "old": "            if request.from_circuit_id not in self.exit_sockets:\n                self.logger.info(\"Created for unknown exit socket %s\", request.from_circuit_id)\n                return\n            session_keys = self.exit_sockets[request.from_circuit_id].hop.keys\n",
     "new": "            if request.from_circuit_id not in self.exit_sockets and request.from_circuit_id not in self.relay_from_to:\n                self.logger.info(\"Created for unknown exit socket %s\", request.from_circuit_id)\n                return\n            session_keys = (self.exit_sockets.get(request.from_circuit_id) or self.relay_from_to[request.from_circuit_id]).hop.keys\n"},
    {"name": "create carries the DH part of a hop that is not (always) the pending hop", "rule": "selected-peer-key", "edits": [
        {"file": TC,
         "old": "        circuit.unverified_hop = Hop(first_hop, flags=self.candidates.get(first_hop))\n        circuit.unverified_hop.dh_secret, circuit.unverified_hop.dh_first_part = self.crypto.generate_diffie_secret()\n",
         "new": "        new_hop = Hop(first_hop, flags=self.candidates.get(first_hop))\n        new_hop.dh_secret, new_hop.dh_first_part = self.crypto.generate_diffie_secret()\n        if circuit.unverified_hop is None:\n            circuit.unverified_hop = new_hop\n"},
        {"file": TC,
         "old": "                                                        circuit.unverified_hop.dh_first_part))",
         "new": "                                                        new_hop.dh_first_part))"}]},
    {"name": "old retry cache not popped on every path before the new attempt", "file": TC, "rule": "identifier-match",
     "old": "        if self.request_cache.has(RetryRequestCache, circuit.circuit_id):\n            self.request_cache.pop(RetryRequestCache, circuit.circuit_id)\n            self.logger.info(\"Retrying first hop",
     "new": "        if self.request_cache.has(RetryRequestCache, circuit.circuit_id) and max_tries > 1:\n            self.request_cache.pop(RetryRequestCache, circuit.circuit_id)\n            self.logger.info(\"Retrying first hop"},
    {"name": "relay substitutes key material", "file": TC, "rule": "relay-pairing",
     "old": "                           ExtendedPayload(bw_relay.circuit_id, request.extend_identifier,\n                                           payload.key, payload.auth, payload.candidates_enc))",
     "new": "                           ExtendedPayload(bw_relay.circuit_id, payload.identifier,\n                                           payload.key, payload.auth, payload.candidates_enc))"},
]
